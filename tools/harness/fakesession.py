"""In-process fake NETCONF session: a Session subclass whose send() hands the scripted reply to the
registered listeners (the real RPCReplyListener) through the real Session._dispatch_message, so that
Manager.get/get_config/get_schema/dispatch/rpc run unchanged.  Also: recorders for the parse sites
(module-level names rebound in the harness, no source hooks)."""
import re

DEFAULT_CAPS = ['urn:ietf:params:netconf:base:1.0', 'urn:ietf:params:netconf:capability:candidate:1.0',
                'urn:ietf:params:netconf:capability:xpath:1.0', 'urn:ietf:params:netconf:capability:validate:1.0',
                'urn:ietf:params:netconf:capability:with-defaults:1.0?basic-mode=explicit',
                'urn:ietf:params:xml:ns:yang:ietf-netconf-monitoring']


def make_manager(profile='default', script=None, server_caps=None, timeout=5):
    """-> (Manager, FakeSession).  script(request_xml, message_id) -> list of raw replies to dispatch."""
    from ncclient import manager
    from ncclient.transport.session import Session
    from ncclient.capabilities import Capabilities

    class FakeSession(Session):
        def __init__(self, dh, caps):
            Session.__init__(self, Capabilities(dh.get_capabilities()))
            self._device_handler = dh
            self._connected = True
            self._server_capabilities = Capabilities(caps)
            self._id = '1'
            self.sent = []
            self.script = script
        def send(self, message):
            if not self._connected:
                from ncclient.transport.errors import TransportError
                raise TransportError('Not connected to NETCONF server')
            self.sent.append(message)
            m = re.search(r'message-id="([^"]*)"', message)
            for raw in (self.script(message, m.group(1) if m else None) if self.script else []):
                self._dispatch_message(raw)
        def run(self): pass
        def close(self): self._connected = False

    dh = manager.make_device_handler({'name': profile})
    s = FakeSession(dh, server_caps or DEFAULT_CAPS)
    m = manager.Manager(s, dh, timeout=timeout)
    return m, s


class ParseSites:
    """Context manager recording (site, huge_tree flag) of every full-document parse on a call path.
    Sites: 0 reply parse / 1 error re-parse (xml_._get_parser calls, in order), 2,3,4 the XSLT sheet,
    input and output parses (one XMLParser per NCElement.remove_namespaces), 5 other XMLParser uses."""
    def __enter__(self):
        from ncclient import xml_
        self.xml_ = xml_
        self.log = []
        self._gp, self._et = xml_._get_parser, xml_.etree
        rec, real_et, real_gp = self, xml_.etree, xml_._get_parser
        def get_parser(huge_tree=False):
            n = sum(1 for s, _ in rec.log if s in (0, 1))
            rec.log.append((0 if n == 0 else 1, bool(huge_tree)))
            return real_gp(huge_tree)
        class EtreeProxy:
            def __getattr__(self, name): return getattr(real_et, name)
            def XMLParser(self, *a, **k):
                if k.get('remove_blank_text'):
                    for s in (2, 3, 4): rec.log.append((s, bool(k.get('huge_tree', False))))
                else:
                    rec.log.append((5, bool(k.get('huge_tree', False))))
                return real_et.XMLParser(*a, **k)
        xml_._get_parser = get_parser
        xml_.etree = EtreeProxy()
        return self
    def __exit__(self, *a):
        self.xml_._get_parser, self.xml_.etree = self._gp, self._et
        return False
