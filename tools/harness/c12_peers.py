"""Real-transport peers and an observing session subclass for C12 (closing releases the session).

No hook in the source: the three session classes are subclassed (`probe_class`), the module-level
name `ncclient.transport.session.selectors` is rebound to a logging shim, and the objects stored in
`_socket` / `_transport` / `_channel` / `_closing` are wrapped when they are assigned.

Logging discipline (so that the recorded order is a linearisation of the flag operations):
every WRITE of a flag/handle (closing.set, socket/transport/channel close, _connected := x) and every
READ that decides a branch (closing.is_set in the worker, connected in send) is performed and appended
to the log while holding the session's probe lock; blocking calls (select, recv, join) are logged as a
Begin entry before the call and a result entry after it.
"""
import os, socket, ssl, subprocess, threading, time, types

HELLO_OK = (b'<hello xmlns="urn:ietf:params:xml:ns:netconf:base:1.0"><capabilities>'
            b'<capability>urn:ietf:params:netconf:base:1.0</capability></capabilities>'
            b'<session-id>4</session-id></hello>]]>]]>')
DELIM = b']]>]]>'

def now():
    return time.monotonic()

# --------------------------------------------------------------------------------------
# scripted peer (the server side), generic over socket-like objects (recv/sendall/close)
# --------------------------------------------------------------------------------------
class Peer(threading.Thread):
    """hello: ok | silent | garbage | garbage_eof | eof | badbody | nocaptext
    rpc: hold | reply                (requests other than close-session)
    close_rpc: ok_close | ok_open | silent | error | eof
    """
    def __init__(self, chan, hello='ok', rpc='hold', close_rpc='ok_close', name='c12-peer'):
        threading.Thread.__init__(self, daemon=True, name=name)
        self.chan, self.hello, self.rpc, self.close_rpc = chan, hello, rpc, close_rpc
        self.msgs = []              # (message-id or None, first tag) of every frame received
        self.held = []              # message-ids not answered yet
        self.eof_at = None          # time at which the peer saw the client's end closed
        self.eof_kind = None
        self.done = threading.Event()
        self.wlock = threading.Lock()
        self.closed_own = False

    def _send(self, data):
        try:
            with self.wlock:
                self.chan.sendall(data)
            return True
        except Exception:
            return False

    def reply_ok(self, mid):
        return self._send(b'<rpc-reply xmlns="urn:ietf:params:xml:ns:netconf:base:1.0" message-id="' + mid +
                          b'"><ok/></rpc-reply>' + DELIM)

    def release(self, n=None):
        """answer (some of) the held requests now (used to race replies against close)"""
        ids, self.held = self.held[:n], self.held[n:] if n is not None else []
        for mid in ids:
            self.reply_ok(mid)
        return len(ids)

    def start_stream(self, pause=0.0005):
        """send notifications back to back until the connection goes away (an active subscription)"""
        def body():
            i = 0
            while not self.closed_own and not self.done.is_set():
                i += 1
                if not self._send(b'<notification xmlns="urn:ietf:params:xml:ns:netconf:notification:1.0"><eventTime>2026-01-01T00:00:00Z</eventTime><n>%d</n></notification>' % i + DELIM):
                    return
                time.sleep(pause)
        th = threading.Thread(target=body, daemon=True, name='c12-stream'); th.start(); return th

    def run(self):
        try:
            self._run()
        finally:
            self.done.set()

    def _close_own(self):
        self.closed_own = True
        try: self.chan.shutdown(socket.SHUT_RDWR)      # wakes our own blocked recv and sends FIN at once
        except Exception: pass
        try: self.chan.close()
        except Exception: pass

    def _run(self):
        if self.hello == 'ok': self._send(HELLO_OK)
        elif self.hello in ('garbage', 'garbage_eof'): self._send(b'\x00\xff<<not xml>>' + DELIM)
        elif self.hello == 'badbody':       # a hello whose root start tag is fine and whose body is not well-formed; the peer stays open
            self._send(b'<hello xmlns="urn:ietf:params:xml:ns:netconf:base:1.0"><capabilities><capability>urn:ietf:params:netconf:base:1.0</capabilit></capabilities><session-id>4</session-id></hello>' + DELIM)
        elif self.hello == 'nocaptext':     # a capability element without text; the peer stays open
            self._send(b'<hello xmlns="urn:ietf:params:xml:ns:netconf:base:1.0"><capabilities><capability/></capabilities><session-id>4</session-id></hello>' + DELIM)
        if self.hello in ('eof', 'garbage_eof'):
            self._close_own(); return
        buf = b''
        while True:
            try:
                d = self.chan.recv(65536)
            except socket.timeout:
                self.eof_kind = 'peer-timeout'; return
            except Exception as e:
                if self.closed_own: return
                self.eof_at, self.eof_kind = now(), 'error:' + type(e).__name__
                return
            if not d:
                if not self.closed_own:
                    self.eof_at, self.eof_kind = now(), 'eof'
                return
            buf += d
            while DELIM in buf:
                frame, buf = buf.split(DELIM, 1)
                mid = None
                k = frame.find(b'message-id="')
                if k >= 0:
                    mid = frame[k + 12:frame.index(b'"', k + 12)]
                is_close = b'close-session' in frame
                self.msgs.append((mid, 'close-session' if is_close else ('hello' if b'<hello' in frame or b':hello' in frame else 'rpc')))
                if mid is None: continue
                if is_close:
                    if self.close_rpc in ('ok_close', 'ok_open'): self.reply_ok(mid)
                    elif self.close_rpc == 'error':
                        self._send(b'<rpc-reply xmlns="urn:ietf:params:xml:ns:netconf:base:1.0" message-id="' + mid +
                                   b'"><rpc-error><error-type>protocol</error-type><error-tag>operation-failed</error-tag>'
                                   b'<error-severity>error</error-severity></rpc-error></rpc-reply>' + DELIM)
                    if self.close_rpc in ('ok_close', 'eof'):
                        # a real server closes its end after answering close-session; keep reading until
                        # the client's end is closed too (shutdown write side only, where possible)
                        try:
                            self.chan.shutdown(socket.SHUT_WR)
                        except Exception:
                            try: self.chan.shutdown_write()
                            except Exception: pass
                elif self.rpc == 'reply': self.reply_ok(mid)
                else: self.held.append(mid)

# --------------------------------------------------------------------------------------
# logging wrappers
# --------------------------------------------------------------------------------------
class _Proxy(object):
    """forwards everything to the wrapped handle; `close` is performed and logged atomically"""
    __slots__ = ('_o', '_s', '_lab')
    def __init__(self, o, sess, lab):
        object.__setattr__(self, '_o', o); object.__setattr__(self, '_s', sess); object.__setattr__(self, '_lab', lab)
    def __getattr__(self, n):
        return getattr(object.__getattribute__(self, '_o'), n)
    def __setattr__(self, n, v):
        setattr(object.__getattribute__(self, '_o'), n, v)
    def __bool__(self):
        return True
    def close(self, *a, **k):
        s = object.__getattribute__(self, '_s')
        lab = object.__getattribute__(self, '_lab')
        with s._plock:
            r = object.__getattribute__(self, '_o').close(*a, **k)
            # ssh: octets left in the channel buffer now that paramiko's transport thread has been joined
            s._plog_add(lab, s._chan_buffered() if lab == 'TransportClose' else None)
        return r
    def shutdown(self, *a, **k):
        # sockets only: TLS/Unix close() shut the socket down before closing it (that is what wakes a read in progress);
        # a successful shutdown is logged, a failing one (EBADF after close, ENOTCONN) raises and leaves no entry
        s = object.__getattribute__(self, '_s')
        with s._plock:
            r = object.__getattribute__(self, '_o').shutdown(*a, **k)
            s._plog_add('SockShutdown')
        return r
    def is_active(self):
        # paramiko transport only: `if self._transport.is_active()` in SSHSession.close decides whether it is closed
        s = object.__getattribute__(self, '_s')
        with s._plock:
            r = object.__getattribute__(self, '_o').is_active()
            if not r and getattr(s, '_in_close', 0): s._plog_add('TransportInactive', s._chan_buffered())
        return r

def _msgid(text):
    """message-id attribute of an rpc / rpc-reply document (str or bytes), else None"""
    if isinstance(text, bytes): text = text.decode('utf-8', 'replace')
    k = text.find('message-id="')
    if k < 0: return None
    return text[k + 12:text.index('"', k + 12)]

def unwrap(x):
    return object.__getattribute__(x, '_o') if isinstance(x, _Proxy) else x

class _LoggedEvent(object):
    def __init__(self, sess):
        self._e, self._s = threading.Event(), sess
    def set(self):
        with self._s._plock:
            self._e.set(); self._s._plog_add('SetClosing')
    def clear(self):
        with self._s._plock:
            self._e.clear(); self._s._plog_add('ClearClosing')
    def is_set(self):
        with self._s._plock:
            b = self._e.is_set()
            if threading.current_thread() is self._s:
                self._s._plog_add('ChkClosing', int(b))
        return b
    def wait(self, t=None):
        return self._e.wait(t)

class _SelShim(object):
    """stands for the `selectors` module inside ncclient.transport.session"""
    def __init__(self, real):
        self._real = real
        self.EVENT_READ, self.EVENT_WRITE = real.EVENT_READ, real.EVENT_WRITE
    def DefaultSelector(self):
        return _Sel(self._real.DefaultSelector())

class _Sel(object):
    def __init__(self, s): self._s = s
    def register(self, fileobj, events, data=None):
        return self._s.register(unwrap(fileobj), events, data)
    def select(self, timeout=None):
        t = threading.current_thread()
        add = getattr(t, '_plog_add', None)
        if add: add('SelectBegin')
        r = self._s.select(timeout)
        if add: add('Select', 1 if r else 0)
        return r
    def close(self): self._s.close()

_installed = [False]
def install():
    """rebind the module-level selector name used by Session.run (once per process)"""
    import ncclient.transport.session as S
    if not _installed[0]:
        S.selectors = _SelShim(S.selectors)
        _installed[0] = True

def caller_kind(sess):
    """who is the calling thread with respect to session `sess`: own (the session's own thread) | foreign (the thread of
    ANOTHER session: a listener of that session is running) | main | app (any other application thread)"""
    from ncclient.transport.session import Session
    t = threading.current_thread()
    if t is sess: return 'own'
    if isinstance(t, Session): return 'foreign'
    if t is threading.main_thread(): return 'main'
    return 'app'

_classes = {}
def probe_class(kind):
    """kind in unix|tls|ssh -> an observing subclass of the real session class"""
    install()
    if kind in _classes: return _classes[kind]
    import ncclient.transport as T
    from ncclient.transport.session import SessionListener
    base = {'unix': T.UnixSocketSession, 'tls': T.TLSSession, 'ssh': T.SSHSession}[kind]

    class ProbeListener(SessionListener):
        def __init__(self, sess): self.sess, self.calls = sess, []
        def callback(self, root, raw):
            self.calls.append(('cb', now())); self.sess._plog_add('Cb')
        def errback(self, ex):
            self.calls.append(('eb', now(), type(ex).__name__)); self.sess._plog_add('Eb')

    class Probe(base):
        KIND = kind
        HELLO_TIMEOUT = None
        def __init__(self, dh):
            self._plock = threading.RLock()
            self._plog = []
            self._ptimes = []                 # monotonic time of every log entry (same index as _plog)
            self._pv = {}
            self.close_returned_at = []       # monotonic time of every close() return (client threads only)
            self.close_raised = []
            self.close_durations = []
            self.close_callers = []           # caller kind of every close() (caller_kind)
            self.alive_at_return = []         # (caller kind, is this session's thread alive) when close() returned to another thread
            self.at_gate = threading.Event()
            base.__init__(self, dh)
            self._closing = _LoggedEvent(self)
            self.probe = ProbeListener(self)
            self.add_listener(self.probe)
        # ---- log
        def _plog_add(self, lab, arg=None):
            with self._plock:
                self._plog.append((lab, arg, threading.current_thread() is self)); self._ptimes.append(now())
        def _chan_buffered(self):
            ch = unwrap(self._pv.get('channel'))
            try: return len(ch.in_buffer) if ch is not None else 0
            except Exception: return 0
        # ---- flags and handles as logging properties
        def _get_connected(self): return self._pv.get('connected', False)
        def _set_connected(self, v):
            with self._plock:
                self._pv['connected'] = v
                self._plog_add('SetConnected', int(bool(v)))
        _connected = property(_get_connected, _set_connected)
        def _mk(name, lab):
            def g(self): return self._pv.get(name)
            def s(self, v):
                with self._plock:
                    self._pv[name] = _Proxy(v, self, lab) if (v is not None and not isinstance(v, _Proxy)) else v
                    if v is None: self._plog_add('Drop' + lab)
                    elif lab != 'ChannelClose': self._plog_add('OpenHandle')
            return property(g, s)
        if kind == 'ssh':
            _transport = _mk('transport', 'TransportClose')
            _channel = _mk('channel', 'ChannelClose')
        else:
            _socket = _mk('socket', 'SockClose')
        del _mk
        # ---- client side
        def _post_connect(self, timeout=60):
            if self.HELLO_TIMEOUT is not None and kind != 'ssh':
                timeout = self.HELLO_TIMEOUT        # tls/unix connect() pass no timeout: fixed 60 s in the source
            return base._post_connect(self, timeout)
        def send(self, message):
            mid = _msgid(message)
            with self._plock:
                try:
                    r = base.send(self, message)
                except Exception as e:
                    self._plog_add('Send', (0, mid)); raise
                self._plog_add('Send', (1, mid))
                return r
        def close(self):
            mine = threading.current_thread() is self
            t0 = now()
            who = caller_kind(self)
            self.close_callers.append(who)
            self._plog_add('CloseCall', who)
            with self._plock: self._in_close = getattr(self, '_in_close', 0) + 1
            try:
                r = base.close(self)
            except BaseException as e:
                self._plog_add('CloseRaise'); self.close_raised.append(type(e).__name__); raise
            finally:
                with self._plock: self._in_close -= 1
            with self._plock:
                if not mine:
                    self.close_returned_at.append(now()); self.close_durations.append(now() - t0)
                    self.alive_at_return.append((who, self.is_alive()))
                self._plog_add('CloseRet')
            return r
        join_pause = 0                        # harness: delay after a successful join (widens the window that follows it)
        def join(self, timeout=None):
            self._plog_add('JoinBegin')
            r = base.join(self, timeout)
            alive = self.is_alive()
            self._plog_add('Join', 0 if alive else 1)
            if not alive and self.join_pause: time.sleep(self.join_pause)
            return r
        # ---- worker side
        def run(self):
            self._plog_add('WorkerStart')
            try:
                base.run(self)
            finally:
                self._plog_add('Exit')
        read_gate = None                      # harness: an Event the worker waits for between select and recv
        def _transport_read(self):
            g = self.read_gate
            if g is not None:
                self.at_gate.set(); g.wait(5)
            self._plog_add('ReadBegin')
            try:
                d = base._transport_read(self)
            except BaseException:
                self._plog_add('Read', 2); raise
            self._plog_add('Read', 1 if d else 0)
            return d
        def _dispatch_message(self, raw):
            self._plog_add('Dispatch', _msgid(raw))
            return base._dispatch_message(self, raw)
        def _dispatch_error(self, err):
            self._plog_add('ErrBroadcast')
            return base._dispatch_error(self, err)
    Probe.__name__ = 'Probe' + base.__name__
    _classes[kind] = Probe
    return Probe

def probe_rpc_class():
    from ncclient.operations.rpc import RPC
    from ncclient.xml_ import new_ele
    class ProbeRPC(RPC):
        def request(self):
            return self._request(new_ele('get'))
        def deliver_reply(self, raw):
            self._session._plog_add('Deliver', self.rid); self.done_at = now()
            return RPC.deliver_reply(self, raw)
        def deliver_error(self, err):
            self._session._plog_add('FailReq', self.rid); self.done_at = now()
            return RPC.deliver_error(self, err)
    return ProbeRPC

def device_handler(name='default'):
    from ncclient.manager import make_device_handler
    return make_device_handler({'name': name}, None)

# --------------------------------------------------------------------------------------
# openers: each returns (session or None, peer, exception or None, extra)
# --------------------------------------------------------------------------------------
def open_unix(hello='ok', rpc='hold', close_rpc='ok_close', hello_timeout=5):
    a, b = socket.socketpair()
    b.settimeout(30)
    peer = Peer(b, hello, rpc, close_rpc); peer.start()
    s = probe_class('unix')(device_handler())
    s._socket = a
    s._connected = True
    try:
        s._post_connect(hello_timeout)
    except Exception as e:
        return s, peer, e
    return s, peer, None

# ---- TLS -----------------------------------------------------------------------------
def tls_material(rundir):
    """CA + server cert (CN/SAN 127.0.0.1, localhost) + client cert generated with the openssl CLI"""
    d = os.path.join(rundir, 'c12-tls')
    files = dict(ca=os.path.join(d, 'ca.crt'), srv=os.path.join(d, 'srv.pem'), cli=os.path.join(d, 'cli.pem'),
                 badca=os.path.join(d, 'badca.crt'))
    if all(os.path.exists(f) for f in files.values()):
        return files
    os.makedirs(d, exist_ok=True)
    def sh(*a):
        subprocess.run(a, cwd=d, check=True, stdout=subprocess.DEVNULL, stderr=subprocess.DEVNULL)
    sh('openssl', 'req', '-x509', '-newkey', 'rsa:2048', '-nodes', '-keyout', 'ca.key', '-out', 'ca.crt', '-days', '3650', '-subj', '/CN=c12-ca')
    sh('openssl', 'req', '-x509', '-newkey', 'rsa:2048', '-nodes', '-keyout', 'badca.key', '-out', 'badca.crt', '-days', '3650', '-subj', '/CN=c12-other-ca')
    open(os.path.join(d, 'ext.cnf'), 'w').write('subjectAltName=IP:127.0.0.1,DNS:localhost\n')
    for n, cn in (('srv', '127.0.0.1'), ('cli', 'c12-client')):
        sh('openssl', 'req', '-newkey', 'rsa:2048', '-nodes', '-keyout', n + '.key', '-out', n + '.csr', '-subj', '/CN=' + cn)
        sh('openssl', 'x509', '-req', '-in', n + '.csr', '-CA', 'ca.crt', '-CAkey', 'ca.key', '-CAcreateserial', '-out', n + '.crt',
           '-days', '3650', '-extfile', 'ext.cnf')
        open(os.path.join(d, n + '.pem'), 'w').write(open(os.path.join(d, n + '.crt')).read() + open(os.path.join(d, n + '.key')).read())
    return files

class TlsServer(object):
    """accepts ONE connection on 127.0.0.1:port, wraps it (CERT_NONE for client certs) and runs a Peer on it"""
    def __init__(self, files, hello='ok', rpc='hold', close_rpc='ok_close', handshake=True):
        self.ctx = ssl.SSLContext(ssl.PROTOCOL_TLS_SERVER)
        self.ctx.load_cert_chain(files['srv'])
        self.ctx.verify_mode = ssl.CERT_NONE
        self.ls = socket.socket(socket.AF_INET, socket.SOCK_STREAM)
        self.ls.bind(('127.0.0.1', 0)); self.ls.listen(1)
        self.port = self.ls.getsockname()[1]
        self.args = (hello, rpc, close_rpc)
        self.peer = None; self.raw_eof_at = None; self.handshake = handshake; self.hs_error = None
        self.ready = threading.Event()
        self.t = threading.Thread(target=self._acc, daemon=True, name='c12-tls-acceptor'); self.t.start()
    def _acc(self):
        try:
            self.ls.settimeout(20)
            c, _ = self.ls.accept()
            c.settimeout(30)
            if not self.handshake:
                # never answers the TLS handshake: just waits for the client to go away
                try:
                    while c.recv(65536): pass
                    self.raw_eof_at = now()
                except Exception:
                    self.raw_eof_at = now()
                c.close(); return
            try:
                sc = self.ctx.wrap_socket(c, server_side=True)
            except Exception as e:
                self.hs_error = type(e).__name__
                # handshake failed (e.g. the client rejected our certificate): does the client close its socket?
                try:
                    c.settimeout(5)
                    while c.recv(65536): pass
                    self.raw_eof_at = now()
                except socket.timeout:
                    pass
                except Exception:
                    self.raw_eof_at = now()
                c.close(); return
            self.peer = Peer(sc, *self.args); self.peer.start()
        finally:
            self.ready.set()
            self.ls.close()

def open_tls(files, hello='ok', rpc='hold', close_rpc='ok_close', hello_timeout=5):
    srv = TlsServer(files, hello, rpc, close_rpc)
    cls = probe_class('tls')
    s = cls(device_handler())
    s.HELLO_TIMEOUT = hello_timeout
    try:
        s.connect(host='127.0.0.1', port=srv.port, certfile=files['cli'], ca_certs=files['ca'],
                  protocol=ssl.PROTOCOL_TLS_CLIENT, timeout=10)
        err = None
    except Exception as e:
        err = e
    srv.ready.wait(10)
    return s, srv.peer, err

# ---- SSH -----------------------------------------------------------------------------
_hostkey = [None]
def ssh_hostkey():
    import paramiko
    if _hostkey[0] is None:
        _hostkey[0] = paramiko.RSAKey.generate(2048)
    return _hostkey[0]

class SshServer(object):
    """in-process paramiko server over one end of a socketpair; password 'pw' for user 'u'"""
    def __init__(self, sock, hello='ok', rpc='hold', close_rpc='ok_close', subsystem_ok=True):
        import paramiko
        outer = self
        class SI(paramiko.ServerInterface):
            def check_auth_password(self, username, password):
                return paramiko.AUTH_SUCCESSFUL if (username, password) == ('u', 'pw') else paramiko.AUTH_FAILED
            def get_allowed_auths(self, username): return 'password'
            def check_channel_request(self, kind, chanid):
                return paramiko.OPEN_SUCCEEDED if kind == 'session' else paramiko.OPEN_FAILED_ADMINISTRATIVELY_PROHIBITED
            def check_channel_subsystem_request(self, channel, name):
                if name == 'netconf' and subsystem_ok:
                    outer.chan_ready.set(); return True
                return False
        self.sock = sock
        self.args = (hello, rpc, close_rpc)
        self.chan_ready = threading.Event()
        self.peer = None
        self.transport_eof_at = None
        self.t = paramiko.Transport(sock)
        self.t.add_server_key(ssh_hostkey())
        self.si = SI()
        self.th = threading.Thread(target=self._serve, daemon=True, name='c12-ssh-acceptor'); self.th.start()
    def _serve(self):
        try:
            self.t.start_server(server=self.si)
        except Exception:
            self._watch(); return
        chan = self.t.accept(10)
        if chan is None:
            self._watch(); return
        if not self.chan_ready.wait(5):
            self._watch(); return
        chan.settimeout(30)
        self.peer = Peer(chan, *self.args); self.peer.start()
        self._watch()
    def _watch(self):
        t0 = now()
        while self.t.is_active() and now() - t0 < 30:
            time.sleep(0.01)
        if not self.t.is_active():
            self.transport_eof_at = now()
    def stop(self):
        try: self.t.close()
        except Exception: pass

def open_ssh(hello='ok', rpc='hold', close_rpc='ok_close', hello_timeout=5, password='pw', subsystem_ok=True):
    a, b = socket.socketpair()
    srv = SshServer(b, hello, rpc, close_rpc, subsystem_ok)
    s = probe_class('ssh')(device_handler())
    try:
        s.connect(host='c12', sock=a, hostkey_verify=False, username='u', password=password, allow_agent=False,
                  look_for_keys=False, timeout=hello_timeout)
        err = None
    except Exception as e:
        err = e
    t0 = now()
    while srv.peer is None and err is None and now() - t0 < 5: time.sleep(0.005)
    s._c12_server = srv
    return s, srv.peer, err

# --------------------------------------------------------------------------------------
# resource accounting
# --------------------------------------------------------------------------------------
def fd_count():
    return len(os.listdir('/proc/self/fd'))

def live_threads():
    return [t.name for t in threading.enumerate() if t is not threading.main_thread()]
