"""C05, the timeout clause: "if no hello arrives within the timeout ... connect fails instead of hanging".

The REAL entry points manager.connect_ssh / connect / connect_tls / connect_uds are called against an in-process peer behind
the REAL transport that brings the connection up completely (SSH: authentication, session channel, netconf subsystem granted;
TLS: handshake on 127.0.0.1; Unix: accept on a socket file) and then plays one script:
  silent   never sends anything
  drip     sends the octets of a well-formed hello one by one, so slowly that the hello is not complete within the timeout
  late     sends a well-formed hello `d` ms after the connection is up (d well inside the timeout)
A case = (fun, way the caller passes the timeout, script, t_ms, m_ms, d_ms):
  way  kw       timeout=T                      pos      T positionally (the session's connect signature)
       mp       manager_params={'timeout': M}  both     timeout=T and manager_params={'timeout': M}
       pos_mp   positional T and manager_params
       neither  no timeout anywhere            kw_none  timeout=None
       cfg      ssh_config with ConnectTimeout (SSH only, whole seconds)       cfg_kw   ssh_config and timeout=T
Nothing in ncclient is edited.  One observation point: the module-level name `Event` of ncclient.transport.session is rebound
to a subclass of threading.Event that records the argument of wait() made by the thread of the case (that is the hello wait
of _post_connect) and, when that argument is None or larger than REAL_MAX seconds, waits only `virt` seconds of real time
("virtual" cases: the deadline is read off the argument; that Event.wait(t) returns at t is the trusted part already listed
in the plugin's ASSUMES).  Cases whose deadline is at most REAL_MAX run in real time and are judged on the wall clock.
Cases of a batch run concurrently (they sleep most of the time)."""
import os, socket, ssl, threading, time, tempfile, shutil, atexit, logging

from harness import c12_peers as P12

REAL_MAX = 2.0          # s: larger waits are virtualised
SLACK = 1.0             # s: allowed lateness of a failure w.r.t. the requested timeout (connection set-up excluded)
HANG_GRACE = 3.0        # s: a connect still running that long after it had to end is a hang
HELLO = (b'<hello xmlns="urn:ietf:params:xml:ns:netconf:base:1.0"><capabilities>'
         b'<capability>urn:ietf:params:netconf:base:1.0</capability></capabilities>'
         b'<session-id>%d</session-id></hello>]]>]]>')

FUNS = ('connect_ssh', 'connect', 'connect_tls', 'connect_uds')
TRANSPORT = {'connect_ssh': 'ssh', 'connect': 'ssh', 'connect_tls': 'tls', 'connect_uds': 'unix'}
WAYS = {'connect_ssh': ('kw', 'pos', 'mp', 'both', 'pos_mp', 'neither', 'kw_none', 'cfg', 'cfg_kw'),
        'connect': ('kw', 'mp', 'both', 'neither', 'kw_none', 'cfg', 'cfg_kw'),
        'connect_tls': ('kw', 'pos', 'mp', 'both', 'pos_mp', 'neither', 'kw_none'),
        'connect_uds': ('kw', 'pos', 'mp', 'both', 'pos_mp', 'neither', 'kw_none')}
GIVES_T = ('kw', 'pos', 'both', 'pos_mp', 'cfg', 'cfg_kw')       # ways in which the caller states a connect timeout

logging.getLogger('paramiko').addHandler(logging.NullHandler())      # "Socket exception" records of closed peers: not to stderr

_tmp = [None]
_tmplock = threading.Lock()
def rundir():
    with _tmplock:
        if _tmp[0] is None:
            _tmp[0] = tempfile.mkdtemp(prefix='c05-')
            atexit.register(lambda: shutil.rmtree(_tmp[0], ignore_errors=True))
    return _tmp[0]

def now():
    return time.monotonic()

# ------------------------------------------------------------------ observation point: the hello wait
_cur = threading.local()

class RecEvent(threading.Event):
    def wait(self, timeout=None):
        rec = getattr(_cur, 'rec', None)
        if rec is None:
            return threading.Event.wait(self, timeout)
        ent = dict(arg=timeout, t0=now())
        rec['waits'].append(ent)
        if timeout is None or (isinstance(timeout, (int, float)) and timeout > REAL_MAX):
            ent['virtual'] = True
            threading.Event.wait(self, rec['virt'])
            r = self.is_set()
        else:
            r = threading.Event.wait(self, timeout)
        ent['t1'] = now()
        return r

_saved = []
def install():
    import ncclient.transport.session as S
    _saved.append(S.Event)
    S.Event = RecEvent

def uninstall():
    import ncclient.transport.session as S
    if _saved:
        S.Event = _saved.pop()

# ------------------------------------------------------------------ the peer's script, on a socket-like object
class Script(threading.Thread):
    def __init__(self, kind, d_ms, sid):
        threading.Thread.__init__(self, daemon=True, name='c05-peer')
        self.kind, self.d, self.sid = kind, d_ms / 1000.0, sid
        self.chan = None
        self.up_at = None               # the connection is up (subsystem granted / handshake done / accepted)
        self.client_hello_at = None     # the client's <hello> arrived completely
        self.sent_at = None             # our hello was handed to the transport completely
        self.stop = threading.Event()
        self.err = None
    def attach(self, chan):
        self.chan = chan; self.up_at = now(); self.start()
    def run(self):
        try:
            self._run()
        except Exception as e:
            self.err = type(e).__name__
    def _reader(self):
        buf = b''
        try:
            self.chan.settimeout(0.05)
        except Exception:
            pass
        while not self.stop.is_set():
            try:
                d = self.chan.recv(65536)
            except (socket.timeout, ssl.SSLWantReadError, BlockingIOError):
                continue
            except Exception:
                return
            if not d:
                return
            buf += d
            if self.client_hello_at is None and b']]>]]>' in buf:
                self.client_hello_at = now()
    def _run(self):
        rd = threading.Thread(target=self._reader, daemon=True, name='c05-peer-reader'); rd.start()
        if self.kind == 'late':
            if self.stop.wait(self.d): return
            self.chan.sendall(HELLO % self.sid); self.sent_at = now()
        elif self.kind == 'drip':
            for i, b in enumerate(HELLO % self.sid):
                if self.stop.wait(self.d): return
                self.chan.sendall(bytes([b]))
        self.stop.wait()
    def kill(self):
        self.stop.set()
        try: self.chan.close()
        except Exception: pass

# ------------------------------------------------------------------ servers
_once = threading.Lock()
_hostkey = [None]
def hostkey():
    import paramiko
    with _once:
        if _hostkey[0] is None:
            _hostkey[0] = paramiko.ECDSAKey.generate()
    return _hostkey[0]

class SshSrv(object):
    def __init__(self, script):
        import paramiko
        self.script = script
        outer = self
        class SI(paramiko.ServerInterface):
            def check_auth_password(self, username, password):
                return paramiko.AUTH_SUCCESSFUL if (username, password) == ('u', 'pw') else paramiko.AUTH_FAILED
            def get_allowed_auths(self, username): return 'password'
            def check_channel_request(self, kind, chanid):
                return paramiko.OPEN_SUCCEEDED if kind == 'session' else paramiko.OPEN_FAILED_ADMINISTRATIVELY_PROHIBITED
            def check_channel_subsystem_request(self, channel, name):
                if name == 'netconf':
                    outer.granted.set(); return True
                return False
        self.granted = threading.Event()
        self.a, self.b = socket.socketpair()
        self.t = paramiko.Transport(self.b)
        self.t.add_server_key(hostkey())
        self.si = SI()
        self.th = threading.Thread(target=self._serve, daemon=True, name='c05-ssh-acceptor'); self.th.start()
    def _serve(self):
        try:
            self.t.start_server(server=self.si)
            chan = self.t.accept(20)
            if chan is None or not self.granted.wait(10):
                self.script.err = 'no netconf channel'; return
            self.script.attach(chan)
        except Exception as e:
            self.script.err = 'accept:' + type(e).__name__
    def call_args(self):
        return (), dict(host='c05', sock=self.a, hostkey_verify=False, username='u', password='pw', allow_agent=False, look_for_keys=False)
    def pos_args(self, t):
        return ('c05', 830, t), dict(sock=self.a, hostkey_verify=False, username='u', password='pw', allow_agent=False, look_for_keys=False)
    def stop(self):
        self.script.kill()
        try: self.t.close()
        except Exception: pass
        for x in (self.a, self.b):
            try: x.close()
            except Exception: pass

_tls = [None]
def tls_files():
    with _once:
        if _tls[0] is None:
            _tls[0] = P12.tls_material(rundir())
    return _tls[0]

class TlsSrv(object):
    def __init__(self, script):
        self.script = script
        f = tls_files()
        self.ctx = ssl.SSLContext(ssl.PROTOCOL_TLS_SERVER)
        self.ctx.load_cert_chain(f['srv'])
        self.ctx.verify_mode = ssl.CERT_NONE
        self.ls = socket.socket(socket.AF_INET, socket.SOCK_STREAM)
        self.ls.bind(('127.0.0.1', 0)); self.ls.listen(1)
        self.port = self.ls.getsockname()[1]
        self.th = threading.Thread(target=self._acc, daemon=True, name='c05-tls-acceptor'); self.th.start()
    def _acc(self):
        try:
            self.ls.settimeout(20)
            c, _ = self.ls.accept()
            c.settimeout(20)
            sc = self.ctx.wrap_socket(c, server_side=True)
            self.script.attach(sc)
        except Exception as e:
            self.script.err = 'accept:' + type(e).__name__
        finally:
            try: self.ls.close()
            except Exception: pass
    def call_args(self):
        f = tls_files()
        return (), dict(host='127.0.0.1', port=self.port, certfile=f['cli'], ca_certs=f['ca'], protocol=ssl.PROTOCOL_TLS_CLIENT)
    def pos_args(self, t):
        f = tls_files()    # host, port, keyfile, certfile, ca_certs, protocol, check_hostname, server_hostname, timeout
        return ('127.0.0.1', self.port, None, f['cli'], f['ca'], ssl.PROTOCOL_TLS_CLIENT, True, None, t), {}
    def stop(self):
        self.script.kill()
        try: self.ls.close()
        except Exception: pass

_n = [0]
_nlock = threading.Lock()
class UnixSrv(object):
    def __init__(self, script):
        self.script = script
        with _nlock:
            _n[0] += 1; k = _n[0]
        self.path = os.path.join(rundir(), 'u%d.sock' % k)
        self.ls = socket.socket(socket.AF_UNIX, socket.SOCK_STREAM)
        self.ls.bind(self.path); self.ls.listen(1)
        self.th = threading.Thread(target=self._acc, daemon=True, name='c05-unix-acceptor'); self.th.start()
    def _acc(self):
        try:
            self.ls.settimeout(20)
            c, _ = self.ls.accept()
            self.script.attach(c)
        except Exception as e:
            self.script.err = 'accept:' + type(e).__name__
        finally:
            try: self.ls.close()
            except Exception: pass
            try: os.unlink(self.path)
            except Exception: pass
    def call_args(self):
        return (), dict(path=self.path)
    def pos_args(self, t):
        return (self.path, t), {}
    def stop(self):
        self.script.kill()
        try: self.ls.close()
        except Exception: pass

SRV = {'ssh': SshSrv, 'tls': TlsSrv, 'unix': UnixSrv}

def ssh_config_file(seconds):
    p = os.path.join(rundir(), 'ssh_config_%d' % seconds)
    with _once:
        if not os.path.exists(p):
            with open(p, 'w') as f:
                f.write('Host *\n  ConnectTimeout %d\n' % seconds)
    return p

# ------------------------------------------------------------------ one case
def requested_ms(case):
    """the connect timeout the caller states in this case (ms), or None"""
    w = case['way']
    if w in ('kw', 'pos', 'both', 'pos_mp', 'cfg_kw'): return case['t_ms']
    if w == 'cfg': return case['cfg_s'] * 1000
    return None

def build_call(case, srv):
    w = case['way']
    t, m = case['t_ms'] / 1000.0, case['m_ms'] / 1000.0
    if w in ('pos', 'pos_mp'):
        args, kw = srv.pos_args(t)
    else:
        args, kw = srv.call_args()
    if w in ('kw', 'both', 'cfg_kw'): kw['timeout'] = t
    if w == 'kw_none': kw['timeout'] = None
    if w in ('mp', 'both', 'pos_mp'): kw['manager_params'] = {'timeout': m}
    if w in ('cfg', 'cfg_kw'): kw['ssh_config'] = ssh_config_file(case['cfg_s'])
    return args, kw

def run_case(case):
    """-> observation dict (no judgement)"""
    from ncclient import manager
    script = Script(case['script'], case.get('d_ms', 0), case.get('sid', 4))
    srv = SRV[TRANSPORT[case['fun']]](script)
    args, kw = build_call(case, srv)
    req = requested_ms(case)
    virt = 0.3 if case['script'] != 'late' else case['d_ms'] / 1000.0 + 1.5
    rec = dict(waits=[], virt=virt)
    out = {}
    def body():
        _cur.rec = rec
        out['t0'] = now()
        try:
            m = getattr(manager, case['fun'])(*args, **kw)
            out['result'] = 'ok'; out['mgr'] = m
        except BaseException as e:
            out['result'] = type(e).__name__; out['message'] = str(e)[:80]
        out['t1'] = now()
    th = threading.Thread(target=body, daemon=True, name='c05-connect')
    t_start = now()
    th.start()
    # how long may it legitimately run: set-up + (real deadline | virtual wait) + grace
    real_deadline = (req / 1000.0) if (req is not None and req / 1000.0 <= REAL_MAX) else virt
    th.join(real_deadline + HANG_GRACE + 2.0)
    hung = th.is_alive()
    obs = dict(hung=hung, up=script.up_at is not None, peer_err=script.err)
    if hung:
        srv.stop(); th.join(3.0)
        obs['ended_after_peer_closed'] = not th.is_alive()
    obs['result'] = out.get('result', 'hung')
    obs['message'] = out.get('message')
    t1 = out.get('t1', now())
    obs['elapsed'] = round(t1 - out.get('t0', t_start), 3)
    obs['after_up'] = None if script.up_at is None else round(t1 - script.up_at, 3)
    obs['client_hello_seen'] = script.client_hello_at is not None
    obs['hello_sent_after_up'] = None if script.sent_at is None or script.up_at is None else round(script.sent_at - script.up_at, 3)
    obs['waits'] = [dict(arg=w['arg'] if (w['arg'] is None or isinstance(w['arg'], (int, float))) else repr(w['arg']),
                         virtual=bool(w.get('virtual')), real=None if 't1' not in w else round(w['t1'] - w['t0'], 3)) for w in rec['waits']]
    m = out.get('mgr')
    if m is not None:
        obs['session_id'] = m.session_id
        obs['manager_timeout'] = m._timeout
        try: m._session.close()
        except Exception: pass
    srv.stop()
    return obs

# ------------------------------------------------------------------ the property on the observables
def wait_ms(obs):
    """the deadline of the hello wait as recorded: ms | 'unbounded' | None (no wait recorded)"""
    if not obs['waits']: return None
    a = obs['waits'][0]['arg']
    if a is None: return 'unbounded'
    if isinstance(a, (int, float)): return int(round(a * 1000))
    return 'bad:' + str(a)

def judge(case, obs):
    """[(what, expected, actual)] — derived from the property sentence only"""
    out = []
    req = requested_ms(case)
    if not obs['up']:
        return [('the peer never saw the connection come up (harness)', 'connection up', obs.get('peer_err') or obs['result'])]
    w = wait_ms(obs)
    virtual = any(x['virtual'] for x in obs['waits'])
    if case['script'] in ('silent', 'drip'):
        # no hello arrives: connect fails, and it fails when the timeout is over
        if obs['hung']:
            out.append(('connect hangs: no <hello> arrived and connect neither returned nor raised', 'an exception', 'still blocked after %.1fs' % obs['elapsed']))
            return out
        if obs['result'] == 'ok':
            out.append(('connect succeeded without a server hello', 'an exception', 'ok')); return out
        if w == 'unbounded':
            out.append(('connect would hang: the wait for the server <hello> has no deadline' +
                        ('' if req is None else ' although the caller asked for timeout=%gs' % (req / 1000.0)), 'a deadline', 'Event.wait(None)'))
            return out
        if req is not None:
            if virtual:
                if w != req:
                    out.append(('the wait for the server <hello> does not end at the requested timeout', '%d ms' % req, '%s ms' % w))
            else:
                late = obs['after_up'] - req / 1000.0
                if late > SLACK:
                    out.append(('connect outlived the requested timeout', '<= %.2fs after the connection was up' % (req / 1000.0 + SLACK), '%.2fs' % obs['after_up']))
                if obs['after_up'] < req / 1000.0 - 0.25:
                    out.append(('connect gave up before the requested timeout was over', '>= %.2fs' % (req / 1000.0), '%.2fs' % obs['after_up']))
        else:
            if not isinstance(w, int):
                out.append(('the wait for the server <hello> has no numeric deadline', 'a deadline', w))
    else:
        # a well-formed hello arrives inside the timeout (or inside every default): connect succeeds and reports it
        if obs['hung']:
            out.append(('connect hangs although the server sent its hello', 'ok', 'still blocked after %.1fs' % obs['elapsed'])); return out
        if obs['hello_sent_after_up'] is None:
            return out          # the connect failed before the peer's delay was over: judged below only if it was too early
        if obs['result'] != 'ok':
            out.append(('connect failed (%s) although the server hello arrived %.2fs after the connection was up, inside the timeout%s'
                        % (obs['result'], obs['hello_sent_after_up'], '' if req is None else ' of %gs' % (req / 1000.0)), 'ok', obs['result']))
        elif str(obs.get('session_id')) != str(case.get('sid', 4)):
            out.append(('session id is not the one of the server hello', str(case.get('sid', 4)), obs.get('session_id')))
    if case['script'] == 'late' and obs['hello_sent_after_up'] is None and not out:
        out.append(('connect failed (%s) %.2fs after the connection was up, before the server hello (due after %.2fs, inside the timeout) was sent'
                    % (obs['result'], obs['after_up'], case['d_ms'] / 1000.0), 'ok', obs['result']))
    return out

# ------------------------------------------------------------------ model side
ENTRY = {'connect_ssh': 0, 'connect': 1, 'connect_tls': 2, 'connect_uds': 3}
def model_call(case):
    """fn 7 of Glue/C05_glue.v: [7, entry, pos, kw, mp, cfg]; option = [] | [x]; pyval = [] (None) | [ms]"""
    w = case['way']
    num = lambda ms: [[ms]]
    pos = num(case['t_ms']) if w in ('pos', 'pos_mp') else []
    kw = num(case['t_ms']) if w in ('kw', 'both', 'cfg_kw') else ([[]] if w == 'kw_none' else [])
    mp = num(case['m_ms']) if w in ('mp', 'both', 'pos_mp') else []
    cfg = [case['cfg_s'] * 1000] if w in ('cfg', 'cfg_kw') else []
    return [7, ENTRY[case['fun']], pos, kw, mp, cfg]

def model_out(v):
    """-> (wait: ms | 'unbounded', manager timeout: ms | None)"""
    wt = 'unbounded' if v[0] == [] else v[0][0]
    mt = None if v[1] == [] else v[1][0]
    return wt, mt

def impl_out(case, obs):
    mt = 'n/a'
    if obs['result'] == 'ok':
        t = obs.get('manager_timeout')
        mt = None if t is None else int(round(t * 1000))
    return wait_ms(obs), mt

# ------------------------------------------------------------------ generation
def gen_cases(rng, tier):
    """every fun x way; per pair, when the way states a timeout T: silent with T in real time, silent with T far beyond
    REAL_MAX (virtual), a hello arriving at 0.2-0.4 T, (thorough, or one in four) a dripped hello; when it states none:
    silent (virtual: the default is a minute or more) and a late hello"""
    cases = []
    for fun in FUNS:
        for way in WAYS[fun]:
            def mk(script, virtual=False, lo=350, hi=750, **k):
                t = rng.randrange(90, 400) * 1000 if virtual else rng.randrange(lo, hi)
                c = dict(kind='deadline', fun=fun, way=way, script=script, t_ms=t, m_ms=rng.randrange(900, 2000) + (7000 if rng.random() < 0.5 else 0))
                if way in ('cfg', 'cfg_kw'): c['cfg_s'] = 1 if not (virtual and way == 'cfg') else rng.randrange(90, 400)
                c.update(k); return c
            if way in GIVES_T:
                cases.append(mk('silent'))
                if way != 'cfg' or tier != 'quick':
                    cases.append(mk('silent', virtual=True))
                c = mk('late', lo=700, hi=1300, sid=rng.randrange(1, 99999)); c['d_ms'] = int(requested_ms(c) * rng.uniform(0.2, 0.4)); cases.append(c)
                if tier != 'quick' or rng.random() < 0.25:
                    c = mk('drip'); c['d_ms'] = 40; cases.append(c)
                if tier != 'quick':
                    c = mk('late', virtual=True, sid=rng.randrange(1, 99999)); c['d_ms'] = rng.randrange(100, 600); cases.append(c)
            else:
                cases.append(mk('silent'))
                c = mk('late', sid=rng.randrange(1, 99999)); c['d_ms'] = rng.randrange(100, 500); cases.append(c)
                if tier != 'quick':
                    c = mk('drip'); c['d_ms'] = 40; cases.append(c)
    return cases

def run_batch(cases, width=20):
    """run the cases `width` at a time; -> list of observations in order"""
    res = [None] * len(cases)
    def one(i):
        try:
            res[i] = run_case(cases[i])
        except Exception as e:
            res[i] = dict(hung=False, up=False, peer_err='harness:%s:%s' % (type(e).__name__, e), result='harness-error', message=None, waits=[], elapsed=0, after_up=None,
                          client_hello_seen=False, hello_sent_after_up=None)
    for k in range(0, len(cases), width):
        ths = [threading.Thread(target=one, args=(i,), daemon=True) for i in range(k, min(k + width, len(cases)))]
        for t in ths: t.start()
        for t in ths: t.join()
    return res

def check_cases(cases, confirm=2, width=20):
    """run the cases (concurrently), judge them; a case with problems is re-run alone up to `confirm` times and is reported
    only when the problem shows every time (wall-clock judgements on a loaded machine).  -> [(case, obs, problems)]"""
    install()
    try:
        obs = run_batch(cases, width)
        out = []
        for c, o in zip(cases, obs):
            probs = judge(c, o)
            n = 0
            while probs and n < confirm:
                n += 1
                o = run_batch([c], 1)[0]
                probs = judge(c, o)
            out.append((c, o, probs))
        return out
    finally:
        uninstall()
