"""C09 — capability-gated operations are refused locally when the capability is absent.
Model: coq/Model/Gating.v; spec: coq/Spec/GatingSpec.v; theorems: coq/Props/C09.v.
Every case is one real Manager call on a capturing session (tools/harness/capture.py)."""
import itertools, json
ID = 'C09'
COQ_ROOTS = ['Props/C09.v', 'GenProps/Caps_consts.v', 'GenProps/Gating_consts.v', 'GenProps/VendorGating_consts.v']
RULE = ('case = (device profile, server capability list, Manager method, arguments). Capability lists: all 2^8 subsets of '
        '{candidate, confirmed-commit, validate:1.0, validate:1.1, rollback-on-error, url, notification, with-defaults} in '
        'both URN forms (and mixed), the 4 subsets of the two power-control URIs, with-defaults URIs over a grammar of '
        'basic-mode/also-supported parameter strings, plus verbatim shorthands and look-alikes. Calls: every gated standard '
        'operation and the junos/sros commit with every combination of the arguments that decide a check (location with/without '
        '"://", enumerated options inside/outside their sets, format, confirmed, with_defaults modes incl. unnormalised) and a '
        'catalogue of locally refused arguments (bad names/characters, non-strings, bad filters/configs). Vendor classes '
        '(harness/vendorgate.py): alu load_configuration (format x target x config x default_operation), alu get_configuration, '
        'h3c get_bulk_config (source x filter) x all 2^8 subsets, and every other third_party class (valid and locally refused '
        'arguments) with and without :url, each through a Manager made with the vendor profile. commit (standard, junos, sros '
        'class): every combination of confirmed / timeout / persist / persist_id (/ comment, at_time, synchronize, check), '
        'optional arguments given alone and empty strings, x all 2^8 subsets. Observed: exception '
        'class, messages sent, sequence of capability tests, registration, and the capability-dependent constructs of every '
        'message that reached the server (harness/wiregate.py: expat + RFC 6241/6243/5277 table), each of which must be '
        'backed by an advertised capability whatever the call was. distinct = distinct case; non-trivial = the call '
        'has at least one documented dependency. Order of calls (harness/prepared.py): every core call, half of the commit records, '
        'a third of the argument catalogue and the vendor calls are also made on an operation object built directly (the class a '
        'Manager of the profile would use) on a session whose server_capabilities is None until connect(): object built BEFORE '
        'connect then request() after (pcr), and built after connect (cpr), x every subset of the capabilities the call can depend on; '
        'either the construction fails (nothing sent, nothing registered) or request() is judged like a Manager call, and the '
        'wire-level oracle reads whatever reached the session.')
ASSUMES = ['mode.strip().lower() is computed by CPython and given to the model as the normalised mode (oracle input)',
           'lxml verdicts on names/characters, validated_element, urlparse verdicts are oracle inputs fixed per catalogue entry',
           'C08 model of Capabilities (coq/Model/Caps.v) - validated by ./check C08']
TRUSTED = ['modelled, not verified: CPython str/dict built-ins, lxml name/character validation, urlparse']

A = 'urn:ietf:params:netconf:capability:'
B = 'urn:ietf:params:xml:ns:netconf:capability:'
ATOMS = ['candidate:1.0', 'confirmed-commit:1.1', 'validate:1.0', 'validate:1.1', 'rollback-on-error:1.0',
         'url:1.0?scheme=http,ftp,file', 'notification:1.0', 'with-defaults:1.0?basic-mode=explicit&also-supported=report-all,trim']
PC_OFF = 'urn:liberouter:param:netconf:capability:power-control:1.0'
PC_RE = 'urn:liberouter:params:netconf:capability:power-control:1.0'
WD_PARAMS = ['', '?basic-mode=explicit', '?basic-mode=explicit&also-supported=report-all,trim', '?also-supported=trim',
             '?basic-mode=trim&basic-mode=explicit', '?basic-mode=Explicit', '?basic-mode=explicit&also-supported=',
             '?basic-mode=explicit&also-supported=report-all, trim', '?junk&basic-mode=explicit&a=b=c&also-supported=trim',
             '?basic-mode=report-all&also-supported=report-all-tagged,trim,explicit', '?basic-mode=', '?basic-mode=explicit=x',
             '?also-supported=trim&basic-mode=report-all-tagged']
MODES = ['explicit', 'trim', 'report-all', 'report-all-tagged', ' Trim ', 'TRIM\n', 'bogus', '', ' ', 'Explicit', 'trİm']
WDNS = 'urn:ietf:params:xml:ns:yang:ietf-netconf-with-defaults'

EXC = {'MissingCapabilityError': 1, 'WithDefaultsError': 2, 'OperationError': 3, 'XMLError': 4, 'XMLSyntaxError': 5,
       'ValueError': 6, 'TypeError': 7, 'NCClientError': 8, 'AttributeError': 9, 'KeyError': 10}
EXC_REV = {v: k for k, v in EXC.items()}; EXC_REV[11] = 'Internal'

# ---------------- argument catalogues: id -> (python value, verdict) ----------------
def _ele(s):
    from lxml import etree
    return etree.fromstring(s)

# datastore-or-URL: verdict = ('str', lx_ok) | ('bad', exc)
DS = {
    'running': ('running', ('str', True)), 'candidate': ('candidate', ('str', True)), 'startup': ('startup', ('str', True)),
    'url-http': ('http://h/p?a=1&b=<2>', ('str', True)), 'url-file': ('file:///tmp/x', ('str', True)),
    'url-min': ('://', ('str', True)), 'url-uni': ('ftp://hé/€', ('str', True)),
    'url-ctl': ('ftp://h/\x01', ('str', False)), 'name-space': ('run ning', ('str', False)), 'name-empty': ('', ('str', False)),
    'name-lt': ('<running/>', ('str', False)), 'name-ctl': ('run\x00ning', ('str', False)),
    'none': (None, ('bad', 'TypeError')), 'int': (5, ('bad', 'TypeError')), 'bytes': (b'running', ('bad', 'TypeError')),
}
DS_GOOD = ['running', 'candidate', 'url-http', 'url-file', 'url-min', 'url-uni']
DS_BAD = ['url-ctl', 'name-space', 'name-empty', 'name-lt', 'name-ctl', 'none', 'int', 'bytes']
# filter: verdict = None | exc
FILTER = {
    'nofilter': (None, None), 'subtree': (('subtree', '<a xmlns="urn:x"><b/></a>'), None), 'xpath': (('xpath', '/a/b[c="<&>"]'), None),
    'xpath-ns': (('xpath', ({'x': 'urn:x'}, '/x:a')), None), 'list': (['<a/>', '<b/>'], None), 'string': ('<filter type="subtree"><a/></filter>', None),
    'badtype': (('bogus', 'x'), 'OperationError'), 'badroot': ('<notfilter/>', 'XMLError'), 'syntax': (('subtree', '<a'), 'XMLSyntaxError'),
}
FILTER_GOOD = ['nofilter', 'subtree', 'xpath', 'xpath-ns', 'list', 'string']
FILTER_BAD = ['badtype', 'badroot', 'syntax']
# config for edit_config(format='xml') / rpc(config=): verdict = None | exc
CONFIG = {
    'cfg': ('<config><a xmlns="urn:x">1</a></config>', None),
    'cfg-ns': ('<nc:config xmlns:nc="urn:ietf:params:xml:ns:netconf:base:1.0"><a/></nc:config>', None),
    'cfg-badroot': ('<data/>', 'XMLError'), 'cfg-syntax': ('<config>', 'XMLSyntaxError'),
}
TEXTCFG = {'txt': ('set system host-name "a<b>&c"', None), 'txt-ctl': ('bad\x00text', 'ValueError'), 'txt-int': (5, 'TypeError')}
URLCFG = {'u-ok': ('http://h/config.xml', True, None), 'u-noscheme': ('config.xml', False, None), 'u-nonetloc': ('file:///x', False, None),
          'u-ctl': ('http://h/\x01', True, 'ValueError')}
# inline sources for copy_config / validate
def _src_inline(kind):
    base = 'urn:ietf:params:xml:ns:netconf:base:1.0'
    if kind == 'src-ele': return _ele('<source xmlns="%s"><config><a xmlns="http://x/y"/></config></source>' % base)
    if kind == 'src-str': return '<source><config xmlns="http://x/y"/></source>'
    if kind == 'src-str-sp': return '  <source/>'
    if kind == 'src-badroot': return '<config xmlns="http://x/y"/>'
    if kind == 'src-syntax': return '<source'
    if kind == 'cfg-ele': return _ele('<config xmlns="%s"><a xmlns="http://x/y"/></config>' % base)
    if kind == 'cfg-ele-bad': return _ele('<data xmlns="http://x/y"/>')
SRC_COPY = {'src-ele': None, 'src-str': None, 'src-str-sp': None, 'src-badroot': 'XMLError', 'src-syntax': 'XMLSyntaxError'}
SRC_VALIDATE = {'cfg-ele': None, 'cfg-ele-bad': 'XMLError'}

def optexn(e): return [] if e is None else [EXC[e]]
def optstr(s): return [] if s is None else [s.encode('utf-8')]
def enc_ds(i):
    v, verdict = DS[i]
    if verdict[0] == 'str': return [0, v.encode('utf-8'), 1 if verdict[1] else 0]
    return [1, EXC[verdict[1]]]
def ds_need(i):
    v, verdict = DS[i]
    return [':url'] if verdict[0] == 'str' and '://' in v else []
def ds_ok(i): return DS[i][1] == ('str', True)
def norm(mode): return mode.strip().lower()          # CPython's own verdict: the oracle input of the model

# ---------------- calls: spec -> (method, kwargs, model call, needs, wellformed, wd mode) ----------------
def build(spec):
    """spec = [opname, {arg: catalogue id / literal}] -> dict(method, kwargs, model, needs, wf, wd)"""
    op, a = spec
    wd = None
    if op.startswith('v:'):                     # vendor classes: tools/harness/vendorgate.py (Model/VendorGating.v, runner fn 3)
        from harness import vendorgate
        return vendorgate.build(spec)
    if op == 'get':
        f, fv = FILTER[a['filter']]
        kw = dict(filter=f, with_defaults=a['wd'])
        wd = a['wd']
        model = [0, optexn(fv), optstr(None if wd is None else norm(wd))]
        needs = [':with-defaults'] if wd is not None else []
        wf = fv is None
        meth = 'get'
    elif op == 'get_config':
        f, fv = FILTER[a['filter']]
        kw = dict(source=DS[a['source']][0], filter=f, with_defaults=a['wd'])
        wd = a['wd']
        model = [1, enc_ds(a['source']), optexn(fv), optstr(None if wd is None else norm(wd))]
        needs = ds_need(a['source']) + ([':with-defaults'] if wd is not None else [])
        wf = ds_ok(a['source']) and fv is None
        meth = 'get_config'
    elif op == 'edit_config':
        fmt = a['format']
        url_ok, cv = True, None
        if fmt == 'xml': cfg, cv = CONFIG[a['config']]
        elif fmt == 'text': cfg, cv = TEXTCFG[a['config']]
        elif fmt == 'url': cfg, url_ok, cv = URLCFG[a['config']]
        else: cfg = 'ignored'
        kw = dict(config=cfg, format=fmt, target=DS[a['target']][0], default_operation=a['dop'], test_option=a['top'], error_option=a['eop'])
        model = [2, enc_ds(a['target']), optstr(a['dop']), optstr(a['top']), optstr(a['eop']), fmt.encode(), optexn(cv), 1 if url_ok else 0]
        needs = ds_need(a['target'])
        if a['top'] is not None:
            needs.append(':validate')
            if a['top'] == 'test-only': needs.append(':validate:1.1')
        if a['eop'] == 'rollback-on-error': needs.append(':rollback-on-error')
        if fmt == 'url': needs.append(':url')
        wf = (ds_ok(a['target']) and a['dop'] in (None, 'merge', 'replace', 'none')
              and a['top'] in (None, 'test-then-set', 'set', 'test-only')
              and a['eop'] in (None, 'stop-on-error', 'continue-on-error', 'rollback-on-error')
              and cv is None and url_ok)
        meth = 'edit_config'
    elif op == 'delete_config':
        kw = dict(target=DS[a['target']][0]); model = [3, enc_ds(a['target'])]
        needs = ds_need(a['target']); wf = ds_ok(a['target']); meth = 'delete_config'
    elif op == 'copy_config':
        s = a['source']
        if s in DS and isinstance(DS[s][0], str) and DS[s][0].lstrip().startswith('<'):
            src, msrc, sneed, sok = DS[s][0], [1, optexn('XMLError')], [], False      # looks like a document: validated_element
        elif s in DS:
            src, msrc, sneed, sok = DS[s][0], [0, enc_ds(s)], ds_need(s), ds_ok(s)
        else:
            src, msrc, sneed, sok = _src_inline(s), [1, optexn(SRC_COPY[s])], [], SRC_COPY[s] is None
        kw = dict(source=src, target=DS[a['target']][0]); model = [4, enc_ds(a['target']), msrc]
        needs = ds_need(a['target']) + sneed; wf = ds_ok(a['target']) and sok; meth = 'copy_config'
    elif op == 'validate':
        s = a['source']
        if s in DS:
            v, verdict = DS[s]
            if verdict[0] == 'str':
                src, msrc, sneed, sok = v, [0, enc_ds(s)], ds_need(s), ds_ok(s)
            else:   # `type(source) is str` is false: taken as an element -> validated_element
                ex = {'none': 'AttributeError', 'int': 'AttributeError', 'bytes': 'AttributeError'}[s]
                src, msrc, sneed, sok = v, [1, optexn(ex)], [], False
        else:
            src, msrc, sneed, sok = _src_inline(s), [1, optexn(SRC_VALIDATE[s])], [], SRC_VALIDATE[s] is None
        kw = dict(source=src); model = [5, msrc]
        needs = [':validate'] + sneed; wf = sok; meth = 'validate'
    elif op == 'commit':
        vend = a['vendor']; confirmed = a['confirmed']
        kw = dict(confirmed=confirmed)
        pre = post = None
        if vend == 'std' or vend == 'sros':
            kw.update(timeout=a.get('timeout'), persist=a.get('persist'), persist_id=a.get('persist_id'))
            if vend == 'sros':
                kw['comment'] = a.get('comment')
                if a.get('comment') == 'bad\x00': pre = 'ValueError'
            if pre is None and a.get('persist') and a.get('persist_id'): pre = 'OperationError'
            if confirmed and isinstance(a.get('timeout'), int): post = 'TypeError'
            elif confirmed and a.get('persist') == 'bad\x00': post = 'ValueError'
            elif a.get('persist_id') == 'bad\x00': post = 'ValueError'
        else:
            kw.update(timeout=a.get('timeout'), comment=a.get('comment'), at_time=a.get('at_time'),
                      synchronize=a.get('synchronize', False), check=a.get('check', False))
            if confirmed and a.get('at_time') is not None: pre = 'NCClientError'
            if confirmed and a.get('timeout') == 'abc': post = 'ValueError'
            elif a.get('comment') == 'bad\x00': post = 'ValueError'
        # what request() branches on (CPython's verdicts on the arguments): timeout is not None, persist is not None, bool(persist_id)
        tmo = a.get('timeout') is not None
        per = vend != 'junos' and a.get('persist') is not None
        pid = vend != 'junos' and bool(a.get('persist_id'))
        model = [6, {'std': 0, 'junos': 1, 'sros': 2}[vend], 1 if confirmed else 0, int(tmo), int(per), int(pid), optexn(pre), optexn(post)]
        # documented: a confirmed commit, and <persist-id> (the follow-up of a persistent confirmed commit), need :confirmed-commit
        needs = [':candidate'] + ([':confirmed-commit'] if confirmed or pid else [])
        wf = pre is None and post is None; meth = 'commit'
    elif op == 'cancel_commit':
        pid = a.get('persist_id'); ex = 'ValueError' if pid == 'bad\x00' else None
        kw = dict(persist_id=pid); model = [7, optexn(ex)]
        needs = [':candidate', ':confirmed-commit']; wf = ex is None; meth = 'cancel_commit'
    elif op == 'discard_changes':
        kw = {}; model = [8]; needs = [':candidate']; wf = True; meth = 'discard_changes'
    elif op == 'create_subscription':
        f, fv = FILTER[a['filter']]
        kw = dict(filter=f, stream_name=a.get('stream'), start_time=a.get('start'), stop_time=a.get('stop'))
        ex = fv
        if ex is None and a.get('stream') == 'bad\x00': ex = 'ValueError'
        if ex is None and a.get('stop') is not None and a.get('start') is None: ex = 'ValueError'
        model = [9, optexn(ex)]; needs = [':notification']; wf = ex is None; meth = 'create_subscription'
    elif op == 'poweroff_machine':
        kw = {}; model = [10]; needs = [PC_OFF]; wf = True; meth = op
    elif op == 'reboot_machine':
        kw = {}; model = [11]; needs = [PC_RE]; wf = True; meth = op
    elif op in ('dispatch', 'rpc'):
        cmd = a['cmd']
        cv = {'name': None, 'ele': None, 'badname': 'ValueError', 'nonstr': 'ValueError'}[cmd]
        cval = {'name': 'get-something', 'ele': None, 'badname': 'bad name', 'nonstr': 5}[cmd]
        if cmd == 'ele': cval = _ele('<x xmlns="urn:x"><y/></x>')
        f, fv = FILTER[a['filter']]
        s = a.get('source'); t = a.get('target')
        if s == 'none': s = None          # None means 'argument absent' for these two calls
        if t == 'none': t = None
        kw = dict(rpc_command=cval, source=None if s is None else DS[s][0], filter=f)
        ms = [] if s is None else [enc_ds(s)]
        needs = [] if s is None else ds_need(s)
        wf = cv is None and fv is None and (s is None or ds_ok(s))
        if op == 'dispatch':
            model = [12, optexn(cv), ms, optexn(fv)]
        else:
            c, ccv = (None, None) if a.get('config') is None else CONFIG[a['config']]
            kw.update(target=None if t is None else DS[t][0], config=c)
            mt = [] if t is None else [enc_ds(t)]
            needs = ([] if t is None else ds_need(t)) + needs
            wf = wf and (t is None or ds_ok(t)) and ccv is None
            model = [13, optexn(cv), mt, ms, optexn(fv), optexn(ccv)]
        meth = op
    elif op == 'ungated':
        meth = a['method']; kw = dict(a.get('kw', {}))
        ex = a.get('exc')
        model = [14, optexn(ex)]; needs = []; wf = ex is None
    else:
        raise ValueError(op)
    return dict(method=meth, kwargs=kw, model=model, needs=needs, wf=wf, wd=wd)

# ---------------- independent oracle ----------------
def spec_shorthands(ns):
    PA = ['urn', 'ietf', 'params', 'netconf']; PB = ['urn', 'ietf', 'params', 'xml', 'ns', 'netconf']
    segs = ns.split(':')
    for p in (PA, PB):
        if segs[:len(p)] == p:
            r = segs[len(p):]
            if len(r) >= 3 and r[0] == 'capability': return [':' + r[1], ':' + r[1] + ':' + r[2]]
            if len(r) >= 2 and r[0] == 'base': return [':base', ':base:' + r[1]]
    return []

def advertised(uris, k):
    return k in uris or any(k in spec_shorthands(u.split('?')[0]) for u in uris)

def spec_wd_modes(uris):
    """modes the first with-defaults capability lists (RFC 6243 4.3), None when it has no basic-mode"""
    k = ':with-defaults'
    if k in uris: w = k
    else: w = next(u for u in uris if k in spec_shorthands(u.split('?')[0]))
    parts = w.split('?')
    d = {}
    if len(parts) > 1:
        for p in parts[1].split('&'):
            kv = p.split('=')
            if len(kv) == 2: d[kv[0]] = kv[1]
    if 'basic-mode' not in d: return None
    return [d['basic-mode']] + (d['also-supported'].split(',') if 'also-supported' in d else [])

def oracle(uris, b, no_attr=False):
    """expected observable of the property: ('exc', class or None=any) | ('sent',)"""
    if not b['wf']:
        return ('exc', None)
    for k in b['needs']:
        if not advertised(uris, k): return ('exc', 'MissingCapabilityError')
    if b['wd'] is not None:
        ms = spec_wd_modes(uris)
        if ms is None or norm(b['wd']) not in ms: return ('exc', 'WithDefaultsError')
    return ('sent',)

def sent_wd_text(msg):
    import xml.etree.ElementTree as ET
    root = ET.fromstring(msg.encode('utf-8'))
    e = root.find('.//{%s}with-defaults' % WDNS)
    return None if e is None else (e.text or '')

# ---------------- one case ----------------
def enc_sess(uris, no_attr): return [1] if no_attr else [0, [u.encode('utf-8') for u in uris]]

def impl_run(case, b=None):
    from harness import capture
    b = b or build(case['call'])
    if case.get('order'):                       # the operation object built directly, before / after the <hello> (harness/prepared.py)
        from harness import prepared
        return b, prepared.run(case['profile'], case['uris'], b['method'], dict(b['kwargs']), case['order'])
    m, s = capture.make_manager(case['profile'], case['uris'], no_caps_attr=case.get('no_attr', False))
    r = capture.call(m, s, b['method'], kwargs={k: v for k, v in b['kwargs'].items()})
    return b, r

def canon_impl(r):
    ev = [[0 if kind == 'assert' else 1, k] for kind, k in r['log']]
    return dict(exc=r['exc'], nsent=len(r['sent']), checks=ev, registered=r['registered'], wire=wire_codes(r))

def wire_codes(r):
    """codes (Gating.wire) of the capability-dependent constructs of the one message that was sent ([] when none was)"""
    from harness import wiregate
    if r['exc'] is not None or len(r['sent']) != 1: return []
    try:
        return wiregate.codes(wiregate.read(r['sent'][0])[0])
    except Exception as e:      # not well-formed XML: C07's subject; here it simply does not match the model
        return ['unreadable: %s' % type(e).__name__]

def canon_model(v):
    evs, out, wire = v
    checks = [[e[0], e[1].decode('utf-8')] for e in evs if e[0] in (0, 1)]
    return dict(exc=None if out[0] == 0 else EXC_REV[out[1]], nsent=sum(1 for e in evs if e[0] == 3), checks=checks,
                registered=sum(1 for e in evs if e[0] == 2), wire=sorted(wire))

def wire_judge(case, r):
    """wire-level reading of the property, independent of the call and of the branch that built the request: every
    capability-dependent construct of every message that reached the server is backed by an advertised capability"""
    from harness import wiregate
    for msg in r['sent']:
        try:
            cons, adv, wd = wiregate.read(msg)
        except Exception:
            continue                           # ill-formed XML is C07's subject
        bad = wiregate.unbacked(cons, case['uris'], advertised)
        if bad:
            return ('the server did not advertise %s, yet the request carries %s: %s'
                    % (sorted({k for _, k in bad}), sorted({c for c, _ in bad}), msg),
                    'ungated_construct_on_wire', [], [list(x) for x in bad])
        if wd is not None and advertised(case['uris'], ':with-defaults'):
            ms = spec_wd_modes(case['uris'])
            if ms is None or wd not in ms:
                return ('with-defaults mode on the wire %r is not an advertised mode %r' % (wd, ms), 'wd_mode_sent_unnormalised', ms, wd)
    return None

def judge(case, b, r):
    """property oracle on the implementation: returns None or (what, sig, expected, actual)"""
    if case.get('no_attr'): return None        # outside the property's quantification (no capability set at all)
    if case.get('order') == 'pcr' and r.get('stage') == 'construct':
        j = judge_early(case, b, r)
    else:
        j = judge_call(case, b, r)
    return j if j else wire_judge(case, r)

def judge_early(case, b, r):
    """the object was to be built while the server's capabilities were not known yet, and the construction raised: the
    history ends there.  Nothing may have been sent.  For an operation with a documented dependency that is a local refusal
    (the library cannot tell yet whether the server will advertise it); an operation without any must be constructible."""
    act = ('exc', r['exc'], 'at construction, before the <hello>')
    if r['sent']:
        return ('construction raised %s yet %d message(s) were sent' % (r['exc'], len(r['sent'])), 'sent_when_refused', ('exc', None), act)
    if b['wf'] and not b['needs']:
        return ('an operation without a documented dependency could not be built before connect(): %s' % r['exc'],
                'raised_when_allowed', ('sent',), act)
    return None

def judge_call(case, b, r):
    exp = oracle(case['uris'], b)
    act = ('sent',) if r['exc'] is None else ('exc', r['exc'])
    if exp[0] == 'exc':
        if r['exc'] is None or r['sent']:
            return ('refused call was sent (or raised nothing): %r' % (act,), 'sent_when_refused', exp, act)
        if exp[1] is not None and r['exc'] != exp[1]:
            sig = 'wrong_exception_class'
            return ('expected %s, got %s' % (exp[1], r['exc']), sig, exp, act)
        return None
    if r['exc'] is not None:
        return ('allowed call raised %s' % r['exc'], 'raised_when_allowed', exp, act)
    if len(r['sent']) != 1:
        return ('allowed call sent %d messages' % len(r['sent']), 'not_exactly_one_message', exp, act)
    if b['wd'] is not None:
        t = sent_wd_text(r['sent'][0]); ms = spec_wd_modes(case['uris'])
        if t not in ms:
            return ('with-defaults mode on the wire %r is not an advertised mode %r' % (t, ms), 'wd_mode_sent_unnormalised', ms, t)
    return None

# ---------------- generators ----------------
def uri_sets(rng, tier):
    """all 2^8 subsets x both URN forms (+ one mixed-form assignment per subset)"""
    out = []
    for mask in range(256):
        names = [ATOMS[i] for i in range(8) if mask >> i & 1]
        out.append([A + n for n in names]); out.append([B + n for n in names])
        out.append([(A if rng.random() < 0.5 else B) + n for n in names])
    return out

def core_calls():
    """every gated call x every combination of the arguments that decide a check"""
    c = []
    for wd in (None, 'explicit', 'trim', ' Trim ', 'report-all-tagged'):
        c.append(['get', dict(filter='nofilter', wd=wd)])
        for src in ('running', 'url-http'):
            c.append(['get_config', dict(source=src, filter='subtree', wd=wd)])
    for tgt in ('running', 'url-http'):
        c.append(['delete_config', dict(target=tgt)])
        for src in ('candidate', 'url-file', 'src-ele', 'src-str'):
            c.append(['copy_config', dict(target=tgt, source=src)])
        for top in (None, 'test-then-set', 'set', 'test-only'):
            for eop in (None, 'stop-on-error', 'rollback-on-error'):
                for fmt, cfg in (('xml', 'cfg'), ('url', 'u-ok')):
                    c.append(['edit_config', dict(target=tgt, dop=None, top=top, eop=eop, format=fmt, config=cfg)])
    for src in ('candidate', 'url-http', 'cfg-ele'):
        c.append(['validate', dict(source=src)])
    for vend in ('std', 'junos', 'sros'):
        for conf in (False, True):
            c.append(['commit', dict(vendor=vend, confirmed=conf)])
    c.append(['commit', dict(vendor='std', confirmed=True, timeout='60', persist='tok')])
    c.append(['commit', dict(vendor='std', confirmed=False, persist_id='tok')])
    c.append(['cancel_commit', dict(persist_id=None)]); c.append(['cancel_commit', dict(persist_id='tok')])
    c.append(['discard_changes', {}])
    c.append(['create_subscription', dict(filter='nofilter')])
    c.append(['create_subscription', dict(filter='subtree', stream='NETCONF', start='2020-01-01T00:00:00Z', stop='2021-01-01T00:00:00Z')])
    for s in (None, 'running', 'url-http'):
        c.append(['dispatch', dict(cmd='name', source=s, filter='nofilter')])
        for t in (None, 'candidate', 'url-file'):
            c.append(['rpc', dict(cmd='name', source=s, target=t, filter='nofilter', config=None)])
    c.append(['ungated', dict(method='lock', kw=dict(target='running'))])
    c.append(['ungated', dict(method='unlock', kw=dict(target='running'))])
    c.append(['ungated', dict(method='get_schema', kw=dict(identifier='ietf-x', version='1', format='yang'))])
    c.append(['ungated', dict(method='kill_session', kw=dict(session_id='7'))])
    c.append(['ungated', dict(method='close_session')])
    return c

def commit_calls():
    """commit, the three classes: every combination of the arguments request() branches on, optional ones given alone,
    empty strings (persist='' is not None; persist_id='' is false)"""
    c = []
    for conf in (False, True):
        for tmo in (None, '60'):
            for per in (None, 'tok'):
                for pid in (None, 'tok'):
                    c.append(['commit', dict(vendor='std', confirmed=conf, timeout=tmo, persist=per, persist_id=pid)])
                    for com in (None, 'note <&>'):
                        c.append(['commit', dict(vendor='sros', confirmed=conf, timeout=tmo, persist=per, persist_id=pid, comment=com)])
            for at in (None, '12:00'):
                for extra in (dict(), dict(comment='note', synchronize=True, check=True)):
                    c.append(['commit', dict(vendor='junos', confirmed=conf, timeout=tmo, at_time=at, **extra)])
        for vend in ('std', 'sros'):
            c.append(['commit', dict(vendor=vend, confirmed=conf, persist='')])
            c.append(['commit', dict(vendor=vend, confirmed=conf, persist_id='')])
            c.append(['commit', dict(vendor=vend, confirmed=conf, persist='', persist_id='tok')])
            c.append(['commit', dict(vendor=vend, confirmed=conf, persist='tok', persist_id='')])
        c.append(['commit', dict(vendor='sros', confirmed=conf, comment='  ', persist_id='tok')])
    return c

def malformed_calls():
    """locally refused arguments, alone and in front of / behind a capability check"""
    c = []
    for d in DS_BAD:
        c.append(['delete_config', dict(target=d)])
        c.append(['get_config', dict(source=d, filter='nofilter', wd='trim')])
        c.append(['copy_config', dict(target='url-http', source=d)])
        c.append(['copy_config', dict(target=d, source='url-http')])
        c.append(['validate', dict(source=d)])
        c.append(['edit_config', dict(target=d, dop=None, top='test-only', eop=None, format='xml', config='cfg')])
        c.append(['dispatch', dict(cmd='name', source=d, filter='nofilter')])
        c.append(['rpc', dict(cmd='name', source='url-http', target=d, filter='nofilter', config=None)])
    for f in FILTER_BAD + FILTER_GOOD:
        c.append(['get', dict(filter=f, wd='trim')]); c.append(['get', dict(filter=f, wd=None)])
        c.append(['get_config', dict(source='url-http', filter=f, wd='explicit')])
        c.append(['create_subscription', dict(filter=f)])
        c.append(['dispatch', dict(cmd='name', source='url-http', filter=f)])
    for s in SRC_COPY: c.append(['copy_config', dict(target='url-http', source=s)])
    for s in SRC_VALIDATE: c.append(['validate', dict(source=s)])
    for dop in (None, 'merge', 'replace', 'none', 'bogus', 'Merge', ''):
        for top in (None, 'test-only', 'bogus', 'Set'):
            for eop in (None, 'rollback-on-error', 'continue-on-error', 'bogus'):
                c.append(['edit_config', dict(target='url-http', dop=dop, top=top, eop=eop, format='xml', config='cfg')])
    for fmt, cfgs in (('xml', CONFIG), ('text', TEXTCFG), ('url', URLCFG), ('json', {'x': 0})):
        for cfg in cfgs:
            for top in (None, 'test-only'):
                c.append(['edit_config', dict(target='running', dop='merge', top=top, eop='rollback-on-error', format=fmt, config=cfg)])
    for conf in (False, True):
        c.append(['commit', dict(vendor='std', confirmed=conf, persist='a', persist_id='b')])
        c.append(['commit', dict(vendor='std', confirmed=conf, timeout=60)])
        c.append(['commit', dict(vendor='std', confirmed=conf, persist='bad\x00')])
        c.append(['commit', dict(vendor='std', confirmed=conf, persist_id='bad\x00')])
        c.append(['commit', dict(vendor='sros', confirmed=conf, persist='a', persist_id='b')])
        c.append(['commit', dict(vendor='sros', confirmed=conf, timeout=60)])
        c.append(['commit', dict(vendor='sros', confirmed=conf, persist='bad\x00')])
        c.append(['commit', dict(vendor='sros', confirmed=conf, persist_id='bad\x00')])
        c.append(['commit', dict(vendor='sros', confirmed=conf, comment='bad\x00', persist_id='tok')])
        c.append(['commit', dict(vendor='sros', confirmed=conf, comment='bad\x00')])
        c.append(['commit', dict(vendor='sros', confirmed=conf, comment='note <&>', timeout='5')])
        c.append(['commit', dict(vendor='junos', confirmed=conf, at_time='12:00')])
        c.append(['commit', dict(vendor='junos', confirmed=conf, timeout='abc')])
        c.append(['commit', dict(vendor='junos', confirmed=conf, timeout='90', comment='note <&>', synchronize=True, check=True)])
        c.append(['commit', dict(vendor='junos', confirmed=conf, comment='bad\x00')])
    c.append(['cancel_commit', dict(persist_id='bad\x00')])
    c.append(['create_subscription', dict(filter='nofilter', stop='2021-01-01T00:00:00Z')])
    c.append(['create_subscription', dict(filter='nofilter', stream='bad\x00')])
    for cmd in ('ele', 'badname', 'nonstr'):
        c.append(['dispatch', dict(cmd=cmd, source='url-http', filter='nofilter')])
        c.append(['rpc', dict(cmd=cmd, source='url-http', target='url-file', filter='subtree', config='cfg')])
    for cfg in CONFIG:
        c.append(['rpc', dict(cmd='name', source=None, target='url-http', filter='nofilter', config=cfg)])
    c.append(['ungated', dict(method='lock', kw=dict(target='bad name'), exc='ValueError')])
    c.append(['ungated', dict(method='kill_session', kw=dict(session_id='bad\x00'), exc='ValueError')])
    c.append(['ungated', dict(method='get_schema', kw=dict(identifier=5), exc='TypeError')])
    return c

def profile_for(call, rng=None, default='default'):
    if call[0] == 'commit':
        return {'std': default, 'junos': 'junos', 'sros': 'sros'}[call[1]['vendor']]
    if call[0] == 'rpc' and default == 'junos': return 'default'
    return default

def relevant_mask(b):
    """indices of ATOMS a call's needs can depend on"""
    idx = set()
    for k in b['needs']:
        for i, a in enumerate(ATOMS):
            if k in spec_shorthands(A + a.split('?')[0]): idx.add(i)
    return sorted(idx)

def gen_cases(ctx, rng, tier):
    from harness import capture
    cases = []
    sets = uri_sets(rng, tier)
    core = core_calls(); mal = malformed_calls()
    # (a) exhaustive: every core call x all 2^8 subsets x {form A, form B, mixed}
    for call in core:
        for uris in sets:
            cases.append(dict(profile=profile_for(call), uris=uris, call=call))
    # (a2) commit argument combinations (std / junos / sros) x all 2^8 subsets, the URN form rotating with the subset
    for call in commit_calls():
        for mask in range(256):
            cases.append(dict(profile=profile_for(call), uris=sets[3 * mask + mask % 3], call=call))
    # (b) malformed / argument-catalogue calls x the subsets of the capabilities they can depend on (others random)
    for call in mal:
        b = build(call); rel = relevant_mask(b)
        for bits in itertools.product((0, 1), repeat=len(rel)):
            on = {rel[i] for i in range(len(rel)) if bits[i]}
            for form in (A, B):
                other = {i for i in range(8) if i not in rel and rng.random() < 0.5}
                uris = [form + ATOMS[i] for i in sorted(on | other)]
                rng.shuffle(uris)
                cases.append(dict(profile=profile_for(call), uris=uris, call=call))
    # (c) with-defaults parameter grammar x modes x both forms (+ second URI shadowed, verbatim shorthand)
    for p in WD_PARAMS:
        for form in (A, B):
            for mode in MODES:
                base = [form + 'with-defaults:1.0' + p]
                for uris in (base, base + [A + 'with-defaults:1.0?basic-mode=report-all-tagged'], [A + 'url:1.0'] + base):
                    cases.append(dict(profile='default', uris=uris, call=['get', dict(filter='nofilter', wd=mode)]))
                cases.append(dict(profile='default', uris=base + [B + 'url:1.0'],
                                  call=['get_config', dict(source='url-http', filter='xpath', wd=mode)]))
    for mode in ('explicit', 'trim'):
        for uris in ([':with-defaults'], [':with-defaults', A + 'with-defaults:1.0?basic-mode=explicit'],
                     ['urn:ietf:params:foo:netconf:capability:with-defaults:1.0?basic-mode=explicit'],
                     [A + 'with-defaults'], [A + 'with-defaults:1.0:x?basic-mode=trim']):
            cases.append(dict(profile='default', uris=uris, call=['get', dict(filter='nofilter', wd=mode)]))
    # (d) power-control URIs (the two classes name different URIs)
    for off in (0, 1):
        for re_ in (0, 1):
            uris = ([PC_OFF] if off else []) + ([PC_RE] if re_ else [])
            for op in ('poweroff_machine', 'reboot_machine'):
                for prof in ('default', 'junos'):
                    cases.append(dict(profile=prof, uris=uris, call=[op, {}]))
    # (e) look-alikes, truncations, verbatim shorthands as the capability list
    odd = [['urn:ietf:params:foo:netconf:capability:candidate:1.0'], [A + 'candidate'], [A[:-1]], [':candidate'],
           [':candidate', ':confirmed-commit'], ['urn:ietf:params:netconf:capability:candidate:1.0:extra'],
           [B + 'validate:1.1'], [A + 'validate:1.0'], [':validate:1.1'], [A + 'validate:1.1', ':validate'],
           ['candidate'], [A + 'Candidate:1.0'], [' ' + A + 'candidate:1.0'], [A + 'url:1.0', A + 'url:1.0'], [':url'],
           # IETF URNs that are NOT capability URNs: YANG/XML namespaces a server lists as modules, capability-less forms
           ['urn:ietf:params:xml:ns:netconf:notification:1.0?module=notifications&revision=2008-07-14'],
           ['urn:ietf:params:xml:ns:netconf:notification:1.0', 'urn:ietf:params:xml:ns:netmod:notification?module=nc-notifications'],
           ['urn:ietf:params:netconf:candidate:1.0', 'urn:ietf:params:xml:ns:netconf:candidate:1.0', 'urn:ietf:params:netconf:validate:1.1'],
           ['urn:ietf:params:xml:ns:netconf:base:1.0', 'urn:ietf:params:xml:ns:yang:ietf-netconf-with-defaults?module=ietf-netconf-with-defaults'],
           ['urn:ietf:params:netconf:url:1.0?scheme=file', 'urn:ietf:params:netconf:confirmed-commit:1.1', 'urn:ietf:params:netconf:rollback-on-error:1.0']]
    for uris in odd:
        for call in core:
            if call[0] in ('commit', 'discard_changes', 'cancel_commit', 'validate', 'delete_config', 'create_subscription', 'copy_config', 'get', 'get_config') or (call[0] == 'edit_config'):
                cases.append(dict(profile=profile_for(call), uris=uris, call=call))
    # (f) every profile: the standard gated calls on a few subsets (gating must not depend on the profile)
    few = [sets[i] for i in (0, 3 * 255, 3 * 255 + 1, 3 * 0b10101010 + 2, 3 * 0b01010101)]
    for prof in capture.PROFILES:
        for call in core:
            if call[0] == 'commit' and call[1]['vendor'] != 'std': continue
            if prof in ('junos', 'sros') and call[0] == 'commit': continue
            if prof == 'junos' and call[0] == 'rpc': continue
            for uris in few:
                cases.append(dict(profile=prof, uris=uris, call=call))
    # (g) a session without server capabilities (the `except AttributeError: pass` path)
    for call in core[::3] + mal[::7]:
        cases.append(dict(profile=profile_for(call), uris=[], call=call, no_attr=True))
    # (h) random lists: order, duplicates, extra URIs
    n = 2000 if tier == 'quick' else 60000
    pool = [f + a for f in (A, B) for a in ATOMS] + [PC_OFF, PC_RE, 'http://example.com/yang', A + 'xpath:1.0', B + 'startup:1.0',
            A + 'with-defaults:1.0' + rng.choice(WD_PARAMS), ':candidate', 'urn:ietf:params:netconf:base:1.1']
    allc = core + mal + commit_calls()
    for _ in range(n):
        uris = [rng.choice(pool) for _ in range(rng.choice([0, 1, 2, 4, 6, 9, 12]))]
        call = rng.choice(allc)
        if call[0] in ('get', 'get_config') and rng.random() < 0.7:
            call = [call[0], dict(call[1], wd=rng.choice(MODES + [None]))]
            uris.append(rng.choice((A, B)) + 'with-defaults:1.0' + rng.choice(WD_PARAMS))
            rng.shuffle(uris)
        cases.append(dict(profile=profile_for(call, default=rng.choice(['default', 'default', 'nexus', 'iosxr', 'huawei', 'alu'])), uris=uris, call=call))
    # (i) vendor classes (alu load_configuration / get_configuration, h3c get_bulk_config: the callers of datastore_or_url; all others)
    from harness import vendorgate
    cases += vendorgate.gen_cases(rng, tier, sets)
    # (j) the operation object built directly, before / after the session is connected (harness/prepared.py)
    cases += order_cases(rng)
    return cases

def model_call(c, b):
    """runner call: fn 1 / 3 = Manager call (Gating.perform / VendorGating.vperform); fn 4 = the object built before (0) / after
    (1) the <hello>, request() on the connected session (Gating.perform_at / VendorGating.vperform_at)"""
    fn = b.get('fn', 1)
    if c.get('order'):
        return [4, {'pcr': 0, 'cpr': 1}[c['order']], enc_sess(c['uris'], False), 0 if fn == 1 else 1, b['model']]
    return [fn, enc_sess(c['uris'], c.get('no_attr', False)), b['model']]

def order_cases(rng):
    """(j) order of calls: every core call (standard, commit argument records, power-control, vendor classes, every third
    argument-catalogue call) made on an operation object built directly - before the session is connected (pcr) and after
    (cpr) - x every subset of the capabilities the call can depend on (the others random) x both URN forms"""
    from harness import vendorgate, prepared
    cases = []
    calls = core_calls() + commit_calls()[::2] + malformed_calls()[::3] + vendorgate.core_calls() + vendorgate.other_calls()[::5]
    for call in calls:
        b = build(call); rel = relevant_mask(b)
        prof = vendorgate.profile_of(call) if call[0].startswith('v:') else profile_for(call)
        for bits in itertools.product((0, 1), repeat=len(rel)):
            on = {rel[i] for i in range(len(rel)) if bits[i]}
            for form in (A, B):
                other = {i for i in range(8) if i not in rel and rng.random() < 0.5}
                uris = [form + ATOMS[i] for i in sorted(on | other)]
                rng.shuffle(uris)
                for order in prepared.ORDERS:
                    cases.append(dict(profile=prof, uris=uris, call=call, order=order))
    for op in ('poweroff_machine', 'reboot_machine'):
        for uris in ([], [PC_OFF], [PC_RE], [PC_OFF, PC_RE]):
            for order in prepared.ORDERS:
                cases.append(dict(profile='default', uris=uris, call=[op, {}], order=order))
    # the with-defaults lookup of an object built early runs against the capabilities of the connected session
    for p in WD_PARAMS[:4]:
        for mode in MODES[:6]:
            for order in prepared.ORDERS:
                cases.append(dict(profile='default', uris=[A + 'with-defaults:1.0' + p], order=order,
                                  call=['get', dict(filter='nofilter', wd=mode)]))
    return cases

def key_of(case):
    return json.dumps(case, sort_keys=True, default=repr)

def run_cases(ctx, cases, record=True):
    builds = [build(c['call']) for c in cases]
    calls = [model_call(c, b) for c, b in zip(cases, builds)]
    outs = ctx.model.batch(calls) if ctx.model else [None] * len(cases)
    for case, b, mo in zip(cases, builds, outs):
        b2, r = impl_run(case, b)
        im = canon_impl(r)
        if record:
            ctx.count(case, nontrivial=bool(b['needs']), key=key_of(case))
            ctx.hist('method', b['method']); ctx.hist('impl_outcome', im['exc'] or 'sent'); ctx.hist('profile', case['profile'])
            ctx.hist('n_needs', len(b['needs'])); ctx.hist('wellformed', b['wf'])
            ctx.hist('order', case.get('order') or 'manager-call')
            if case.get('order'): ctx.hist('order_outcome', '%s %s@%s' % (case['order'], im['exc'] or 'sent', r.get('stage')))
            if case['call'][0].startswith('v:'): ctx.hist('vendor_call', case['call'][0][2:])
            if ctx.evaluations % 4001 == 1: ctx.sample({'case': json.loads(key_of(case)), 'impl': im})
        if mo is not None:
            if isinstance(mo, str) or (mo and mo[0] == 999):
                ctx.disagree(json.loads(key_of(case)), repr(mo), im, 'model runner rejected the call encoding')
            else:
                mm = canon_model(mo)
                if mm != im:
                    if case.get('order'):
                        ctx.disagree(json.loads(key_of(case)), mm, im, 'Gating.perform_at vs the operation object built directly (%s)' % case['order'],
                                     theorem='C09_order_refused/C09_order_wire_backed')
                    else:
                        ctx.disagree(json.loads(key_of(case)), mm, im, 'Gating.perform vs Manager call', theorem='C09_refused/C09_allowed')
        j = judge(case, b, r)
        if j:
            what, sig, exp, act = j
            ctx.fail(json.loads(key_of(case)), what, sig=sig, expected=exp, actual=act)
        if record and r['sent'] and not case.get('no_attr'):
            advisory(ctx, case, r)

def advisory(ctx, case, r):
    """evidence only: constructs RFC 6241 ties to a capability ncclient documents no dependency for (datastore names, xpath)"""
    from harness import wiregate
    for msg in r['sent']:
        try:
            cons, adv, _ = wiregate.read(msg)
        except Exception:
            continue
        for c in cons: ctx.hist('wire_construct', c)
        for what, k in adv:
            ctx.hist('rfc_only_construct', '%s %s' % (what, 'backed' if advertised(case['uris'], k) else 'not advertised'))

def chars_micro(ctx):
    """xml_chars_ok (Model/Xml.v) vs lxml's verdict on single strings"""
    from lxml import etree
    samples = ['', 'abc', 'a\tb\nc\rd', 'a\x00', '\x01', '\x0b', '\x0c', '\x1f', '\x7f', '\x80', '\u0085', '\ufffd', '\ufffe', '\uffff',
               '\ufffc', '\ud7ff', '\ue000', '\U0001f600', 'x\ufffe', '\uffffx', '\u00ef\u00bf\u00be', '\ud800', 'a\udfffb', '\ufdd0', '\U0001fffe',
               '\uefbf', '\uffbe', '\ued9f', '\u0fff', '\ufeff']
    samples += [chr(c) for c in range(0, 0x30)]
    calls = [[2, s.encode('utf-8', 'surrogatepass')] for s in samples]
    outs = ctx.model.batch(calls) if ctx.model else [None] * len(samples)
    for s, mo in zip(samples, outs):
        e = etree.Element('a')
        try:
            e.text = s; ok = 1
        except (ValueError, UnicodeEncodeError):
            ok = 0
        ctx.count({'chars': repr(s)}, nontrivial=False, key='chars:' + repr(s))
        if mo is not None and mo != ok:
            ctx.disagree({'chars': repr(s)}, mo, ok, 'Xml.xml_chars_ok vs lxml text assignment')

def run(ctx):
    import os, glob
    from vlib import paths
    for f in sorted(glob.glob(os.path.join(paths.CORPUS, 'C09', '*.json'))):
        run_cases(ctx, [json.load(open(f))['case']])
    chars_micro(ctx)
    cases = gen_cases(ctx, ctx.rng, ctx.tier)
    run_cases(ctx, cases)
    ctx.exhaustive = False
    ctx.extra['capability_subsets_enumerated'] = '2^8 x {form A, form B, mixed} for every core call'

def search(ctx, seeds):
    rng = ctx.rng
    tries = list(seeds) + gen_cases(ctx, rng, 'quick')
    for case in tries:
        try:
            b, r = impl_run(case)
        except Exception:
            continue
        j = judge(case, b, r)
        if j:
            what, sig, exp, act = j
            return dict(case=json.loads(key_of(case)), what=what, sig=sig, expected=exp, actual=act)
    return None

def reproduce(finding):
    case = finding['witness']
    b, r = impl_run(case)
    return judge(case, b, r) is not None

def replay(doc):
    case = doc['case']
    b, r = impl_run(case)
    j = judge(case, b, r)
    print('case     :', case)
    print('expected :', oracle(case['uris'], b))
    print('actual   :', canon_impl(r))
    if case.get('order'): print('history  : %s, raised at: %s' % (case['order'], r.get('stage')))
    if j: print('verdict  :', j[0])
    return j is None
