"""C07 — requests are well-formed and carry caller data faithfully.
Models: coq/Model/{Xml,Escape,Builders}.v; spec: coq/Spec/Rfc6241Schema.v; theorems: coq/Props/C07.v.
Every case is one real Manager call on a capturing session with every capability advertised; the captured
message is read by an independent reader (xml.etree/expat) and compared (a) with the model's tree, (b) with the
oracle: the Appendix-F schema of the operation and path assertions for every caller string / fragment, (c) with the binding
oracle: every namespace binding in scope at an element of a caller document (and every entry of an XPath filter's prefix map)
is in scope at that element of the request (tools/harness/nsscope.py; model coq/Model/NsScope.v, runner fn 8).
The carries theorems (Spec/Template.v, CarriesBase.v, CarriesVendor.v; runner fn 10 / 11) are corresponded by tools/harness/carries.py.
The device profiles' hook on the finished request (transform_edit_config; Builders.transform_edit_config, runner fn 12; theorems C07_hook_frame, C07_hook_root_only) is corresponded
through Manager calls whose caller data is named like the envelope (run_envelope_names, all 14 profiles, cross-profile oracle profile_frame) and directly on arbitrary trees (run_hooks)."""
import json, os, glob
ID = 'C07'
COQ_ROOTS = ['Props/C07.v', 'GenProps/Caps_consts.v', 'GenProps/Gating_consts.v', 'GenProps/Builders_consts.v', 'GenProps/Vendor_consts.v']
RULE = ('case = (device profile, operation, argument record). Operations: the 19 standard Manager methods; all 14 profiles. '
        'Strings from a piece grammar (ASCII, 2/3/4-byte UTF-8, < > & " \' CR LF TAB, ]]>, entity look-alikes, comment/PI/CDATA '
        'openers, U+2028, DEL, C1, up to 20k characters); XML fragments generated as trees (namespaced, prefixed, un-namespaced, '
        'attributes, mixed text) and passed as str and as lxml elements; enumerated arguments inside and outside their sets; a '
        'separate invalid stream (NUL, C0 controls, U+FFFE/FFFF, lone surrogates, non-strings, bad names, ill-formed or wrongly '
        'rooted documents). Escaping: single text/attribute values compared byte-exactly with lxml. distinct = distinct case; '
        'non-trivial = at least one caller string or fragment is carried. Vendor block (tools/harness/vendorops.py): case = (profile that ships the '
        'class, vendor Manager method, argument record) for the 30 classes of third_party/*/rpc.py; the unit tests\' and examples\' own calls and '
        'every switch corner as fixed cases, then generated records: the same string grammar for command/config/file/comment text and for '
        'format/action/rollback attributes, config as str / list of str / lxml element, caller documents as str and element (un-namespaced, default, '
        'prefixed), junos timeouts as int and as str (incl. non-numbers), plus an invalid stream (NUL/C0/U+FFFE/FFFF/surrogates in one string argument). '
        'Namespace bindings: 30% of the generated fragment elements declare 1-2 prefixes that no element or attribute name uses (ianaift, if, oc-if, a non-ASCII '
        'prefix) and carry QName / path content that depends on them (identityref, instance-identifier); XPath filters with a prefix map of 1-3 entries whose '
        'select string uses the prefixes; fixed cases on all 14 profiles (XPath prefix map, identityref config as str and element, subtree filter) and one per class '
        'of the open findings; every case with a caller document is read with a scope-tracking expat reader and compared element by element. '
        'Carries (tools/harness/carries.py): fresh draws of the same generators (all standard operations x 14 profiles, all 30 vendor classes); the extracted template '
        'instance wrap (fill (values c) (template (erase c))) (runner fn 10 / 11) is compared with the captured request, holes = 0..n-1; frame oracle on the implementation '
        'alone: two calls that differ in ONE caller value of the same class give requests that differ in exactly one text node / attribute value / element name. '
        'Envelope-like names (the profile hooks): caller documents whose elements and attributes are NAMED LIKE the elements the builders, RPC._wrap and the profile hooks create or '
        'look for (config, filter, source, target, rpc, url, data, operation and parameter names; message-id, type, select), nested 1-3 deep, in no namespace / in the base namespace '
        '(through a binding of the document root) / in a foreign namespace (default or prefixed) / mixed, for every way a standard operation takes a document (edit_config with a bare, '
        'default-qualified and nc:-qualified root, rpc config, validate, copy_config source, raw / subtree / list filters of get, get_config, create_subscription, the caller\'s own element of '
        'dispatch) as str and as element, the SAME call under all 14 profiles: tree oracle per profile, and across profiles the request is the one under the default profile modulo the '
        'envelope\'s namespace handling (R3 adoption; iosxe: un-namespaced <config> parameter in the base namespace). The hooks themselves (transform_edit_config of all 14 handlers) on '
        'arbitrary trees with 0-3 un-namespaced <config> direct children among envelope-named children: runner fn 12 (Builders.transform_edit_config) vs the handler, and an oracle: nothing but '
        'the name of a direct un-namespaced <config> child may change. '
        'Histories (tools/harness/histories.py): 3-6 calls on ONE Manager/session (30 histories per profile quick, 240 thorough, plus fixed ones) against a server whose :with-defaults URI is drawn '
        '(basic-mode, any subset/order of also-supported, either parameter order, or absent): with_defaults from the basic mode, the also-supported modes, RFC modes not advertised and values outside the '
        'set, repeated calls, filters, edit-config options, the other standard operations and the profile\'s vendor operations; every call must do what the same call does FIRST on a fresh session of the same '
        'server (exception class, request tree), satisfy the single-call oracles with this server\'s advertised with-defaults set, and leave m.server_capabilities (URIs, namespace URI and parameters of every '
        'capability, against an independent split of the advertised URIs) untouched; the retrievals are also run through CallHistory.history (runner fn 13). One-shot iterables: the list arguments the vendor '
        'classes iterate over (nexus exec_command cmds, alu get_configuration cli filter) given as generator / iterator / map / tuple must send what the list sends. '
        'Generic calls and kept bound callables (histories.py): steps {gen: method name that is no standard / vendor operation, pos: 0-3 positional arguments} on all 14 profiles (fixed histories on '
        'default / junos / nexus / iosxe / alu) - one <rpc> with a single operation element named as the method with _ -> -, no attributes, whose children are exactly THIS call\'s arguments in order, '
        'each empty; a name / argument that is no NCName is refused with nothing sent (sig generic_call_not_faithful). Any step (generic, standard, vendor) may go through the bound callable of its '
        'method looked up ONCE on the manager and kept (f = m.request_system_snapshot; f(\'slice\'); f(\'media\', \'partition\'); f(); g = m.get_config kept and called with different sources / filters), '
        'mixed with new lookups of the same name: every such call must send what a new lookup on a fresh manager sends (call_depends_on_history) and pass the single-call oracle.')
ASSUMES = ['vendor classes: Python verdicts int(timeout) (junos commit) and bool(comment.strip()) (sros commit) are inputs of the model; caller fragments of vendor calls do not use the base namespace (that class is the open finding envelope_namespace_binding_shadowed, one explicit huawei case); junos timeouts within +-10^12 (binary64 division is exact there)',
           'the server advertises every capability (gating is C09); with-defaults lists the four RFC 6243 modes',
           'lxml verdicts on element names are oracle inputs (catalogue); documents are parsed for the model by the independent reader',
           'binding oracle: the default namespace bound to the base namespace is not demanded at a caller element (the profile envelope decides how the base namespace is written); a caller document is found in the request by the tree oracle\'s notion of sameness (names, attributes, text, order; R3 adoption; re-qualified protocol root)',
           'NsScope.place is given the scope of the wire parent as the independent reader reports it (the xmlns-attribute idiom of huawei/sros/h3c is a declaration for the reader but not for lxml: vendor fragments never repeat those namespaces)']
TRUSTED = ['modelled, not verified: libxml2 serialiser/parser beyond the escaping function and the removal of redundant namespace declarations on append, expat (independent reader)']

B = 'urn:ietf:params:xml:ns:netconf:base:1.0'
N = 'urn:ietf:params:xml:ns:netconf:notification:1.0'
M = 'urn:ietf:params:xml:ns:yang:ietf-netconf-monitoring'
WD = 'urn:ietf:params:xml:ns:yang:ietf-netconf-with-defaults'
PC = 'urn:liberouter:params:xml:ns:netconf:power-control:1.0'
A = 'urn:ietf:params:netconf:capability:'
FULL_CAPS = ['urn:ietf:params:netconf:base:1.1'] + [A + x for x in (
    'candidate:1.0', 'confirmed-commit:1.1', 'validate:1.1', 'rollback-on-error:1.0', 'url:1.0?scheme=http,ftp,file', 'notification:1.0',
    'xpath:1.0', 'startup:1.0', 'writable-running:1.0',
    'with-defaults:1.0?basic-mode=explicit&also-supported=report-all,report-all-tagged,trim')] + [
    'urn:liberouter:param:netconf:capability:power-control:1.0', 'urn:liberouter:params:netconf:capability:power-control:1.0']
DEFAULT_NS_PROFILES = {'alu', 'ciena', 'ericsson', 'h3c', 'hpcomware', 'huawei', 'huaweiyang', 'nexus', 'sros'}
EXC = {'MissingCapabilityError': 1, 'WithDefaultsError': 2, 'OperationError': 3, 'XMLError': 4, 'XMLSyntaxError': 5,
       'ValueError': 6, 'TypeError': 7, 'NCClientError': 8, 'AttributeError': 9, 'KeyError': 10}
EXC_REV = {v: k for k, v in EXC.items()}; EXC_REV[11] = 'Internal'
DEFAULT_OPS = ['merge', 'replace', 'none']; TEST_OPTS = ['test-then-set', 'set', 'test-only']
ERROR_OPTS = ['stop-on-error', 'continue-on-error', 'rollback-on-error']
WD_MODES = ['explicit', 'report-all', 'report-all-tagged', 'trim']

# Appendix F: operation element and its children in schema order (a group = alternatives at one position)
SCHEMA = {
    'get': ((B, 'get'), [[(B, 'filter')], [(WD, 'with-defaults')]]),
    'get_config': ((B, 'get-config'), [[(B, 'source')], [(B, 'filter')], [(WD, 'with-defaults')]]),
    'edit_config': ((B, 'edit-config'), [[(B, 'target')], [(B, 'default-operation')], [(B, 'test-option')], [(B, 'error-option')],
                                         [(B, 'config'), (B, 'url'), (B, 'config-text')]]),
    'copy_config': ((B, 'copy-config'), [[(B, 'target')], [(B, 'source')]]),
    'delete_config': ((B, 'delete-config'), [[(B, 'target')]]),
    'lock': ((B, 'lock'), [[(B, 'target')]]), 'unlock': ((B, 'unlock'), [[(B, 'target')]]),
    'validate': ((B, 'validate'), [[(B, 'source')]]),
    'commit': ((B, 'commit'), [[(B, 'confirmed')], [(B, 'confirm-timeout')], [(B, 'persist')], [(B, 'persist-id')]]),
    'cancel_commit': ((B, 'cancel-commit'), [[(B, 'persist-id')]]),
    'discard_changes': ((B, 'discard-changes'), []), 'close_session': ((B, 'close-session'), []),
    'kill_session': ((B, 'kill-session'), [[(B, 'session-id')]]),
    'create_subscription': ((N, 'create-subscription'), [[(N, 'stream')], [(N, 'filter')], [(N, 'startTime')], [(N, 'stopTime')]]),
    'get_schema': ((M, 'get-schema'), [[(M, 'identifier')], [(M, 'version')], [(M, 'format')]]),
    'poweroff_machine': ((PC, 'poweroff-machine'), []), 'reboot_machine': ((PC, 'reboot-machine'), []),
}
REQUIRED = {'get_config': [(B, 'source')], 'edit_config': [(B, 'target')], 'copy_config': [(B, 'target'), (B, 'source')],
            'delete_config': [(B, 'target')], 'lock': [(B, 'target')], 'unlock': [(B, 'target')], 'validate': [(B, 'source')],
            'kill_session': [(B, 'session-id')], 'get_schema': [(M, 'identifier')]}

# ---------------- generators ----------------
PIECES = ['a', 'Z', '0', ' ', '\u00e9', '\u00df', '\u20ac', '\u4e2d', '\U0001f600', '<', '>', '&', '"', "'", '\r', '\n', '\t', ']]>', '&amp;', '&lt;', '&#60;',
          '<!--', '-->', '<?pi ?>', '<![CDATA[', '</x>', '<x a="1">', '\u2028', '\x7f', '\x85', '\u00a0', '%s', '\\', '/', ':', '=', '\ufffd', '\ud7ff', '\ue000']
INVALID_STR = ['a\x00b', '\x01', 'x\x0b', '\x1f', 'a\ufffeb', '\uffff', 'a\ud800', '\udfff', 5, 1.5, ['l'], {'d': 1}]     # bytes are accepted by lxml (decoded), so they are not in the invalid stream
GOOD_NAMES = ['running', 'candidate', 'startup', 'my-store_1', 'a.b', '_x', 'é', 'Ω1', 'A' * 300]
BAD_NAMES = ['', 'a b', '1a', '-a', '<x>', 'a:b', 'a/b', 'run\nning', 'x}', '{y}x', 'a&b', 'a"b', '\x00']

def gen_str(rng, maxn=8):
    r = rng.random()
    if r < 0.04: return ''
    if r < 0.08: return rng.choice(PIECES) * rng.choice([500, 3000, 20000])
    return ''.join(rng.choice(PIECES) for _ in range(rng.randint(1, maxn)))

def gen_url(rng):
    return rng.choice(['http', 'ftp', 'file', 'x', '']) + '://' + gen_str(rng, 5)

def esc_t(s): return s.replace('&', '&amp;').replace('<', '&lt;').replace('>', '&gt;').replace('\r', '&#13;')
def esc_a(s): return esc_t(s).replace('"', '&quot;').replace('\n', '&#10;').replace('\t', '&#9;')

FR_NS = ['urn:x', 'http://example.com/a?b=c&d', 'urn:ietf:params:xml:ns:yang:ietf-interfaces']     # B below the root: see shadow_cases
FR_NAMES = ['a', 'b', 'interfaces', 'config', 'data', 'x-y', 'é', 'filter', 'source', 'target', 'rpc', 'url', 'config']      # incl. names the builders and the profile hooks use themselves (see ENVELOPE_NAMES)

# prefixes a caller uses only INSIDE content (identityref / instance-identifier values, XPath select strings): declared on an
# element, used by no element or attribute name.  One namespace per prefix (re-binding a prefix is the shadow finding's class).
IANA = 'urn:ietf:params:xml:ns:yang:iana-if-type'
IETF_IF = 'urn:ietf:params:xml:ns:yang:ietf-interfaces'
CONTENT_NS = [('ianaift', IANA), ('if', IETF_IF), ('oc-if', 'http://openconfig.net/yang/interfaces?x=1&y'), ('\u00e91', 'urn:example:e9')]

def gen_qcontent(rng, pfs):
    """content whose meaning depends on the bindings of [pfs]: a QName (identityref), a path (instance-identifier / XPath)"""
    p, q = rng.choice(pfs), rng.choice(pfs)
    r = rng.random()
    if r < 0.4: return '%s:%s' % (p, rng.choice(['ethernetCsmacd', 'l2vlan', 'x-y', '\u00e9']))
    if r < 0.85: return "/%s:interfaces/%s:interface[%s:name='%s']/%s:type" % (p, p, p, gen_str(rng, 2).replace("'", '').replace('\r', ''), q)
    return '%s:a %s' % (p, gen_str(rng, 3).replace('\r', ''))

def gen_fragment(rng, depth=0, root=None, ns_choice=None):
    """an XML document as text: default-namespace, prefixed and un-namespaced elements, attributes, mixed text, and prefixes
    that are declared for the sake of content only"""
    name = root or rng.choice(FR_NAMES)
    kind = ns_choice if ns_choice is not None else rng.choice(['none', 'default', 'prefix', 'none', 'default'])
    attrs = ''
    if kind == 'default': attrs += ' xmlns="%s"' % esc_a(rng.choice(FR_NS)); tag = name
    elif kind == 'prefix':
        i = rng.randrange(len(FR_NS)); p = ['p', 'q', 'xc'][i]       # one prefix per namespace: re-binding a prefix is the open finding's class
        attrs += ' xmlns:%s="%s"' % (p, esc_a(FR_NS[i])); tag = p + ':' + name
    else: tag = name
    for k in rng.sample(['k', 'operation', 'type', 'select'], rng.choice([0, 0, 1, 2])):
        attrs += ' %s="%s"' % (k, esc_a(gen_str(rng, 4).replace('\r', '')))
    body = ''
    if rng.random() < 0.3:
        mine = rng.sample(CONTENT_NS, rng.choice([1, 1, 2]))
        for pf, uri in mine: attrs += ' xmlns:%s="%s"' % (pf, esc_a(uri))
        pfs = [pf for pf, _ in mine]
        if rng.random() < 0.4: attrs += ' path="%s"' % esc_a(gen_qcontent(rng, pfs))
        if rng.random() < 0.7: body += esc_t(gen_qcontent(rng, pfs))
    if depth < 3:
        for _ in range(rng.choice([0, 0, 1, 2, 3])):
            if rng.random() < 0.4: body += esc_t(gen_str(rng, 4).replace('\r', ''))
            else: body += gen_fragment(rng, depth + 1)
    return '<%s%s>%s</%s>' % (tag, attrs, body, tag) if body or rng.random() < 0.5 else '<%s%s/>' % (tag, attrs)

def gen_doc(rng, root, rootns):
    """a document rooted at [root] in namespace choice rootns ('none' | 'base' | 'other')"""
    inner = ''.join(gen_fragment(rng, 1) for _ in range(rng.choice([0, 1, 1, 2])))
    if rootns == 'none': return '<%s>%s</%s>' % (root, inner, root)
    if rootns == 'base': return rng.choice(['<%s xmlns="' + B + '">%s</%s>', '<nc:%s xmlns:nc="' + B + '">%s</nc:%s>']) % (root, inner, root)
    return '<%s xmlns="urn:other">%s</%s>' % (root, inner, root)

def gen_filter(rng, allow_bad=True):
    r = rng.random()
    as_ = rng.choice(['str', 'ele'])
    if r < 0.12: return None
    if r < 0.40: return {'kind': 'subtree', 'xml': gen_fragment(rng), 'as': as_}
    if r < 0.55: return {'kind': 'xpath', 'select': gen_str(rng)}
    if r < 0.62: return gen_xpath_ns(rng)
    if r < 0.74: return {'kind': 'list', 'xmls': [gen_fragment(rng) for _ in range(rng.randint(0, 3))], 'as': as_}
    if r < 0.88: return {'kind': 'raw', 'xml': gen_doc(rng, 'filter', rng.choice(['none', 'base'])), 'as': as_}
    if not allow_bad: return None
    return rng.choice([{'kind': 'raw', 'xml': gen_doc(rng, 'notfilter', 'none'), 'as': as_}, {'kind': 'raw', 'xml': gen_doc(rng, 'filter', 'other'), 'as': as_},
                       {'kind': 'badtype'}, {'kind': 'subtree', 'xml': '<a', 'as': 'str'}, {'kind': 'xpath', 'select': rng.choice(INVALID_STR[:8])}])

def gen_xpath_ns(rng):
    """filter=("xpath", (prefix map, select)): the select string uses the map's prefixes"""
    pool = CONTENT_NS + [('p', FR_NS[0]), ('q', FR_NS[1]), ('x', 'urn:x2')]       # not ns0/ns1...: the prefixes lxml invents for the builders' own namespaces (shadow finding, one fixed case)
    items = rng.sample(pool, rng.randint(1, 3))
    sel = gen_qcontent(rng, [pf for pf, _ in items]) if rng.random() < 0.8 else gen_str(rng)
    return {'kind': 'xpath-ns', 'select': sel, 'nsmap': dict(items)}

def gen_ds(rng, bad=0.1):
    r = rng.random()
    if r < bad: return rng.choice(BAD_NAMES)
    if r < bad + 0.35: return gen_url(rng)
    return rng.choice(GOOD_NAMES)

def opt(rng, f, p=0.5): return f() if rng.random() < p else None

def gen_case(rng, op):
    a = {}
    if op == 'get':
        a = dict(filter=gen_filter(rng), with_defaults=opt(rng, lambda: rng.choice(WD_MODES + [' Trim ', 'EXPLICIT\n', 'bogus', '']), 0.4))
    elif op == 'get_config':
        a = dict(source=gen_ds(rng), filter=gen_filter(rng), with_defaults=opt(rng, lambda: rng.choice(WD_MODES + ['Report-All ', 'x']), 0.3))
    elif op == 'edit_config':
        fmt = rng.choice(['xml', 'xml', 'xml', 'text', 'url', 'json'])
        if fmt == 'xml':
            cfg = {'xml': gen_doc(rng, rng.choice(['config'] * 8 + ['data']), rng.choice(['none', 'base', 'base', 'other'])), 'as': rng.choice(['str', 'ele'])}
            if rng.random() < 0.04: cfg = {'xml': '<config>', 'as': 'str'}
        elif fmt == 'text': cfg = gen_str(rng, 12)
        elif fmt == 'url': cfg = rng.choice(['http://h/' + gen_str(rng, 4), 'file:///x', 'nourl', gen_url(rng)])
        else: cfg = 'ignored'
        a = dict(config=cfg, format=fmt, target=gen_ds(rng, 0.05),
                 default_operation=opt(rng, lambda: rng.choice(DEFAULT_OPS * 3 + ['Merge', 'bogus', '']), 0.5),
                 test_option=opt(rng, lambda: rng.choice(TEST_OPTS * 3 + ['test', 'SET']), 0.5),
                 error_option=opt(rng, lambda: rng.choice(ERROR_OPTS * 3 + ['rollback', 'stop-on-error ']), 0.5))
    elif op == 'copy_config':
        r = rng.random()
        if r < 0.5: src = gen_ds(rng)
        else: src = {'xml': gen_doc(rng, rng.choice(['source'] * 6 + ['config']), rng.choice(['none', 'base'])), 'as': rng.choice(['str', 'ele'])}
        a = dict(source=src, target=gen_ds(rng, 0.05))
    elif op == 'delete_config': a = dict(target=gen_ds(rng))
    elif op in ('lock', 'unlock'): a = dict(target=rng.choice(GOOD_NAMES * 3 + BAD_NAMES))
    elif op == 'validate':
        if rng.random() < 0.5: src = gen_ds(rng)
        else: src = {'xml': gen_doc(rng, rng.choice(['config'] * 6 + ['data']), rng.choice(['none', 'base', 'other'])), 'as': 'ele'}
        a = dict(source=src)
    elif op == 'commit':
        a = dict(confirmed=rng.random() < 0.6, timeout=opt(rng, lambda: rng.choice(['600', '0', gen_str(rng)])), persist=opt(rng, lambda: gen_str(rng), 0.4),
                 persist_id=opt(rng, lambda: gen_str(rng), 0.3))
    elif op == 'cancel_commit': a = dict(persist_id=opt(rng, lambda: gen_str(rng)))
    elif op == 'kill_session': a = dict(session_id=rng.choice(['4', gen_str(rng)]))
    elif op == 'create_subscription':
        a = dict(filter=gen_filter(rng), stream_name=opt(rng, lambda: rng.choice(['NETCONF', gen_str(rng)])),
                 start_time=opt(rng, lambda: rng.choice(['2020-01-01T00:00:00Z', gen_str(rng)]), 0.6), stop_time=opt(rng, lambda: gen_str(rng), 0.4))
    elif op == 'get_schema':
        a = dict(identifier=rng.choice(['ietf-interfaces', gen_str(rng)]), version=opt(rng, lambda: gen_str(rng)), format=opt(rng, lambda: rng.choice(['yang', gen_str(rng)])))
    elif op in ('dispatch', 'rpc'):
        if rng.random() < 0.5: cmd = {'name': rng.choice(['get-something', 'clear-arp-table'] + GOOD_NAMES + BAD_NAMES[:6])}
        else: cmd = {'xml': gen_fragment(rng, ns_choice=rng.choice(['none', 'prefix'])), 'as': 'ele'}   # a default namespace on the caller's own command element would capture un-namespaced appended fragments (lxml writes no xmlns="")
        a = dict(rpc_command=cmd, source=opt(rng, lambda: gen_ds(rng, 0.05), 0.5), filter=gen_filter(rng))
        if op == 'rpc':
            a.update(target=opt(rng, lambda: gen_ds(rng, 0.05), 0.4),
                     config=opt(rng, lambda: {'xml': gen_doc(rng, rng.choice(['config'] * 6 + ['data']), rng.choice(['none', 'base'])), 'as': rng.choice(['str', 'ele'])}, 0.4))
    return {'op': op, 'args': a}

def gen_invalid(rng, op):
    """one argument replaced by a member of the invalid stream"""
    c = gen_case(rng, op)
    a = c['args']
    keys = [k for k in TEXT_KEYS.get(op, []) if isinstance(a.get(k), str) or a.get(k) is None]
    if not keys: return None
    k = rng.choice(keys)
    v = rng.choice(INVALID_STR)
    if op == 'edit_config' and k == 'config' and a['format'] not in ('text', 'url'): return None
    if k in ('format', 'default_operation', 'test_option', 'error_option') and not isinstance(v, str): pass
    a[k] = v if isinstance(v, (str, int, float)) else {'py': repr(v)}
    c['invalid'] = k
    return c

TEXT_KEYS = {'get': ['with_defaults'], 'get_config': ['source', 'with_defaults'],
             'edit_config': ['target', 'config', 'default_operation', 'test_option', 'error_option'], 'copy_config': ['target', 'source'],
             'delete_config': ['target'], 'lock': ['target'], 'unlock': ['target'], 'validate': ['source'],
             'commit': ['timeout', 'persist', 'persist_id'], 'cancel_commit': ['persist_id'], 'kill_session': ['session_id'],
             'create_subscription': ['stream_name', 'start_time', 'stop_time'], 'get_schema': ['identifier', 'version', 'format'],
             'dispatch': ['source'], 'rpc': ['source', 'target']}

OPS = ['get', 'get_config', 'edit_config', 'copy_config', 'delete_config', 'lock', 'unlock', 'validate', 'commit', 'cancel_commit',
       'discard_changes', 'close_session', 'kill_session', 'create_subscription', 'get_schema', 'dispatch', 'rpc',
       'poweroff_machine', 'reboot_machine']

# ---------------- case -> python call, model call, expectations ----------------
def adopt(t):
    if t[0] == 'T': return t
    return ['E', t[1] or B, t[2], t[3], [adopt(c) for c in t[4]]]

def parse_frag(xml):
    """independent parse of a caller document; None if ill-formed"""
    from harness import capture
    try: return capture.read_independent(xml)
    except Exception: return None

def py_value(v):
    """JSON case value -> python argument"""
    if isinstance(v, dict) and 'py' in v: return eval(v['py'])
    if isinstance(v, dict) and 'xml' in v:
        if v.get('as') == 'ele':
            from lxml import etree
            return etree.fromstring(v['xml'].encode('utf-8'))
        return v['xml']
    return v

def py_filter(f):
    if f is None: return None
    k = f['kind']
    if k == 'subtree': return ('subtree', py_value(f))
    if k == 'xpath': return ('xpath', py_value(f['select']))
    if k == 'xpath-ns': return ('xpath', ({(pf or None): uri for pf, uri in f['nsmap'].items()}, f['select']))     # '' = the default namespace (lxml: None)
    if k == 'list': return [py_value({'xml': x, 'as': f['as']}) for x in f['xmls']]
    if k == 'raw': return py_value(f)
    if k == 'badtype': return ('bogus', 'x')

def optstr(s): return [] if s is None else [s.encode('utf-8', 'surrogatepass')]

class NoModel(Exception): pass

def is_doc(v): return isinstance(v, dict) and 'xml' in v

def chars_ok(s):
    if not isinstance(s, str): raise NoModel()
    return True

def enc_filter(f):
    from harness import capture
    if f is None: return []
    k = f['kind']
    if k == 'subtree':
        t = parse_frag(f['xml'])
        return [[4, EXC['XMLSyntaxError']]] if t is None else [[0, capture.enc_tree(t)]]
    if k == 'xpath':
        if not isinstance(f['select'], str): raise NoModel()
        return [[1, f['select'].encode('utf-8', 'surrogatepass')]]
    if k == 'xpath-ns': return [[1, f['select'].encode('utf-8')]]
    if k == 'list':
        ts = [parse_frag(x) for x in f['xmls']]
        return [[4, EXC['XMLSyntaxError']]] if any(t is None for t in ts) else [[2, [capture.enc_tree(t) for t in ts]]]
    if k == 'raw':
        t = parse_frag(f['xml'])
        return [[4, EXC['XMLSyntaxError']]] if t is None else [[3, capture.enc_tree(t)]]
    return [[4, EXC['OperationError']]]

def name_ok(n): return n in GOOD_NAMES or n in ('get-something', 'clear-arp-table')

def enc_ds(loc):
    if not isinstance(loc, str): raise NoModel()
    if '://' in loc: return [0, loc.encode('utf-8', 'surrogatepass'), 1]
    if not (name_ok(loc) or loc in BAD_NAMES): raise NoModel()
    return [0, loc.encode('utf-8', 'surrogatepass'), 1 if name_ok(loc) else 0]

def enc_doc(v):
    from harness import capture
    t = parse_frag(v['xml'])
    return None if t is None else capture.enc_tree(t)

def url_valid(u):
    from urllib.parse import urlparse
    try:
        r = urlparse(u); return bool(r.scheme and r.netloc)
    except Exception: return False

def to_model(case):
    """model call (see Glue/C07_glue.v) or raise NoModel for arguments outside the model's domain (non-strings)"""
    op, a = case['op'], case['args']
    def S(k):
        v = a.get(k)
        if v is not None and not isinstance(v, str): raise NoModel()
        return v
    if op == 'get':
        wd = S('with_defaults')
        return [0, enc_filter(a['filter']), optstr(None if wd is None else wd.strip().lower())]
    if op == 'get_config':
        wd = S('with_defaults')
        return [1, enc_ds(a['source']), enc_filter(a['filter']), optstr(None if wd is None else wd.strip().lower())]
    if op == 'edit_config':
        fmt = a['format']
        if fmt == 'xml':
            d = enc_doc(a['config']); cfg = [4, EXC['XMLSyntaxError']] if d is None else [0, d]
        elif fmt == 'text': cfg = [1, S('config').encode('utf-8', 'surrogatepass')]
        elif fmt == 'url': cfg = [2, S('config').encode('utf-8', 'surrogatepass'), 1 if url_valid(a['config']) else 0]
        else: cfg = [3]
        return [2, enc_ds(a['target']), optstr(S('default_operation')), optstr(S('test_option')), optstr(S('error_option')), cfg]
    if op == 'copy_config':
        s = a['source']
        if is_doc(s):
            d = enc_doc(s); src = [2, EXC['XMLSyntaxError']] if d is None else [1, d]
        elif isinstance(s, str) and s.lstrip().startswith('<'): src = [2, EXC['XMLSyntaxError' if parse_frag(s) is None else 'XMLError']]
        else: src = [0, enc_ds(s)]
        return [3, enc_ds(a['target']), src]
    if op == 'delete_config': return [4, enc_ds(a['target'])]
    if op in ('lock', 'unlock'):
        t = a['target']
        if not isinstance(t, str): raise NoModel()
        return [5 if op == 'lock' else 6, t.encode('utf-8', 'surrogatepass'), 1 if name_ok(t) else 0]
    if op == 'validate':
        s = a['source']
        if is_doc(s): src = [1, enc_doc(s)]
        elif isinstance(s, str): src = [0, enc_ds(s)]
        else: raise NoModel()
        return [7, src]
    if op == 'commit':
        return [8, 1 if a['confirmed'] else 0, optstr(S('timeout')), optstr(S('persist')), optstr(S('persist_id'))]
    if op == 'cancel_commit': return [9, optstr(S('persist_id'))]
    if op == 'discard_changes': return [10]
    if op == 'close_session': return [11]
    if op == 'kill_session':
        if not isinstance(a['session_id'], str): raise NoModel()
        return [12, a['session_id'].encode('utf-8', 'surrogatepass')]
    if op == 'create_subscription':
        return [13, enc_filter(a['filter']), optstr(S('stream_name')), optstr(S('start_time')), optstr(S('stop_time'))]
    if op == 'get_schema':
        if not isinstance(a['identifier'], str): raise NoModel()
        return [14, a['identifier'].encode('utf-8', 'surrogatepass'), optstr(S('version')), optstr(S('format'))]
    if op in ('dispatch', 'rpc'):
        c = a['rpc_command']
        cmd = [0, c['name'].encode('utf-8'), 1 if name_ok(c['name']) else 0] if 'name' in c else [1, enc_doc(c)]
        src = [] if a.get('source') is None else [enc_ds(a['source'])]
        if op == 'dispatch': return [15, cmd, src, enc_filter(a['filter'])]
        tgt = [] if a.get('target') is None else [enc_ds(a['target'])]
        cfg = []
        if a.get('config') is not None:
            d = enc_doc(a['config']); cfg = [[4, EXC['XMLSyntaxError']] if d is None else [0, d]]
        return [16, cmd, tgt, src, enc_filter(a['filter']), cfg]
    if op == 'poweroff_machine': return [17]
    if op == 'reboot_machine': return [18]

def to_python(case):
    op, a = case['op'], dict(case['args'])
    kw = {}
    for k, v in a.items():
        if k == 'filter': kw[k] = py_filter(v)
        elif k == 'rpc_command': kw[k] = v['name'] if 'name' in v else py_value(v)
        else: kw[k] = py_value(v)
    return op, kw

# ---------------- oracle: schema + path assertions on the independent reader's tree ----------------
def elems(t): return [c for c in t[4] if c[0] == 'E']
def text_of(t): return ''.join(c[1] for c in t[4] if c[0] == 'T')
def child(t, q):
    m = [c for c in elems(t) if (c[1], c[2]) == q]
    return m[0] if len(m) == 1 else None

def expect_ds(errs, opel, wha, loc):
    w = child(opel, (B, wha))
    if w is None: errs.append('no single <%s>' % wha); return
    ks = elems(w)
    if len(ks) != 1 or text_of(w) != '': errs.append('<%s> does not hold exactly one element' % wha); return
    k = ks[0]
    if '://' in loc:
        if (k[1], k[2]) != (B, 'url') or elems(k) or text_of(k) != loc or k[3]:
            errs.append('url under <%s> is not the caller string: %r' % (wha, text_of(k)))
    else:
        if (k[1], k[2]) != (B, loc) or k[4] or k[3]: errs.append('datastore element under <%s> is %r' % (wha, (k[1], k[2])))

def expect_leaf(errs, opel, q, s):
    k = child(opel, q)
    if s is None:
        if any((c[1], c[2]) == q for c in elems(opel)): errs.append('unexpected %s' % (q,))
        return
    if k is None: errs.append('missing %s' % (q,)); return
    if elems(k) or k[3] or text_of(k) != s: errs.append('%s carries %r, caller gave %r' % (q[1], text_of(k)[:60], s[:60]))

def expect_filter(errs, opel, f, dns, q=(B, 'filter')):
    k = child(opel, q)
    if f is None:
        if any((c[1], c[2]) == q for c in elems(opel)): errs.append('unexpected filter')
        return
    if k is None: errs.append('missing filter %s' % (q,)); return
    fix = adopt if dns else (lambda t: t)
    kind = f['kind']
    if kind in ('xpath', 'xpath-ns'):
        if sorted(k[3]) != sorted([['', 'select', f['select']], ['', 'type', 'xpath']]) or k[4]:
            errs.append('xpath filter attributes %r' % (k[3],))
    elif kind == 'subtree':
        if k[3] != [['', 'type', 'subtree']] or k[4] != [fix(parse_frag(f['xml']))]: errs.append('subtree filter does not hold the caller fragment')
    elif kind == 'list':
        if k[3] != [['', 'type', 'subtree']] or k[4] != [fix(parse_frag(x)) for x in f['xmls']]: errs.append('list filter does not hold the caller fragments')
    elif kind == 'raw':
        t = fix(parse_frag(f['xml']))
        if k[3] != t[3] or k[4] != t[4]: errs.append('raw filter content/attributes altered')

def expect_doc(errs, holder, v, dns, rootname, iosxe=False):
    """the caller document [v] must be a child of [holder], unaltered (root possibly in the base namespace)"""
    t = parse_frag(v['xml'])
    if dns: t = adopt(t)
    if iosxe and (t[1], t[2]) == ('', 'config'): t = ['E', B, 'config', t[3], t[4]]
    cands = [t] + ([['E', B, t[2], t[3], t[4]]] if t[1] == '' else [])
    if not any(c in elems(holder) for c in cands): errs.append('caller <%s> document not found unaltered' % rootname)

def oracle(case, r, dns, iosxe):
    """None if the observed call satisfies the property, else (what, sig)."""
    from harness import capture
    op, a = case['op'], case['args']
    rejected = expected_rejection(case)
    if r['exc'] is not None:
        if r['sent']: return ('raised %s after sending' % r['exc'], 'sent_and_raised')
        if rejected is None: return ('valid call refused locally with %s' % r['exc'], 'valid_call_refused')
        return None
    if rejected is not None:
        return ('%s was not rejected locally (sent=%d)' % (rejected, len(r['sent'])), 'invalid_argument_sent')
    if len(r['sent']) != 1: return ('%d messages sent' % len(r['sent']), 'not_exactly_one_message')
    try:
        root = capture.read_independent(r['sent'][0])
    except Exception as e:
        return ('request is not well-formed XML: %s' % e, 'ill_formed_request')
    if (root[1], root[2]) != (B, 'rpc'): return ('root is %r' % ((root[1], root[2]),), 'root_not_base_rpc')
    if ['', 'message-id', r['msgid']] not in root[3]: return ('message-id attribute missing or not the request id', 'message_id')
    if len(elems(root)) != 1 or text_of(root) != '': return ('rpc has %d element children' % len(elems(root)), 'not_one_operation')
    opel = elems(root)[0]
    errs = check_op(case, opel, dns, iosxe)
    if isinstance(errs, tuple): return errs
    if errs:
        # open finding: a caller document rooted at an UN-namespaced filter/config/source goes out un-namespaced under a
        # prefixed envelope. Signature = the request is right once exactly those roots are read in the base namespace.
        skip = 0
        if op in ('dispatch', 'rpc') and 'xml' in a['rpc_command']:
            skip = len(parse_frag(a['rpc_command']['xml'])[4])      # the caller's own children are not ours to judge
        fixed = qualify_roots(opel, op, skip)
        if fixed is not None:
            e2 = check_op(case, fixed, dns, iosxe)
            if e2 == []: return ('; '.join(errs[:3]), 'unqualified_caller_root')
        return ('; '.join(errs[:3]), sig_of(case, errs))
    return None

def qualify_roots(opel, op, skip=0):
    """opel with its un-namespaced filter/config/source children (and config under source) moved to the base namespace; None if there are none"""
    hit = [False]
    def fix(c, names):
        if c[0] == 'E' and c[1] == '' and c[2] in names:
            hit[0] = True
            return ['E', B, c[2], c[3], c[4]]
        return c
    kids = list(opel[4][:skip])
    for c in opel[4][skip:]:
        c = fix(c, ('filter', 'config', 'source'))
        if op == 'validate' and c[0] == 'E' and (c[1], c[2]) == (B, 'source'):
            c = ['E', c[1], c[2], c[3], [fix(k, ('config',)) for k in c[4]]]
        kids.append(c)
    return ['E', opel[1], opel[2], opel[3], kids] if hit[0] else None

def check_op(case, opel, dns, iosxe):
    op, a = case['op'], case['args']
    errs = []
    if op in SCHEMA:
        q, groups = SCHEMA[op]
        if (opel[1], opel[2]) != q: return ('operation element is %r, schema says %r' % ((opel[1], opel[2]), q), 'operation_name')
        pos = -1
        for c in elems(opel):
            g = [i for i, grp in enumerate(groups) if (c[1], c[2]) in grp]
            if not g: errs.append('child %r not in the schema' % ((c[1], c[2]),)); continue
            if g[0] <= pos: errs.append('child %r out of schema order / repeated' % ((c[1], c[2]),))
            pos = g[0]
        for q2 in REQUIRED.get(op, []):
            if child(opel, q2) is None: errs.append('required child %r missing' % (q2,))
        if text_of(opel) != '' or opel[3]: errs.append('operation element has text/attributes')
    if op == 'get':
        expect_filter(errs, opel, a['filter'], dns)
        expect_leaf(errs, opel, (WD, 'with-defaults'), None if a['with_defaults'] is None else a['with_defaults'].strip().lower())
    elif op == 'get_config':
        expect_ds(errs, opel, 'source', a['source']); expect_filter(errs, opel, a['filter'], dns)
        expect_leaf(errs, opel, (WD, 'with-defaults'), None if a['with_defaults'] is None else a['with_defaults'].strip().lower())
    elif op == 'edit_config':
        expect_ds(errs, opel, 'target', a['target'])
        expect_leaf(errs, opel, (B, 'default-operation'), a['default_operation'])
        expect_leaf(errs, opel, (B, 'test-option'), a['test_option']); expect_leaf(errs, opel, (B, 'error-option'), a['error_option'])
        if a['format'] == 'xml': expect_doc(errs, opel, a['config'], dns, 'config', iosxe)
        elif a['format'] == 'text':
            ct = child(opel, (B, 'config-text'))
            if ct is None: errs.append('missing config-text')
            else: expect_leaf(errs, ct, (B, 'configuration-text'), a['config'])
        elif a['format'] == 'url': expect_leaf(errs, opel, (B, 'url'), a['config'])
    elif op == 'copy_config':
        expect_ds(errs, opel, 'target', a['target'])
        if is_doc(a['source']): expect_doc(errs, opel, a['source'], dns, 'source')
        else: expect_ds(errs, opel, 'source', a['source'])
    elif op == 'delete_config': expect_ds(errs, opel, 'target', a['target'])
    elif op in ('lock', 'unlock'): expect_ds(errs, opel, 'target', a['target'])
    elif op == 'validate':
        if is_doc(a['source']):
            s = child(opel, (B, 'source'))
            if s is None: errs.append('missing source')
            else: expect_doc(errs, s, a['source'], dns, 'config')
        else: expect_ds(errs, opel, 'source', a['source'])
    elif op == 'commit':
        c = a['confirmed']
        if (child(opel, (B, 'confirmed')) is not None) != bool(c): errs.append('confirmed flag')
        expect_leaf(errs, opel, (B, 'confirm-timeout'), a['timeout'] if c else None)
        expect_leaf(errs, opel, (B, 'persist'), a['persist'] if c else None)
        expect_leaf(errs, opel, (B, 'persist-id'), a['persist_id'] or None)
    elif op == 'cancel_commit': expect_leaf(errs, opel, (B, 'persist-id'), a['persist_id'])
    elif op == 'kill_session': expect_leaf(errs, opel, (B, 'session-id'), a['session_id'])
    elif op == 'create_subscription':
        expect_filter(errs, opel, a['filter'], dns, q=(N, 'filter'))
        expect_leaf(errs, opel, (N, 'stream'), a['stream_name']); expect_leaf(errs, opel, (N, 'startTime'), a['start_time'])
        expect_leaf(errs, opel, (N, 'stopTime'), a['stop_time'])
    elif op == 'get_schema':
        expect_leaf(errs, opel, (M, 'identifier'), a['identifier']); expect_leaf(errs, opel, (M, 'version'), a['version'])
        expect_leaf(errs, opel, (M, 'format'), a['format'])
    elif op in ('dispatch', 'rpc'):
        c = a['rpc_command']
        if 'name' in c:
            if (opel[1], opel[2]) != (B, c['name']): errs.append('operation element is not the caller name')
            own = []
        else:
            t = parse_frag(c['xml']); t = adopt(t) if dns else t
            if (opel[1], opel[2], opel[3]) != (t[1], t[2], t[3]) or opel[4][:len(t[4])] != t[4]: errs.append('caller command element altered')
            own = t[4]
        rest = ['E', '', '', [], opel[4][len(own):]]
        if a.get('target') is not None: expect_ds(errs, rest, 'target', a['target'])
        if a.get('source') is not None: expect_ds(errs, rest, 'source', a['source'])
        expect_filter(errs, rest, a['filter'], dns)
        if a.get('config') is not None: expect_doc(errs, rest, a['config'], dns, 'config')
    return errs

def frag_texts(v):
    if isinstance(v, dict):
        if 'xml' in v: yield v['xml']
        for x in v.get('xmls', []): yield x
        for k, x in v.items():
            if isinstance(x, dict): yield from frag_texts(x)

def shadow_pred(case):
    """a caller fragment uses the base namespace BELOW its root (where the fragment may have re-bound the default namespace /
    the nc prefix that the envelope uses for it)"""
    import re
    for v in case['args'].values():      # an XPath prefix map that re-binds the envelope's way of writing the base namespace (nc / default)
        if isinstance(v, dict) and v.get('kind') == 'xpath-ns' and any((pf in ('nc', '') and uri != B) or re.fullmatch(r'ns\d+', pf) for pf, uri in v['nsmap'].items()): return True
    for x in frag_texts(case['args']):
        if re.search(r'xmlns:ns\d+=', x): return True             # ... or a prefix lxml invents for the builders' own namespaces (ns0 = notification / monitoring / with-defaults / vendor)
        if '>' in x and B in x[x.index('>'):]: return True
        bound = {}
        for pfx, uri in re.findall(r'xmlns:([A-Za-z_][\w.-]*)="([^"]*)"', x):
            if bound.setdefault(pfx, uri) != uri: return True       # one prefix bound to two namespaces inside the fragment
    return False

def sig_of(case, errs):
    if shadow_pred(case): return 'envelope_namespace_binding_shadowed'
    return 'schema_or_data:' + case['op']

def shadow_cases():
    e = dict(format='xml', target='running', default_operation=None, test_option=None, error_option=None)
    return [
        dict(profile='default', op='dispatch', args=dict(filter=None, source=None, rpc_command={'as': 'ele', 'xml':
             '<xc:r xmlns:xc="urn:x"><a xmlns="urn:x"><xc:e xmlns:xc="urn:y"><b/></xc:e></a></xc:r>'})),
        dict(profile='alu', op='edit_config', args=dict(e, config={'xml': '<config xmlns="%s"><data xmlns="urn:x"><q:b xmlns:q="%s"/></data></config>' % (B, B), 'as': 'ele'})),
        dict(profile='default', op='edit_config', args=dict(e, config={'xml': '<config xmlns="%s"><nc:data xmlns:nc="urn:x"><b xmlns="%s"/></nc:data></config>' % (B, B), 'as': 'str'})),
        dict(profile='default', op='edit_config', args=dict(e, config={'xml': '<config xmlns="%s"><data xmlns="urn:x"><q:b xmlns:q="%s"/></data></config>' % (B, B), 'as': 'str'})),
    ]

# ---------------- namespace bindings in scope at the caller's elements (tools/harness/nsscope.py, coq/Model/NsScope.v) ----------------
def observe_bindings(case, r):
    """nsscope.observe of the single request of a successful call; None when there is none (or it is ill-formed: the tree oracle's verdict)"""
    from harness import nsscope
    if r['exc'] is not None or len(r['sent']) != 1: return None
    try: return nsscope.observe(case, r['sent'][0])
    except Exception: return None

def binding_verdict(case, r, obs=False):
    """(what, sig) when a namespace binding in scope at an element of a caller document (or an entry of an XPath filter's prefix
    map) is not in scope at that element of the request; None otherwise.  Independent of the tree oracle: it only reads the
    declarations the independent reader reports.  Signatures: the two open findings have exact predicates -
    [redundant_namespace_declaration_dropped]: EVERY lost binding's namespace URI is still bound, under another prefix, in the scope
    of the wire element or of its parent (lxml drops a declaration that repeats a namespace in scope);
    [envelope_namespace_binding_shadowed]: shadow_pred(case).  Anything else: [namespace_binding_lost]."""
    if obs is False: obs = observe_bindings(case, r)
    if obs is None: return None
    lost = [(o['role'], e) for o in obs if o['W'] is not None for e in o['lost']]
    if not lost: return None
    what = '; '.join('%s: binding %s=%r in scope at the caller\'s element %s is %s on the wire' % (
        role, ('xmlns:' + e['prefix']) if e['prefix'] else 'xmlns', e['uri'], '/' + '/'.join(map(str, e['path'])),
        'not in scope' if e['wire'] is None else 'bound to %r' % e['wire']) for role, e in lost[:3])
    if shadow_pred(case): return (what, 'envelope_namespace_binding_shadowed')
    if all(e['redundant'] for _, e in lost): return (what, 'redundant_namespace_declaration_dropped')
    return (what, 'namespace_binding_lost')

def binding_model_calls(case, obs):
    """[(calls, wire declarations per call, role)] for NsScope.place (runner fn 8): own declarations of the caller's elements on the
    wire. A document that occurs more than once in the request (the same fragment given twice, or equal to a part of another one)
    has several candidate places: the model must predict one of them."""
    from harness import nsscope
    if obs is None or shadow_pred(case): return []
    return [([[8, nsscope.enc_scope(c['parent_scope']), nsscope.enc_dtree(o['F'])] for c in o['candidates']],
             [nsscope.own_preorder(o['F'], c['W']) for c in o['candidates']], o['role']) for o in obs if o['W'] is not None]

def check_bindings(ctx, cases, results, kcases):
    """both comparisons for a batch of (case, result): model (disagree) and property (fail)"""
    from harness import nsscope
    calls, meta = [], []
    observed = [observe_bindings(case, r) for case, r in zip(cases, results)]
    for i, (case, r) in enumerate(zip(cases, results)):
        for cs, wire_owns, role in (binding_model_calls(case, observed[i]) if ctx.model else []):
            meta.append((i, len(calls), len(cs), wire_owns, role)); calls += cs
    outs = ctx.model.batch(calls) if calls else []
    for i, at, n, wire_owns, role in meta:
        mos = outs[at:at + n]
        if any(isinstance(mo, str) or (mo and mo[0] == 999) for mo in mos):
            ctx.disagree(kcases[i], repr(mos), None, 'model runner rejected the declaration-skeleton encoding'); continue
        mds = [nsscope.dec_decls(mo) for mo in mos]
        if not any(md == [sorted(d) for d in wo] for md, wo in zip(mds, wire_owns)):
            ctx.disagree(kcases[i], {'role': role, 'declarations': mds[0]}, {'role': role, 'declarations': wire_owns[0]},
                         'NsScope.place vs the namespace declarations on the caller\'s elements in the captured request', theorem='C07_ns_bindings_carried')
    for i, (case, r) in enumerate(zip(cases, results)):
        docs = nsscope.caller_docs(case)
        if docs and r['exc'] is None and len(r['sent']) == 1:
            nb = sum(len(f[6]) for d in docs for f, _ in nsscope.walk(d['F']))
            ctx.hist('ns_bindings_in_scope', '0' if nb == 0 else '1-3' if nb < 4 else '4-15' if nb < 16 else '16+')
        for o in observed[i] or []: ctx.hist('ns_document_on_the_wire', 'located' if o['W'] is not None else 'not located (tree oracle reports it)' if oracle_says_altered(case, r) else 'not located')
        j = binding_verdict(case, r, observed[i])
        ctx.hist('ns_verdict', 'no caller document' if not docs else 'not sent' if r['exc'] is not None or len(r['sent']) != 1 else j[1] if j else 'carried')
        if j: ctx.fail(kcases[i], j[0], sig=j[1], expected='every namespace binding in scope at the caller\'s elements is in scope at the same elements of the request',
                       actual={'sent': [x[:600] for x in r['sent']]})

def oracle_says_altered(case, r):
    try:
        if 'vop' in case:
            from harness import vendorops
            return vendorops.oracle(case, r) is not None
        return oracle(case, r, case['profile'] in DEFAULT_NS_PROFILES, case['profile'] == 'iosxe') is not None
    except Exception: return True

IDREF_DOC = ('<config xmlns="%s"><interfaces xmlns="%s"><interface><name>eth0</name><type xmlns:ianaift="%s">ianaift:ethernetCsmacd</type>'
             '<ref xmlns:oc-if="http://openconfig.net/yang/interfaces" path="/oc-if:interfaces/oc-if:interface">oc-if:x</ref></interface></interfaces></config>' % (B, IETF_IF, IANA))

def binding_cases():
    """fixed cases: on every profile an XPath filter with a prefix map and a <config> with identityref / instance-identifier values
    (string and element); then the two classes the unchanged library is known to alter (open findings)"""
    from harness import capture
    e = dict(format='xml', target='candidate', default_operation=None, test_option=None, error_option=None)
    sel = "/if:interfaces/if:interface[if:type='ianaift:ethernetCsmacd']/if:name"
    out = []
    for prof in capture.PROFILES:
        out.append(dict(profile=prof, op='get_config', args=dict(source='running', with_defaults=None,
                        filter={'kind': 'xpath-ns', 'select': sel, 'nsmap': {'if': IETF_IF, 'ianaift': IANA}})))
        out.append(dict(profile=prof, op='get', args=dict(with_defaults=None, filter={'kind': 'subtree', 'as': 'str', 'xml':
                        '<interfaces xmlns="%s"><interface><type xmlns:ianaift="%s">ianaift:ethernetCsmacd</type></interface></interfaces>' % (IETF_IF, IANA)})))
        for as_ in ('str', 'ele'):
            out.append(dict(profile=prof, op='edit_config', args=dict(e, config={'xml': IDREF_DOC, 'as': as_})))
    # open finding redundant_namespace_declaration_dropped
    red = '<config xmlns="%s"><interfaces xmlns="%s"><interface><ref xmlns:if="%s">/if:interfaces/if:interface</ref></interface></interfaces></config>' % (B, IETF_IF, IETF_IF)
    out += [dict(profile='default', op='edit_config', args=dict(e, config={'xml': red, 'as': 'str'})),
            dict(profile='nexus', op='edit_config', args=dict(e, config={'xml': red, 'as': 'ele'})),
            dict(profile='nexus', op='edit_config', args=dict(e, config={'xml': '<config xmlns="%s"><a xmlns="urn:a"><t xmlns:myif="http://www.cisco.com/nxos:1.0:if_manager">myif:x</t></a></config>' % B, 'as': 'str'})),
            dict(profile='junos', op='edit_config', args=dict(e, config={'xml': '<config xmlns="%s"><a xmlns="urn:a"><t xmlns:base="%s">base:x</t></a></config>' % (B, B), 'as': 'str'})),
            dict(profile='alu', op='get_config', args=dict(source='running', with_defaults=None, filter={'kind': 'xpath-ns', 'select': '/b:x', 'nsmap': {'b': B}}))]
    # open finding envelope_namespace_binding_shadowed: the prefix map re-binds the envelope's own way of writing the base namespace
    out += [dict(profile='default', op='get_config', args=dict(source='running', with_defaults=None, filter={'kind': 'xpath-ns', 'select': '/nc:x', 'nsmap': {'nc': 'urn:mine'}})),
            dict(profile='alu', op='get', args=dict(with_defaults=None, filter={'kind': 'xpath-ns', 'select': '/x', 'nsmap': {'': 'urn:dflt'}})),
            dict(profile='alu', op='create_subscription', args=dict(stream_name=None, start_time=None, stop_time=None, filter={'kind': 'xpath-ns', 'select': '/ns0:x', 'nsmap': {'ns0': 'urn:q'}})),
            dict(profile='default', op='create_subscription', args=dict(stream_name=None, start_time=None, stop_time=None, filter={'kind': 'raw', 'as': 'str', 'xml': '<filter xmlns:ns0="urn:q" type="xpath" select="/ns0:x"/>'}))]
    return out

# ---------------- caller data NAMED LIKE the envelope (round 5; the profiles' hooks: transform_edit_config) ----------------
# names of the elements the builders, RPC._wrap and the device profiles' hooks create or look for themselves: a data model may use
# every one of them (OpenConfig has a <config> container in every list entry; <source>, <target>, <filter>, <url>, <data> are ordinary leaves)
ENVELOPE_CORE = ['config', 'filter', 'source', 'target', 'url', 'rpc', 'data']       # what the hooks / builders patch, rename or search for
ENVELOPE_NAMES = ENVELOPE_CORE * 3 + ['config', 'edit-config', 'get-config', 'get', 'copy-config', 'validate',
                  'running', 'candidate', 'default-operation', 'test-option', 'error-option', 'config-text', 'configuration-text', 'with-defaults',
                  'create-subscription', 'stream', 'startTime', 'rpc-reply', 'ok', 'hello', 'capabilities', 'session-id', 'configuration', 'action']
ENVELOPE_ATTRS = ['type', 'select', 'message-id', 'operation', 'format']
def short_str(rng, maxn=3): return ''.join(rng.choice(PIECES) for _ in range(rng.randint(0, maxn))).replace('\r', '')
FOREIGN = FR_NS[0]          # written with prefix p (one prefix per namespace, as in gen_fragment) or as a default namespace

def env_elem(rng, st, kind, depth, own=None, allow_default=True):
    """one element named like an envelope element, [depth] levels of such elements below it.
    st = (default namespace in scope: None | 'B' | 'F', nc bound to the base namespace, p bound to FOREIGN).
    kind = namespace class of the elements: 'none' | 'base' | 'foreign' | 'mixed' (drawn per element).  An element of class 'none' can only be
    written where no default namespace is in scope, one of class 'base' only through a binding the ROOT of the document made (a declaration of
    the base namespace below the root, or nc: below a foreign default namespace, is the class of the open finding envelope_namespace_binding_shadowed):
    where a class cannot be written the element is written bare, i.e. in the default namespace in scope."""
    default, nc, pb = st
    want = kind if kind != 'mixed' else rng.choice(['none', 'base', 'foreign'])
    name = own if (own and rng.random() < 0.5) else rng.choice(ENVELOPE_NAMES)
    decl = ''; tag = name
    if want == 'base' and default != 'B' and nc and default is None: tag = 'nc:' + name
    elif want == 'foreign' and default != 'F':
        if pb: tag = 'p:' + name
        elif allow_default and rng.random() < 0.5: decl = ' xmlns="%s"' % FOREIGN; default = 'F'
        else: decl = ' xmlns:p="%s"' % FOREIGN; tag = 'p:' + name; pb = True
    attrs = decl
    for k in rng.sample(ENVELOPE_ATTRS, rng.choice([0, 0, 1, 2])): attrs += ' %s="%s"' % (k, esc_a(short_str(rng, 3)))
    body = ''
    if depth > 0:
        for _ in range(rng.choice([1, 1, 2, 3])):
            if rng.random() < 0.2: body += esc_t(short_str(rng, 3))
            body += env_elem(rng, (default, nc, pb), kind, depth - 1, own)
    elif rng.random() < 0.8:        # a leaf: text, half of the time with leading / trailing white space (a hook must not normalise it)
        pad = lambda: rng.choice(['', '', ' ', '\n', '\t ', '  '])
        body = esc_t(pad() + short_str(rng, 4) + pad())
    return '<%s%s>%s</%s>' % (tag, attrs, body, tag)

ROOT_FORMS = {'none': ('<%s>%s</%s>', (None, False, False)), 'base-default': ('<%s xmlns="' + B + '">%s</%s>', ('B', False, False)),
              'base-nc': ('<nc:%s xmlns:nc="' + B + '">%s</nc:%s>', (None, True, False))}
KIND_ROOTS = {'none': ['none', 'base-nc'], 'base': ['base-default', 'base-nc'], 'foreign': ['none', 'base-default', 'base-nc'], 'mixed': ['none', 'base-default', 'base-nc']}

def env_doc(rng, root, rootform, kind, depth=None):
    """a document rooted at the parameter element [root] (config / filter / source) whose content is named like the envelope; its first
    child is named like the root itself half of the time"""
    fmt, st = ROOT_FORMS[rootform]
    depth = rng.choice([0, 1, 2, 2]) if depth is None else depth
    inner = ''.join(env_elem(rng, st, kind, depth, own=root) for _ in range(rng.choice([1, 2, 3])))
    return fmt % (root, inner, root)

def env_top(rng, kind, own, allow_default=True):
    """a fragment without a parameter root (subtree filter, the caller's own command element): the top element itself is named like the envelope"""
    if kind == 'base':
        if allow_default: return env_doc(rng, rng.choice([own, 'rpc', 'config', 'filter']), 'base-default', 'base')
        return env_doc(rng, rng.choice([own, 'rpc', 'config']), 'base-nc', rng.choice(['base', 'none']))
    return env_elem(rng, (None, False, False), kind, rng.choice([1, 2]), own, allow_default)

def envelope_name_protos(rng):
    """[(op, args)]: every way a standard operation takes a caller document x namespace class of the envelope-like names x str / element"""
    e = dict(format='xml', target='running', default_operation=None, test_option=None, error_option=None)
    sub = dict(stream_name=None, start_time=None, stop_time=None)
    out = []
    for kind in ('none', 'base', 'foreign', 'mixed'):
        for as_ in ('str', 'ele'):
            D = lambda root, rf: {'xml': env_doc(rng, root, rf, kind), 'as': as_}
            for rf in KIND_ROOTS[kind]:
                out.append(('edit_config', dict(e, config=D('config', rf), default_operation=rng.choice([None, 'merge']), target=rng.choice(['running', 'candidate']))))
            rf = lambda: rng.choice(KIND_ROOTS[kind])
            out.append(('rpc', dict(rpc_command={'name': 'get-something'}, source=None, target='candidate', filter=None, config=D('config', rf()))))
            out.append(('validate', dict(source={'xml': env_doc(rng, 'config', rf(), kind), 'as': 'ele'})))
            out.append(('copy_config', dict(target='startup', source=D('source', rf()))))
            out.append(('get', dict(with_defaults=None, filter={'kind': 'raw', 'xml': env_doc(rng, 'filter', rf(), kind), 'as': as_})))
            out.append(('get', dict(with_defaults=None, filter={'kind': 'subtree', 'xml': env_top(rng, kind, 'filter'), 'as': as_})))
            out.append(('get_config', dict(source='running', with_defaults=None, filter={'kind': 'list', 'xmls': [env_top(rng, kind, 'filter'), env_top(rng, kind, 'config')], 'as': as_})))
            out.append(('create_subscription', dict(sub, filter={'kind': 'subtree', 'xml': env_top(rng, kind, 'filter'), 'as': as_})))
            out.append(('create_subscription', dict(sub, filter={'kind': 'raw', 'xml': env_doc(rng, 'filter', rf(), kind), 'as': as_})))
            out.append(('dispatch', dict(rpc_command={'xml': env_top(rng, kind, 'edit-config', allow_default=False), 'as': 'ele'}, source=None,
                                         filter={'kind': 'subtree', 'xml': env_top(rng, kind, 'filter'), 'as': as_})))
    return out

def envelope_name_cases(rng, tier):
    """each proto under ALL 14 profiles (the same document: the requests of one proto are compared across profiles by profile_frame)"""
    from harness import capture
    groups = []
    for _ in range(1 if tier == 'quick' else 8):
        for op, args in envelope_name_protos(rng):
            groups.append([dict(profile=prof, op=op, args=json.loads(json.dumps(args))) for prof in capture.PROFILES
                           if not (prof == 'junos' and op == 'rpc')])        # junos overrides rpc (vendor block)
    return groups

def blank_mid(t):
    return ['E', t[1], t[2], [[a[0], a[1], '' if (a[0], a[1]) == ('', 'message-id') else a[2]] for a in t[3]], t[4]]

def hook_expect(opel):
    """what a profile hook documented as 'patch the namespace of the un-namespaced <config> parameter' may do to the operation element"""
    bare = [i for i, c in enumerate(opel[4]) if c[0] == 'E' and (c[1], c[2]) == ('', 'config')]
    if len(bare) != 1: return opel
    kids = list(opel[4]); c = kids[bare[0]]; kids[bare[0]] = ['E', B, 'config', c[3], c[4]]
    return ['E', opel[1], opel[2], opel[3], kids]

def profile_frame(group, results):
    """The quantifier of C07: device profiles change prefixes / the default namespace of the envelope - nothing an independent reader of the
    request sees, except (R3) that un-namespaced elements are read in the base namespace under a default-namespace envelope and (iosxe, edit-config)
    that the un-namespaced <config> parameter is in the base namespace.  One call, all profiles: the request under each profile is the request
    under the default profile modulo exactly that.  -> [(index, what, sig, expected, actual)]"""
    from harness import capture
    def tree(r):
        if r['exc'] is not None or len(r['sent']) != 1: return ('refused', r['exc'], len(r['sent']))
        try: return blank_mid(capture.read_independent(r['sent'][0]))
        except Exception: return ('ill-formed',)
    ref = [i for i, c in enumerate(group) if c['profile'] == 'default']
    if not ref: return []
    t0 = tree(results[ref[0]]); out = []
    for i, (case, r) in enumerate(zip(group, results)):
        if i == ref[0]: continue
        exp = t0
        if isinstance(exp, list):
            if case['profile'] == 'iosxe' and case['op'] == 'edit_config' and len(elems(exp)) == 1:
                exp = ['E', exp[1], exp[2], exp[3], [hook_expect(elems(exp)[0])]]
            if case['profile'] in DEFAULT_NS_PROFILES: exp = adopt(exp)
        got = tree(r)
        if got != exp:
            out.append((i, 'the request of the same call differs between the profiles default and %s in more than the envelope\'s namespace handling' % case['profile'],
                        'profile_changes_request', exp, got))
    return out

def run_envelope_names(ctx):
    groups = envelope_name_cases(ctx.rng, ctx.tier)
    flat = [c for g in groups for c in g]
    results = run_cases(ctx, flat)
    at = 0
    for g in groups:
        rs = results[at:at + len(g)]; at += len(g)
        ctx.hist('envelope_names', g[0]['op'])
        for i, what, sig, exp, got in profile_frame(g, rs):
            if shadow_pred(g[i]): sig = 'envelope_namespace_binding_shadowed'
            ctx.fail(json.loads(key_of(g[i])), what, sig=sig, expected={'tree under the default profile, as this profile\'s reader sees it': str(exp)[:1500]}, actual={'tree': str(got)[:1500], 'sent': [x[:600] for x in rs[i]['sent']]})

# ---- the hooks themselves, on arbitrary trees (runner fn 12: Builders.transform_edit_config) ----
def hook_docs(rng, n):
    """<edit-config>-like elements with 0..3 un-namespaced <config> DIRECT children among other children named like the envelope, in all
    namespace classes, each with envelope-named content"""
    out = []
    for j in range(n):
        k = [0, 1, 1, 2, 3, 1][j % 6]
        st = (None, True, False)
        kids = [env_doc(rng, 'config', 'none', rng.choice(['none', 'foreign', 'mixed']), rng.choice([0, 1, 2])) for _ in range(k)]
        kids += ['<nc:target><nc:running/></nc:target>'] * rng.choice([0, 1])
        kids += [env_elem(rng, st, rng.choice(['none', 'base', 'foreign', 'mixed']), rng.choice([0, 1, 2]), 'config') for _ in range(rng.choice([0, 1, 2]))]
        if rng.random() < 0.3: kids.append('<nc:config>%s</nc:config>' % env_elem(rng, st, 'none', 1, 'config'))
        if rng.random() < 0.3: kids.append('<filter><config>%s</config></filter>' % esc_t(short_str(rng, 3)))
        rng.shuffle(kids)
        root = rng.choice(['nc:edit-config', 'nc:edit-config', 'config', 'nc:config', 'p:edit-config', 'rpc'])
        out.append('<%s xmlns:nc="%s" xmlns:p="%s">%s</%s>' % (root, B, FOREIGN, ''.join(kids), root))
    return out

def hook_run(profile, doc):
    """the profile's real handler on the parsed document -> canonical tree of what it returns | ('exc', name) | ('returned', type name)"""
    from lxml import etree
    from ncclient import manager
    from harness import capture
    dh = manager.make_device_handler({'name': profile})
    node = etree.fromstring(doc.encode('utf-8'))
    try: res = dh.transform_edit_config(node)
    except Exception as e: return ('exc', type(e).__name__)
    if not isinstance(res, etree._Element): return ('returned', type(res).__name__)
    return capture.read_independent(etree.tostring(res, encoding='unicode'))

def hook_verdict(case, before, after):
    """(what, sig) when the hook touched anything but the NAME of a direct un-namespaced <config> child (-> {base}config)"""
    if not isinstance(after, list): return ('the hook did not return a tree: %r' % (after,), 'hook_alters_caller_data')
    if (after[1], after[2], after[3]) != (before[1], before[2], before[3]) or len(after[4]) != len(before[4]):
        return ('the hook changed the name / attributes / number of children of the element it was given', 'hook_alters_caller_data')
    for x, y in zip(before[4], after[4]):
        if x == y: continue
        if x[0] == 'E' and y[0] == 'E' and (x[1], x[2]) == ('', 'config') and (y[1], y[2]) == (B, 'config') and x[3:] == y[3:]: continue
        return ('the hook altered a child other than by moving an un-namespaced <config> to the base namespace: %s -> %s' % (str(x)[:200], str(y)[:200]), 'hook_alters_caller_data')
    return None

def judge_hook(case):
    from harness import capture
    before = capture.read_independent(case['doc']); after = hook_run(case['profile'], case['doc'])
    return after, hook_verdict(case, before, after)

def run_hooks(ctx):
    from harness import capture
    docs = hook_docs(ctx.rng, 12 if ctx.tier == 'quick' else 120)
    cases = [dict(hook='transform_edit_config', profile=prof, doc=d) for d in docs for prof in capture.PROFILES]
    befores = [capture.read_independent(c['doc']) for c in cases]
    afters = [hook_run(c['profile'], c['doc']) for c in cases]
    outs = ctx.model.batch([[12, 1 if c['profile'] == 'iosxe' else 0, capture.enc_tree(b)] for c, b in zip(cases, befores)]) if ctx.model else None
    for i, (c, b, a) in enumerate(zip(cases, befores, afters)):
        ctx.count(c, nontrivial=True, key=key_of(c))
        nb = sum(1 for k in b[4] if k[0] == 'E' and (k[1], k[2]) == ('', 'config'))
        ctx.hist('hook_bare_config_children', nb); ctx.hist('hook_outcome', 'unchanged' if a == b else 'changed' if isinstance(a, list) else str(a))
        j = hook_verdict(c, b, a)
        if j: ctx.fail(c, j[0], sig=j[1], expected='the tree it was given, an un-namespaced <config> direct child possibly in the base namespace', actual=str(a)[:1500])
        if outs is not None:
            mo = outs[i]
            if isinstance(mo, str) or (mo and mo[0] == 999): ctx.disagree(c, repr(mo), None, 'model runner rejected the tree encoding (hook)'); continue
            mt = capture.model_tree(mo)
            if mt != a: ctx.disagree(c, mt, a, 'Builders.transform_edit_config vs the profile handler\'s transform_edit_config', theorem='C07_hook_frame')

def invalid_text(s):
    if not isinstance(s, str): return True
    return any((ord(ch) < 32 and ch not in '\t\n\r') or ord(ch) in (0xFFFE, 0xFFFF) or 0xD800 <= ord(ch) <= 0xDFFF for ch in s)

def expected_rejection(case):
    """a reason why the property demands local rejection (independent statement), or None"""
    op, a = case['op'], case['args']
    def ds_bad(v): return (not isinstance(v, str)) or invalid_text(v) or ('://' not in v and not name_ok(v))
    def filt_bad(f):
        if f is None: return False
        k = f['kind']
        if k == 'badtype': return True
        if k in ('xpath', 'xpath-ns'): return invalid_text(f['select'])
        if k == 'subtree': return parse_frag(f['xml']) is None
        if k == 'list': return any(parse_frag(x) is None for x in f['xmls'])
        t = parse_frag(f['xml']); return t is None or (t[1], t[2]) not in (('', 'filter'), (B, 'filter'), (N, 'filter'))
    def doc_bad(v, names):
        t = parse_frag(v['xml']); return t is None or (t[1], t[2]) not in names
    def txt_bad(k): return a.get(k) is not None and invalid_text(a[k])
    if op in ('get', 'get_config'):
        if op == 'get_config' and ds_bad(a['source']): return 'bad source'
        if filt_bad(a['filter']): return 'bad filter'
        wd = a['with_defaults']
        if wd is not None and (not isinstance(wd, str) or wd.strip().lower() not in WD_MODES): return 'with-defaults mode outside the advertised set'
    elif op == 'edit_config':
        if ds_bad(a['target']): return 'bad target'
        for k, al in (('default_operation', DEFAULT_OPS), ('test_option', TEST_OPTS), ('error_option', ERROR_OPTS)):
            if a[k] is not None and a[k] not in al: return '%s outside its enumerated set' % k
        if a['format'] == 'xml' and doc_bad(a['config'], (('', 'config'), (B, 'config'))): return 'bad config document'
        if a['format'] == 'text' and invalid_text(a['config']): return 'bad config text'
        if a['format'] == 'url' and (invalid_text(a['config']) or not url_valid(a['config'])): return 'bad config url'
    elif op == 'copy_config':
        if ds_bad(a['target']): return 'bad target'
        s = a['source']
        if is_doc(s):
            if doc_bad(s, (('', 'source'), (B, 'source'))): return 'bad source document'
        elif isinstance(s, str) and s.lstrip().startswith('<'): return 'bad source document'
        elif ds_bad(s): return 'bad source'
    elif op == 'delete_config':
        if ds_bad(a['target']): return 'bad target'
    elif op in ('lock', 'unlock'):
        if ds_bad(a['target']) or '://' in a['target']: return 'bad target'
    elif op == 'validate':
        s = a['source']
        if is_doc(s):
            if doc_bad(s, (('', 'config'), (B, 'config'))): return 'bad config document'
        elif ds_bad(s): return 'bad source'
    elif op == 'commit':
        if a['persist'] and a['persist_id']: return 'persist with persist-id'
        if a['confirmed'] and (txt_bad('timeout') or txt_bad('persist')): return 'bad text'
        if a['persist_id'] and txt_bad('persist_id'): return 'bad text'
    elif op == 'cancel_commit':
        if txt_bad('persist_id'): return 'bad text'
    elif op == 'kill_session':
        if invalid_text(a['session_id']): return 'bad text'
    elif op == 'create_subscription':
        if filt_bad(a['filter']): return 'bad filter'
        if txt_bad('stream_name') or txt_bad('start_time') or txt_bad('stop_time'): return 'bad text'
        if a['stop_time'] is not None and a['start_time'] is None: return 'stop_time without start_time'
    elif op == 'get_schema':
        if invalid_text(a['identifier']) or txt_bad('version') or txt_bad('format'): return 'bad text'
    elif op in ('dispatch', 'rpc'):
        c = a['rpc_command']
        if 'name' in c and not name_ok(c['name']): return 'bad command name'
        for k in ('target', 'source'):
            if a.get(k) is not None and ds_bad(a[k]): return 'bad ' + k
        if filt_bad(a['filter']): return 'bad filter'
        if a.get('config') is not None and doc_bad(a['config'], (('', 'config'), (B, 'config'))): return 'bad config document'
    return None

# ---------------- running ----------------
def key_of(case): return json.dumps(case, sort_keys=True, default=repr)

def impl_run(case):
    from harness import capture
    m, s = capture.make_manager(case['profile'], FULL_CAPS)
    method, kw = to_python(case)
    return capture.call(m, s, method, kwargs=kw)

def carried(case):
    def has(v):
        if isinstance(v, str): return True
        if isinstance(v, dict): return any(has(x) for x in v.values())
        if isinstance(v, list): return any(has(x) for x in v)
        return False
    return has(case['args'])

def run_cases(ctx, cases):
    from harness import capture
    mcalls, midx = [], []
    results = []
    for i, case in enumerate(cases):
        r = impl_run(case)
        results.append(r)
        try:
            mc = None if shadow_pred(case) else to_model(case)      # lxml's namespace reconciliation is not modelled
        except NoModel:
            mc = None
        if mc is not None and ctx.model:
            prof = [1 if case['profile'] in DEFAULT_NS_PROFILES else 0, 1 if case['profile'] == 'iosxe' else 0]
            mcalls.append([1, prof, (r['msgid'] or 'mid').encode(), mc]); midx.append(i)
    outs = ctx.model.batch(mcalls) if mcalls else []
    mout = dict(zip(midx, outs))
    for i, (case, r) in enumerate(zip(cases, results)):
        kcase = json.loads(key_of(case))
        ctx.count(case, nontrivial=carried(case), key=key_of(case))
        ctx.hist('op', case['op']); ctx.hist('profile', case['profile']); ctx.hist('impl_outcome', r['exc'] or 'sent')
        if ctx.evaluations % 701 == 1: ctx.sample({'case': kcase, 'exc': r['exc'], 'sent': [x[:300] for x in r['sent']]})
        dns = case['profile'] in DEFAULT_NS_PROFILES
        if i in mout:
            mo = mout[i]
            if isinstance(mo, str) or mo[0] == 999:
                ctx.disagree(kcase, repr(mo), None, 'model runner rejected the call encoding')
            elif mo[0] == 1:
                me = EXC_REV[mo[1]]
                if {'UnicodeEncodeError': 'ValueError'}.get(r['exc'], r['exc']) != me or r['sent']:     # UnicodeEncodeError is a ValueError
                    ctx.disagree(kcase, {'exc': me}, {'exc': r['exc'], 'nsent': len(r['sent'])}, 'Builders.build vs Manager call (exception)', theorem='C07_conforms/C07_enum_reject')
            else:
                mt = capture.model_tree(mo[1])
                try: it = capture.read_independent(r['sent'][0]) if len(r['sent']) == 1 else None
                except Exception: it = 'ill-formed'
                if r['exc'] is not None or it != mt:
                    ctx.disagree(kcase, mt, it if r['exc'] is None else {'exc': r['exc']}, 'Builders.build vs captured request tree', theorem='C07_conforms')
        j = oracle(case, r, dns, case['profile'] == 'iosxe')
        if j: ctx.fail(kcase, j[0], sig=j[1], expected='schema instance carrying the caller data / local rejection', actual={'exc': r['exc'], 'sent': [x[:400] for x in r['sent']]})
    check_bindings(ctx, cases, results, [json.loads(key_of(c)) for c in cases])
    return results

def judge(case):
    """(result, first verdict of the tree oracle and the binding oracle)"""
    r = impl_run(case)
    return r, (oracle(case, r, case['profile'] in DEFAULT_NS_PROFILES, case['profile'] == 'iosxe') or binding_verdict(case, r))

def escape_micro(ctx, rng, n):
    """escape_text / escape_attr vs lxml byte-exactly; unescape and expat give the string back"""
    from lxml import etree
    import xml.etree.ElementTree as ET
    strs = [''] + PIECES + [gen_str(rng, 10) for _ in range(n)] + [chr(c) for c in range(0x20, 0x100)] + ['\t', '\n', '\r']
    calls = []
    for s in strs:
        b = s.encode('utf-8'); calls += [[2, b], [3, b]]
    outs = ctx.model.batch(calls) if ctx.model else None
    for i, s in enumerate(strs):
        e = etree.Element('a'); e.text = s; e.set('k', s)
        ser = etree.tostring(e, encoding='UTF-8').decode('utf-8')
        ser = ser[ser.index('<a'):]
        lx_attr = ser[len('<a k="'):ser.index('"', len('<a k="'))]
        lx_text = '' if ser.endswith('/>') else ser[ser.index('>') + 1:ser.rindex('</a>')]
        ctx.count({'escape': s[:50]}, nontrivial=True, key='esc:' + s)
        back = ET.fromstring(ser.encode('utf-8'))
        if (back.text or '') != s or back.get('k') != s:
            ctx.fail({'escape': s}, 'lxml-serialised value does not read back as the caller string', sig='escape_roundtrip', expected=s, actual=[back.text, back.get('k')])
        if outs is not None:
            mt, ma = outs[2 * i].decode('utf-8'), outs[2 * i + 1].decode('utf-8')
            if mt != lx_text: ctx.disagree({'escape_text': s}, mt, lx_text, 'Escape.escape_text vs lxml', theorem='C07_escape_roundtrip')
            if ma != lx_attr: ctx.disagree({'escape_attr': s}, ma, lx_attr, 'Escape.escape_attr vs lxml', theorem='C07_escape_roundtrip')
    if outs is not None:
        un = ctx.model.batch([[4, o] for o in outs])
        for j, u in enumerate(un):
            if u != strs[j // 2].encode('utf-8'): ctx.disagree({'unescape': strs[j // 2]}, u, strs[j // 2], 'unescape(escape s) in the extracted model')

def gen_cases(rng, tier):
    from harness import capture
    cases = []
    per = 9 if tier == 'quick' else 90
    for prof in capture.PROFILES:
        for op in OPS:
            if prof == 'junos' and op in ('rpc', 'commit'): continue      # overridden by vendor classes (not modelled)
            if prof == 'sros' and op == 'commit': continue
            k = per if op not in ('discard_changes', 'close_session', 'poweroff_machine', 'reboot_machine') else 1
            for _ in range(k):
                c = gen_case(rng, op); c['profile'] = prof; cases.append(c)
            for _ in range(max(1, k // 4)):
                c = gen_invalid(rng, op)
                if c: c['profile'] = prof; cases.append(c)
    return cases

WD_URI_VARIANTS = ['with-defaults:1.0?basic-mode=%s' % b for b in ('report-all', 'trim', 'explicit', 'report-all-tagged')] + [
    'with-defaults:1.0?basic-mode=trim&also-supported=report-all-tagged', 'with-defaults:1.0?also-supported=trim,explicit&basic-mode=report-all',
    'with-defaults:1.0?basic-mode=explicit&also-supported=report-all,report-all-tagged,trim']
WD_OUTSIDE = ['report', 'all', 'tri', 'trim-', 'e', '-', '', ' ', 'report-all-tag', 'tagged', 'explici', 'bogus', 'trim,explicit', 'TRIM?', 'report-all report-all-tagged']

def enum_with_defaults(ctx):
    """A with-defaults value outside the RFC 6243 enumerated set is rejected locally, with nothing sent, whatever
    with-defaults URI the server advertised (the set of values an advertised URI allows is C09's subject)."""
    from harness import capture
    for wd_uri in WD_URI_VARIANTS:
        caps = [u for u in FULL_CAPS if 'with-defaults' not in u] + [A + wd_uri]
        for profile in ('default', 'junos', 'nexus'):
            m, sess = capture.make_manager(profile, caps)
            for val in WD_OUTSIDE:
                for op in ('get', 'get_config'):
                    kw = dict(with_defaults=val) if op == 'get' else dict(source='running', with_defaults=val)
                    r = capture.call(m, sess, op, (), kw)
                    case = {'check': 'enum_with_defaults', 'profile': profile, 'server_wd': wd_uri, 'op': op, 'value': val}
                    ctx.count(case, key=['ewd', wd_uri, profile, op, val]); ctx.hist('enum_wd_exc', r['exc'])
                    if r['exc'] is None or r['sent']:
                        ctx.fail(case, 'with_defaults=%r (outside the enumerated set) on a server advertising %s: exception %r, %d message(s) sent'
                                 % (val, wd_uri, r['exc'], len(r['sent'])), sig=None, expected='rejected locally, nothing sent',
                                 actual=[r['exc'], len(r['sent'])])

# ---------------- vendor operation classes (third_party/*/rpc.py): tools/harness/vendorops.py ----------------
def vendor_cases(ctx):
    """every modelled vendor class x the profile that ships it: model (VendorBuilders.v, runner fn 6) vs captured request read by
    the independent reader, and the vendor-schema + path-assertion oracle"""
    from harness import vendorops
    vendorops.run(ctx)

def run(ctx):
    from vlib import paths
    from harness import vendorops
    enum_with_defaults(ctx)
    for f in sorted(glob.glob(os.path.join(paths.CORPUS, 'C07', '*.json'))):
        c = json.load(open(f))['case']
        if 'vop' in c: vendorops.run_vendor_cases(ctx, [c])
        else: run_cases(ctx, [c])
    run_cases(ctx, binding_cases())
    run_envelope_names(ctx)
    run_hooks(ctx)
    vendor_cases(ctx)
    escape_micro(ctx, ctx.rng, 300 if ctx.tier == 'quick' else 5000)
    run_cases(ctx, shadow_cases())
    run_cases(ctx, gen_cases(ctx.rng, ctx.tier))
    from harness import carries          # C07_carries: template instances vs captured requests; one-argument-varied pairs (frame oracle)
    carries.run(ctx)
    from harness import histories        # 3-6 calls on ONE manager: every call as if it were the first; server capabilities untouched; one-shot iterables
    histories.run(ctx)

def search(ctx, seeds):
    from harness import vendorops
    from vlib import findings
    tries = list(seeds) + binding_cases() + [c for g in envelope_name_cases(ctx.rng, 'quick') for c in g] + vendorops.gen_vendor_cases(ctx.rng, 'quick') + gen_cases(ctx.rng, 'quick')
    tries += [dict(hook='transform_edit_config', profile=prof, doc=d) for d in hook_docs(ctx.rng, 12) for prof in ('iosxe', 'default', 'junos', 'alu')]
    tries += [c for g in envelope_name_cases(ctx.rng, 'thorough') for c in g]          # the tie of a hook broke: the same class of cases, eight times as many
    for case in tries:
        if 'hook' in case:
            try: a, j = judge_hook(case)
            except Exception: continue
            if j: return dict(case=json.loads(key_of(case)), what=j[0], sig=j[1], expected='the tree the hook was given, an un-namespaced <config> direct child possibly in the base namespace', actual=str(a)[:1500])
            continue
        if 'vop' in case:
            try: r, j = vendorops.judge(case)
            except Exception: continue
            if j and not findings.covered(ID, j[1]): return dict(case=json.loads(key_of(case)), what=j[0], sig=j[1], expected='vendor schema instance / local rejection', actual={'exc': r['exc'], 'sent': [x[:400] for x in r['sent']]})
            continue
        if 'op' not in case: continue
        try:
            r, j = judge(case)
        except Exception:
            continue
        if j and not findings.covered(ID, j[1]): return dict(case=json.loads(key_of(case)), what=j[0], sig=j[1], expected='schema instance / local rejection', actual={'exc': r['exc'], 'sent': [x[:400] for x in r['sent']]})
    from harness import carries, histories
    return carries.search(ctx) or histories.search(ctx)

def reproduce(finding):
    case = finding['witness']
    if 'history' in case:
        from harness import histories
        return bool(histories.judge(case))
    if 'carries_pair' in case:
        from harness import carries
        return carries.reproduce(case)
    if 'vop' in case:
        from harness import vendorops
        return vendorops.judge(case)[1] is not None
    if 'hook' in case: return judge_hook(case)[1] is not None
    return judge(case)[1] is not None

def _replay_enum(c):
    from harness import capture
    caps = [u for u in FULL_CAPS if 'with-defaults' not in u] + [A + c['server_wd']]
    m, sess = capture.make_manager(c['profile'], caps)
    kw = dict(with_defaults=c['value']) if c['op'] == 'get' else dict(source='running', with_defaults=c['value'])
    r = capture.call(m, sess, c['op'], (), kw)
    print('case     :', c); print('expected : rejected locally, nothing sent'); print('actual   :', r['exc'], len(r['sent']), 'sent')
    return r['exc'] is not None and not r['sent']

def replay(doc):
    from vlib import findings
    if doc.get('case', {}).get('check') == 'enum_with_defaults':
        return _replay_enum(doc['case'])
    case = doc['case']
    if 'history' in case:
        from harness import histories
        return histories.replay(case)
    if 'carries_pair' in case:
        from harness import carries
        return carries.replay(case)
    if 'vop' in case:
        from harness import vendorops
        r, j = vendorops.judge(case)
        print('case     :', case)
        print('expected : instance of the vendor schema carrying the caller data, or local rejection:', vendorops.expected_rejection(case))
        print('actual   :', {'exc': r['exc'], 'sent': [x[:600] for x in r['sent']]})
        if j: print('verdict  :', j, '(open known finding)' if findings.covered(ID, j[1]) else '')
        return j is None or findings.covered(ID, j[1])
    if 'hook' in case:
        a, j = judge_hook(case)
        print('case     :', case)
        print('expected : the tree the hook was given; only an un-namespaced <config> DIRECT child may have moved to the base namespace')
        print('actual   :', str(a)[:1500])
        if j: print('verdict  :', j)
        return j is None
    if 'op' not in case:
        print('case is a micro-check of the escaping model:', case); return True
    r, j = judge(case)
    print('case     :', case)
    print('expected : schema instance carrying the caller data with the namespace bindings in scope at its elements, or local rejection:', expected_rejection(case))
    print('actual   :', {'exc': r['exc'], 'sent': [x[:600] for x in r['sent']]})
    if j: print('verdict  :', j, '(open known finding)' if findings.covered(ID, j[1]) else '')
    return j is None or findings.covered(ID, j[1])
