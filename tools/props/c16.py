"""C16 — device profiles are complete, consistent and isolated.
Model: coq/Model/Profiles.v; theorems: coq/Props/C16.v and coq/GenProps/C16_tables.v (over the tables
regenerated from the source by tools/translate.py); spec: coq/Spec/ProfilesSpec.v.

A *history* is a list of events on numbered slots; a slot holds one handler (make_device_handler),
its Manager (on a stub session) and an NCElement of one of its replies:
   ['C', slot, src, [si, mi, wi], igi, nci]   construct: src = None (no "name") | device name | '@user';
                                              indices into the pools of caller-owned argument objects
                                              (the SAME object is handed to every construction that uses the index)
   ['G', slot, g]        call getter g, observe            g: 0 caps 1 nsdict 2 prefix-kwargs 3 qualify
   ['M', slot, g, mode]  call getter g, observe, then mutate the returned object in place   4 subsystems 5 vendor ops 6 exempt
   ['L', slot, name]     getattr(manager, name)
   ['X', slot, nsi]      NCElement.xpath(..., namespaces=<caller dict nsi>) ; observe which prefixes are bound to what
Every history is executed on the implementation in a FRESH forked process (so that leaked module/class
state of one run cannot hide or fake a difference in another)."""
import os, sys, json, pickle, itertools, functools, traceback

ID = 'C16'
COQ_ROOTS = ['Props/C16.v', 'GenProps/C16_tables.v', 'GenProps/Profiles_consts.v']
RULE = ('(a) parameter grid: every shipped handler class + a user handler class x device_params '
        '(ssh_subsystem_name x config_mode x with_ns = 7x4x8) x ignore_errors pool x nc_params pool, all 7 getters compared '
        'with the model; nexus subsystem list on a string pool; (b) histories over slots: constructions (by advertised / '
        'unknown / absent name, user class; caller argument objects shared between constructions), getter calls with '
        'in-place mutation of every returned list/dict, manager lookups, xpath with caller namespaces; systematic two-slot probes '
        '(same class twice x getter x mutation mode; every ordered pair of classes); quick: seeded random '
        'histories (length 4..14, 2..4 slots), thorough: ALL histories of length <= 5 over 4 profiles x 4 operations (25569) and 3000 random. '
        'Each history runs in a fresh process; distinct = distinct history; non-trivial = (grid) every case: a construction '
        'followed by all seven getters; (histories) at least two slots are used and at least one slot is observed after an '
        'operation on another slot.')
ASSUMES = ['a handler class is used through make_device_handler / add_additional_netconf_params / Manager(session, handler) '
           'as manager.connect_* does; caller-owned argument objects may be reused between calls but are not mutated by the caller',
           'str.lower/capitalize are modelled on ASCII (the generated patterns and names are ASCII)',
           'xpath namespace binding is observed behaviourally (which prefix resolves to which URI)']
TRUSTED = ['tools/translate.py (literal tables of ncclient/devices, manager.OPERATIONS, constants; digests pin the computed getters)',
           'modelled, not verified: dict/list built-ins of CPython, lxml XPath prefix resolution, os.fork process isolation']
ALLOWED_AXIOMS = []

ABSENT = '<absent>'
DP_SUBSYS = [ABSENT, None, '', 'netconf', 'xmlagent', 'custom-agent', 'nétconf']
DP_MODE = [ABSENT, None, 'private', 'exclusive']
DP_WITHNS = [ABSENT, None, True, False, 0, 1, 'yes', 2]
IGNORE_POOL = [None, [], ['*Foo Bar*'], ['Exact', 'pre*', '*Suf', '*'], ['*vlan with the same name exists*', 'X']]
NC_POOL = [{}, {'capabilities': []}, {'capabilities': ['urn:x:1']},
           {'capabilities': ['urn:ietf:params:netconf:base:1.0', 'urn:y:2', 'urn:x:1']}]
EXSLT = 'http://exslt.org/regular-expressions'
XNS_POOL = [{}, {'p': 'urn:p'}, {'re': 'urn:other'}, {'q': 'urn:q', 'p': 'urn:other'}, {'nc': 'urn:p'}]
PROBE_PREFIXES = ['re', 'p', 'q', 'nc']
PROBE_URIS = ['urn:p', 'urn:q', 'urn:other', EXSLT]
BASE_URIS = ('urn:ietf:params:netconf:base:1.0', 'urn:ietf:params:netconf:base:1.1')
GETTERS = ['caps', 'nsdict', 'prefix', 'qualify', 'subsys', 'vendor', 'exempt']
E_INDEX, E_OPERATION, E_MODULE, E_ATTRIBUTE = 1, 2, 3, 4

# ------------------------------------------------------------------ implementation side
@functools.lru_cache(None)
def user_classes():
    from ncclient.devices.default import DefaultDeviceHandler
    from ncclient.operations.rpc import RPC
    class UserGet(RPC): pass
    class UserFrob(RPC): pass
    class UserDeviceHandler(DefaultDeviceHandler):
        _EXEMPT_ERRORS = ['*User Exempt*', 'Exact One', 'tail*', '*head', '*']
        _BASE_CAPABILITIES = ['urn:ietf:params:netconf:base:1.1', 'urn:user:cap']
        def __init__(self, device_params, ignore_errors=None):
            super(UserDeviceHandler, self).__init__(device_params, ignore_errors)
        def get_ssh_subsystem_names(self): return ['netconf', 'user-subsys']
        def perform_qualify_check(self): return False
        def add_additional_operations(self): return {'get': UserGet, 'frob': UserFrob}
    return UserDeviceHandler, UserGet, UserFrob

class StubSession:
    """What Manager/RPC construction needs of a session: every capability is advertised."""
    class _All:
        def __contains__(self, k): return True
    def __init__(self): self._listeners = []; self.server_capabilities = self._All(); self.id = '1'; self.connected = True
    def get_listener_instance(self, cls):
        for l in self._listeners:
            if isinstance(l, cls): return l
    def add_listener(self, l): self._listeners.append(l)

class _Reply:
    def __init__(self, root): self._root = root

def _probe_doc():
    from lxml import etree
    r = etree.Element('r')
    for u in PROBE_URIS:
        etree.SubElement(r, '{%s}t' % u)
    return r

def _passthrough(xml):
    return xml

def cls_module(c):
    UH, UG, UF = user_classes()
    return 'user' if c in (UG, UF) else c.__module__

def exc_code(e):
    from ncclient.operations.errors import OperationError
    if isinstance(e, IndexError): return E_INDEX
    if isinstance(e, OperationError): return E_OPERATION
    if isinstance(e, ImportError): return E_MODULE
    if isinstance(e, AttributeError): return E_ATTRIBUTE
    return 'exc:' + type(e).__name__

def nslist(d):
    return [[k, v] for k, v in d.items()]

def mutate(obj, mode):
    """Caller-side in-place mutation of a returned list/dict (and of dicts nested in it)."""
    if isinstance(obj, list):
        if mode == 0: obj.append('MUTATED')
        elif mode == 1: obj.clear()
        else:
            if obj: obj[0] = 'MUTATED'; obj.reverse()
            else: obj.extend(['MUTATED'])
    elif isinstance(obj, dict):
        for v in list(obj.values()):
            if isinstance(v, (dict, list)): mutate(v, mode)
        if mode == 0: obj.update({'MUTATED': 'urn:mutated', None: 'urn:mutated'})
        elif mode == 1: obj.clear()
        else:
            for k in list(obj): obj[k] = 'urn:mutated'

def build_dp(src, dpi, pools):
    """The caller's device_params dict: ONE object per (src, dpi) within a history (reused by the caller)."""
    key = (src, tuple(dpi))
    if key in pools['dp']: return pools['dp'][key]
    d = {}
    if src == '@user': d['handler'] = user_classes()[0]
    elif src is not None: d['name'] = src
    for k, pool, i in (('ssh_subsystem_name', DP_SUBSYS, dpi[0]), ('config_mode', DP_MODE, dpi[1]), ('with_ns', DP_WITHNS, dpi[2])):
        v = pool[i]
        if not (isinstance(v, str) and v == ABSENT): d[k] = v
    if src is None and list(dpi) == [0, 0, 0]: d = None       # make_device_handler(None, ...)
    pools['dp'][key] = d
    return d

def snapshot_globals():
    import ncclient.xml_ as X, ncclient.manager as M, ncclient.devices as D, importlib, pkgutil
    out = {'xpath': dict(X.XPATH_NAMESPACES), 'ops': sorted(M.OPERATIONS), 'devices': list(D.get_supported_devices())}
    cls = {}
    for mi in pkgutil.iter_modules(D.__path__):
        m = importlib.import_module('ncclient.devices.' + mi.name)
        for n, c in vars(m).items():
            if isinstance(c, type) and n.endswith('DeviceHandler') and c.__module__ == m.__name__:
                cls[n] = [list(c._EXEMPT_ERRORS), list(c._BASE_CAPABILITIES)]
    UH = user_classes()[0]
    cls['UserDeviceHandler'] = [list(UH._EXEMPT_ERRORS), list(UH._BASE_CAPABILITIES)]
    out['classes'] = cls
    return out

def run_impl_here(history):
    """Execute a history on the implementation in THIS process; returns (observations, globals_unchanged)."""
    import warnings; warnings.simplefilter('ignore')
    from ncclient import manager
    from ncclient.xml_ import NCElement
    before = snapshot_globals()
    pools = {'dp': {}, 'ig': {}, 'nc': {}, 'xns': {}}
    def pooled(kind, i, src):
        if i not in pools[kind]:
            v = src[i]
            pools[kind][i] = None if v is None else (list(v) if isinstance(v, list) else {k: (list(x) if isinstance(x, list) else x) for k, x in v.items()})
        return pools[kind][i]
    slots = {}
    obs = []
    aux = {}      # event index -> what the handler's own vendor table says about a looked-up name (for the oracle)
    for idx, ev in enumerate(history):
        kind, s = ev[0], ev[1]
        try:
            if kind == 'C':
                _, _, src, dpi, igi, nci = ev
                dp = build_dp(src, list(dpi), pools)
                try:
                    dh = manager.make_device_handler(dp, pooled('ig', igi, IGNORE_POOL))
                except Exception as e:
                    obs.append(['error', exc_code(e)]); continue
                dh.add_additional_netconf_params(pooled('nc', nci, NC_POOL))
                m = manager.Manager(StubSession(), dh)
                el = NCElement(_Reply(_probe_doc()), _passthrough)
                slots[s] = (dh, m, el)
                obs.append(['constructed', type(dh).__name__])
                continue
            if s not in slots:
                obs.append(['nothing']); continue
            dh, m, el = slots[s]
            if kind in ('G', 'M'):
                g = ev[2]
                try:
                    if g == 0: r = dh.get_capabilities(); o = ['strs', list(r)]
                    elif g == 1: r = dh.get_xml_base_namespace_dict(); o = ['ns', nslist(r)]
                    elif g == 2: r = dh.get_xml_extra_prefix_kwargs(); o = ['prefix', [[k, nslist(v)] for k, v in r.items()]]
                    elif g == 3: r = dh.perform_qualify_check(); o = ['bool', bool(r)]
                    elif g == 4: r = dh.get_ssh_subsystem_names(); o = ['strs', list(r)]
                    elif g == 5:
                        r = dh.add_additional_operations(); o = ['vendor', [[k, c.__name__, cls_module(c)] for k, c in r.items()]]
                    else:
                        r = None
                        o = ['exempt', list(dh._EXEMPT_ERRORS), list(dh._exempt_errors_exact_match), list(dh._exempt_errors_startwith_wildcard_match),
                             list(dh._exempt_errors_endwith_wildcard_match), list(dh._exempt_errors_full_wildcard_match)]
                except Exception as e:
                    obs.append(['error', exc_code(e)]); continue
                if kind == 'M' and r is not None and not isinstance(r, bool):
                    mutate(r, ev[3])
                obs.append(o)
            elif kind == 'L':
                v = dh.add_additional_operations().get(ev[2])
                aux[idx] = None if v is None else [v.__name__, cls_module(v)]
                a = getattr(m, ev[2])
                if isinstance(a, functools.partial) and a.func == m.execute and len(a.args) == 1 and callable(a):
                    c = a.args[0]
                    obs.append(['resolved', c.__name__, cls_module(c)])
                elif callable(a) and getattr(a, '__name__', '') == '_missing':
                    obs.append(['missing'])
                else:
                    obs.append(['error', 'lookup:' + repr(a)[:60]])
            elif kind == 'X':
                ns = pooled('xns', ev[2], XNS_POOL)
                bound = {}
                for p in PROBE_PREFIXES:
                    try:
                        r = el.xpath('//%s:t' % p, namespaces=ns) if ns else el.xpath('//%s:t' % p)
                        uris = sorted({x.tag[1:].split('}')[0] for x in r})
                        bound[p] = uris[0] if len(uris) == 1 else ('?unknown' if not uris else '?many')
                    except Exception as e:
                        bound[p] = None if type(e).__name__ == 'XPathEvalError' else 'exc:' + type(e).__name__
                obs.append(['xpath', bound])
            else:
                obs.append(['error', 'bad-event'])
        except Exception as e:
            obs.append(['error', 'exc:' + type(e).__name__ + ':' + str(e)[:80]])
    # caller-owned argument objects must come back unchanged too (they are reused by the caller)
    args_ok = all(pools['nc'][i] == NC_POOL[i] for i in pools['nc']) and all(pools['ig'][i] == IGNORE_POOL[i] for i in pools['ig']) \
        and all(pools['xns'][i] == XNS_POOL[i] for i in pools['xns'])
    after = snapshot_globals()
    return obs, (before == after), args_ok, aux

def in_fresh_process(fn, *args):
    """Run fn(*args) in a forked child of this (pristine) process and return its result."""
    r, w = os.pipe()
    pid = os.fork()
    if pid == 0:
        try:
            os.close(r)
            try:
                out = ('ok', fn(*args))
            except BaseException:
                out = ('crash', traceback.format_exc()[-1500:])
            with os.fdopen(w, 'wb') as f:
                pickle.dump(out, f)
        finally:
            os._exit(0)
    os.close(w)
    with os.fdopen(r, 'rb') as f:
        data = f.read()
    os.waitpid(pid, 0)
    tag, val = pickle.loads(data)
    if tag != 'ok':
        raise RuntimeError('child crashed: ' + val)
    return val

def run_impl_many(histories):
    """Each history in its own fresh process (children are forked from one pristine helper)."""
    def helper(hs):
        import ncclient.manager, ncclient.devices, lxml.etree   # make the helper "pristine but loaded"
        user_classes(); snapshot_globals()
        return [in_fresh_process(run_impl_here, h) for h in hs]
    out = []
    for i in range(0, len(histories), 2000):
        out += in_fresh_process(helper, histories[i:i + 2000])
    return out

# ------------------------------------------------------------------ model side
def enc_event(ev):
    kind, s = ev[0], ev[1]
    if kind == 'C':
        _, _, src, dpi, igi, nci = ev
        sv = [0] if src is None else ([2] if src == '@user' else [1, src.encode()])
        def opt(v): return [] if (v is None or (isinstance(v, str) and v == ABSENT)) else [v.encode()]
        w = DP_WITHNS[dpi[2]]
        wn = 0 if (w is None or (isinstance(w, str) and w == ABSENT)) else (1 if w is True else 2 if w is False else 3 if w in (0, 1) else 4)
        ig = IGNORE_POOL[igi] or []
        us = NC_POOL[nci].get('capabilities', [])
        return [s, 0, sv, [opt(DP_SUBSYS[dpi[0]]), opt(DP_MODE[dpi[1]]), wn], [x.encode() for x in ig], [x.encode() for x in us]]
    if kind == 'G': return [s, 1, ev[2]]
    if kind == 'M': return [s, 2, ev[2]]
    if kind == 'L': return [s, 3, ev[2].encode()]
    if kind == 'X': return [s, 4, [[k.encode(), v.encode()] for k, v in XNS_POOL[ev[2]].items()]]
    raise ValueError(ev)

def dec_ns(v): return [[(k[0].decode() if k else None), u.decode()] for k, u in v]
def dec_strs(v): return [x.decode() for x in v]

def dec_obs(v):
    t = v[0]
    if t == 0: return ['nothing']
    if t == 1: return ['constructed', v[1].decode()]
    if t == 2: return ['error', v[1]]
    if t == 3: return ['strs', dec_strs(v[1])]
    if t == 4: return ['ns', dec_ns(v[1])]
    if t == 5: return ['prefix', [[k.decode(), dec_ns(d)] for k, d in v[1]]]
    if t == 6: return ['bool', bool(v[1])]
    if t == 7: return ['vendor', [[a.decode(), b.decode(), c.decode()] for a, b, c in v[1]]]
    if t == 8: return ['exempt'] + [dec_strs(x) for x in v[1:6]]
    if t == 9: return ['missing'] if v[1] == 2 else ['resolved', v[2].decode(), v[3].decode()]
    if t == 10:
        eff = {k.decode(): u.decode() for k, u in v[1]}
        return ['xpath', {p: eff.get(p) for p in PROBE_PREFIXES}]
    return ['?', v]

def run_model_many(ctx, histories, fn=1):
    if ctx.model is None: return [None] * len(histories)
    outs = ctx.model.batch([[fn, [enc_event(e) for e in h]] for h in histories])
    return [None if (isinstance(o, str) or (len(o) == 2 and o[0] == 999)) else [dec_obs(x) for x in o] for o in outs]

# ------------------------------------------------------------------ oracle on implementation observations
def slot_obs(history, obs, i):
    return [o for e, o in zip(history, obs) if e[1] == i]

def restrict(history, i):
    return [e for e in history if e[1] == i]

def single_checks(history, obs, tables):
    """Property clauses that concern one observation at a time. Returns list of (what, expected, actual)."""
    bad = []
    cur = {}   # slot -> construct event
    for e, o in zip(history, obs):
        s = e[1]
        if e[0] == 'C':
            if o[0] == 'constructed':
                cur[s] = e
                src = e[2]
                if src not in (None, '@user'):
                    want = src.capitalize() + 'DeviceHandler'
                    if o[1] != want: bad.append(('device name %r yielded class %s' % (src, o[1]), want, o[1]))
                if src is None and o[1] != 'DefaultDeviceHandler':
                    bad.append(('no device name yielded %s' % o[1], 'DefaultDeviceHandler', o[1]))
            elif e[2] in tables['advertised'] or e[2] in (None, '@user'):
                bad.append(('advertised device name %r does not yield a profile: %r' % (e[2], o), 'constructed', o))
            continue
        if s not in cur: continue
        c = cur[s]
        if e[0] in ('G', 'M'):
            g = e[2]
            if g == 0:
                if o[0] != 'strs' or not any(u in BASE_URIS for u in o[1]):
                    bad.append(('client capability list of %r without a NETCONF base URI: %r' % (c[2], o), 'a base URI', o))
            if g == 4:
                pref = DP_SUBSYS[c[3][0]]
                first = pref if (c[2] == 'nexus' and isinstance(pref, str) and pref != ABSENT and pref) else 'netconf'
                if o[0] != 'strs' or len(set(o[1])) != len(o[1]) or not o[1] or o[1][0] != first:
                    bad.append(('subsystem candidates of %r not duplicate-free with %r first: %r' % (c[2], first, o), first, o))
    return bad

def lookup_checks(history, obs, aux):
    """Vendor precedence / standard operations callable; aux = the handler's own vendor table entry per lookup."""
    bad = []
    for idx, (e, o) in enumerate(zip(history, obs)):
        if e[0] == 'L' and o[0] != 'nothing':
            n = e[2]
            v = aux.get(idx)
            if v is not None:
                if o != ['resolved', v[0], v[1]]:
                    bad.append(('vendor operation %r does not resolve to the vendor class: %r' % (n, o), v, o))
            elif n in STD_OPS:
                if o[0] != 'resolved' or o[1] != STD_OPS[n] or not o[2].startswith('ncclient.operations.'):
                    bad.append(('standard operation %r not callable as %s: %r' % (n, STD_OPS[n], o), STD_OPS[n], o))
            elif o != ['missing']:
                bad.append(('name %r is in neither table but resolves to %r' % (n, o), ['missing'], o))
    return bad

STD_OPS = {}
def load_std_ops():
    from ncclient import manager
    STD_OPS.clear(); STD_OPS.update({k: c.__name__ for k, c in manager.OPERATIONS.items()})

def judge(ctx, case_hist, res, memo, tables, report=True):
    """All oracle clauses for one executed history. memo: key -> result of the restricted histories."""
    obs, glob_ok, args_ok, aux = res
    fails = []
    for i in sorted({e[1] for e in case_hist}):
        rh = restrict(case_hist, i)
        if len(rh) == len(case_hist): continue
        robs = memo[key_of(rh)][0]
        a, b = slot_obs(case_hist, obs, i), robs
        if a != b:
            k = next(j for j in range(len(a)) if a[j] != b[j])
            fails.append(('slot %d observes %r at its event %d (%r) in the interleaved history but %r when the operations on other slots are removed'
                          % (i, a[k], k, rh[k], b[k]), b, a))
    for what, exp, act in single_checks(case_hist, obs, tables) + lookup_checks(case_hist, obs, aux):
        fails.append((what, exp, act))
    if not glob_ok:
        fails.append(('module-level / class-level state (XPATH_NAMESPACES, OPERATIONS, advertised names, _EXEMPT_ERRORS, _BASE_CAPABILITIES) changed during the history', 'unchanged', 'changed'))
    if not args_ok:
        fails.append(('a caller-owned argument object (nc_params / ignore_errors / namespaces) was modified by the library', 'unchanged', 'changed'))
    if report and fails:
        h2 = case_hist
        if not ctx.failures:                      # shrink the first failing history of the run
            h2 = shrink(case_hist, tables, clause(fails[0][0]))
            fails = [f for f in judge_one(h2, tables) if clause(f[0]) == clause(fails[0][0])] or fails
        what, exp, act = fails[0]
        if len(ctx.failures) < 25:
            ctx.fail({'history': h2}, what, sig=None, expected=exp, actual=act)
    return fails

def key_of(h): return json.dumps(h)

def nontrivial(h):
    seen_other = set(); ok = False
    slots = {e[1] for e in h}
    if len(slots) < 2: return False
    last = None
    for e in h:
        if e[0] != 'C' and any(s != e[1] for s in seen_other): ok = True
        seen_other.add(e[1])
    return ok

# ------------------------------------------------------------------ generators
def gen_history(rng, names, lookups):
    nslots = rng.choice([2, 2, 3, 3, 4])
    n = rng.randint(4, 14)
    h = []
    share = rng.random() < 0.7          # reuse caller objects between constructions
    base_dp = [rng.randrange(len(DP_SUBSYS)), rng.randrange(len(DP_MODE)), rng.randrange(len(DP_WITHNS))]
    igi, nci = rng.randrange(len(IGNORE_POOL)), rng.randrange(len(NC_POOL))
    def construct(s):
        r = rng.random()
        used = [e[2] for e in h if e[0] == 'C' and isinstance(e[2], str)]
        if used and rng.random() < 0.35: src = rng.choice(used)          # same class on several slots: class-level state
        else: src = rng.choice(names) if r < 0.72 else ('@user' if r < 0.84 else None if r < 0.9 else rng.choice(['bogus', 'Nexus', 'junos2']))
        if src is None and rng.random() < 0.5:
            dpi = [0, 0, 0]
        else:
            dpi = list(base_dp) if share and rng.random() < 0.6 else [rng.randrange(len(DP_SUBSYS)), rng.randrange(len(DP_MODE)), rng.choice([0, 0, 0, 1, 2, 3, 4, 5, 6, 7])]
        if src != 'ericsson' and rng.random() < 0.8: dpi[2] = dpi[2] if dpi[2] < 6 else 0
        return ['C', s, src, dpi, igi if share else rng.randrange(len(IGNORE_POOL)), nci if share else rng.randrange(len(NC_POOL))]
    for s in range(nslots):
        if rng.random() < 0.85: h.append(construct(s))
    while len(h) < n:
        s = rng.randrange(nslots)
        r = rng.random()
        if r < 0.12: h.append(construct(s))
        elif r < 0.32: h.append(['G', s, rng.randrange(7)])
        elif r < 0.58: h.append(['M', s, rng.choice([0, 0, 1, 2, 4, 5, 5]), rng.randrange(3)])
        elif r < 0.8: h.append(['L', s, rng.choice(lookups)])
        else: h.append(['X', s, rng.randrange(len(XNS_POOL))])
    return h

def grid_histories(names):
    """(a) computed getters over the parameter grid: one construction followed by all getters."""
    hs = []
    gets = [['G', 0, g] for g in range(7)]
    for src in list(names) + ['@user', None]:
        for si in range(len(DP_SUBSYS)):
            for mi in range(len(DP_MODE)):
                for wi in range(len(DP_WITHNS)):
                    relevant = (src == 'nexus' and mi == 0 and wi == 0) or (src == 'sros' and si == 0 and wi == 0) or \
                               (src == 'ericsson' and si == 0 and mi == 0) or (si, mi, wi) in ((0, 0, 0), (3, 2, 2), (5, 3, 0), (6, 1, 1))
                    if not relevant and (si * 7 + mi * 3 + wi) % 11 != 0: continue
                    for igi, nci in ((0, 0), (1, 1), (2, 2), (3, 3), (4, 0), (0, 3)):
                        hs.append([['C', 0, src, [si, mi, wi], igi, nci]] + gets)
    return hs

def pair_histories(names):
    """Systematic two-slot probes: (1) same class on two slots, one caller mutates a returned object, the other
    slot is observed; (2) every ordered pair of classes: use everything on slot 0, observe everything on slot 1."""
    hs = []
    srcs = list(names) + ['@user']
    for a in srcs:
        for g in (0, 1, 2, 4, 5):
            for mode in range(3):
                hs.append([['C', 0, a, [4, 2, 0], 2, 2], ['C', 1, a, [4, 2, 0], 2, 2], ['M', 0, g, mode],
                           ['G', 1, g], ['G', 1, 2 if g == 1 else 0], ['G', 0, g]])
    for a in srcs:
        for b in srcs:
            hs.append([['C', 0, a, [5, 2, 2], 3, 3], ['C', 1, b, [3, 0, 0], 0, 2], ['M', 0, 0, 0], ['M', 0, 5, 0], ['M', 0, 2, 0], ['X', 0, 3],
                       ['L', 0, 'commit'], ['G', 1, 0], ['G', 1, 5], ['G', 1, 2], ['G', 1, 6], ['G', 1, 4], ['L', 1, 'commit'], ['L', 1, 'get'], ['X', 1, 0]])
    return hs

def exhaustive_histories(maxlen=4):
    """thorough: every history of length <= maxlen over 4 profiles (one slot each) x 4 operations
    (an operation on a slot only after a construction on it)."""
    profs = ['nexus', 'junos', 'default', '@user']
    alpha = []
    for s, p in enumerate(profs):
        alpha += [['C', s, p, [4, 0, 0], 0, 2], ['M', s, 0, 0], ['X', s, 1 + s % 2]]
    for s, p in enumerate(profs):
        alpha += [['L', s, 'commit']]
    out = [[]]
    frontier = [[]]
    for _ in range(maxlen):
        frontier = [h + [e] for h in frontier for e in alpha if (e[0] == 'C' or any(x[0] == 'C' and x[1] == e[1] for x in h))]
        out += frontier
    return out

# ------------------------------------------------------------------ the check
def model_tables(ctx):
    if ctx.model is None: return None
    t = ctx.model.call([5])
    return {'advertised': dec_strs(t[0]), 'classes': [[m.decode(), c.decode()] for m, c in t[1]], 'std_ops': dec_strs(t[2]), 'all_modelled': bool(t[3])}

def impl_tables():
    """What the running code advertises / ships (independent of the translator)."""
    import importlib, pkgutil, warnings
    warnings.simplefilter('ignore')
    from ncclient import devices, manager
    classes = []
    for mi in sorted(pkgutil.iter_modules(devices.__path__), key=lambda x: x.name):
        m = importlib.import_module('ncclient.devices.' + mi.name)
        for n, c in vars(m).items():
            if isinstance(c, type) and n.endswith('DeviceHandler') and c.__module__ == m.__name__:
                classes.append([mi.name, n])
    # a caller mutating the returned label dict must not change what is advertised
    before = list(devices.get_supported_devices())
    l = devices.get_supported_device_labels(); l['bogus'] = 'x'; l.pop('junos', None)
    after = list(devices.get_supported_devices())
    resolves = {}
    for n in after:
        try:
            dh = manager.make_device_handler({'name': n})
            resolves[n] = [type(dh).__module__, type(dh).__name__]
        except Exception as e:
            resolves[n] = ['exc', type(e).__name__]
    return {'advertised': before, 'advertised_after_label_mutation': after, 'classes': sorted(classes),
            'std_ops': list(manager.OPERATIONS), 'resolves': resolves}

def check_tables(ctx, mt, it):
    case = {'check': 'tables'}
    if it['advertised'] != it['advertised_after_label_mutation']:
        ctx.fail(case, 'mutating the dict returned by get_supported_device_labels() changed get_supported_devices()', sig=None,
                 expected=it['advertised'], actual=it['advertised_after_label_mutation'])
    for n, r in it['resolves'].items():
        want = ['ncclient.devices.' + n, n.capitalize() + 'DeviceHandler']
        if r != want:
            ctx.fail(case, 'advertised device name %r does not yield its profile: %r' % (n, r), sig=None, expected=want, actual=r)
    if mt is not None:
        for k in ('advertised', 'std_ops'):
            if mt[k] != it[k]:
                ctx.disagree(case, mt[k], it[k], 'translated table %s differs from what the running code reports' % k, theorem='C16_tables_names_resolve')
        if sorted(mt['classes']) != it['classes']:
            ctx.disagree(case, sorted(mt['classes']), it['classes'], 'handler classes in Gen_Devices differ from the importable ones', theorem='C16_tables_modelled')
        if not mt['all_modelled']:
            ctx.disagree(case, True, False, 'a handler class is not covered by the model (unknown digest of a computed getter)', theorem='C16_tables_modelled')
    ctx.count(case, key='tables')

def compare_all(ctx, hs, theorem, all_nontrivial=False):
    """Run histories on implementation (fresh process each) and model; judge with the oracle."""
    tables = {'advertised': TABLES['advertised']}
    uniq = {}
    for h in hs:
        uniq.setdefault(key_of(h), h)
        for i in {e[1] for e in h}:
            rh = restrict(h, i)
            uniq.setdefault(key_of(rh), rh)
    keys = list(uniq)
    res = run_impl_many([uniq[k] for k in keys])
    memo = dict(zip(keys, res))
    mouts = run_model_many(ctx, hs)
    for h, mo in zip(hs, mouts):
        r = memo[key_of(h)]
        ctx.count({'history': h}, nontrivial=all_nontrivial or nontrivial(h), key=key_of(h))
        ctx.hist('history_len', len(h)); ctx.hist('slots', len({e[1] for e in h}))
        for e in h: ctx.hist('op', e[0] + (str(e[2]) if e[0] in 'GM' else ''))
        if ctx.evaluations % 499 == 1: ctx.sample({'history': h, 'impl': r[0]})
        if mo is not None and mo != r[0]:
            k = next((j for j in range(min(len(mo), len(r[0]))) if mo[j] != r[0][j]), None)
            ctx.disagree({'history': h}, mo if k is None else mo[k], r[0] if k is None else r[0][k],
                         'Profiles.run_from vs implementation at event %s %r' % (k, h[k] if k is not None else None), theorem=theorem)
        judge(ctx, h, r, memo, tables)
    return memo

TABLES = {}

def run(ctx):
    rng = ctx.rng
    import warnings; warnings.simplefilter('ignore')
    it = in_fresh_process(impl_tables)
    mt = model_tables(ctx)
    check_tables(ctx, mt, it)
    TABLES['advertised'] = it['advertised']
    load_std_ops()
    names = sorted(set(it['advertised']) | {m for m, c in it['classes']})
    # corpus first
    cdir = os.path.join(os.path.dirname(os.path.dirname(os.path.dirname(os.path.abspath(__file__)))), 'corpus', 'C16')
    corpus = []
    if os.path.isdir(cdir):
        for f in sorted(os.listdir(cdir)):
            if f.endswith('.json'): corpus.append(json.load(open(os.path.join(cdir, f)))['history'])
    if corpus: compare_all(ctx, corpus, 'C16_isolated')
    # nexus subsystem list on a string pool (tie of C16_subsystems)
    prefs = [None, '', 'netconf', 'xmlagent', 'Netconf', 'xmlagent ', 'x', 'net conf', 'ümläut', 'a' * 300, 'netconf\n', '0']
    prefs += [''.join(rng.choice('netcofxmlag -_é') for _ in range(rng.randint(1, 9))) for _ in range(60 if ctx.tier == 'quick' else 600)]
    def nexus_impl(ps):
        from ncclient.manager import make_device_handler
        # strings are rebuilt at run time: a preferred name that merely EQUALS a built-in one (read from a file,
        # argv, JSON ...) is not the interned literal of the source
        fresh = lambda p: None if p is None else ''.join([c for c in p])
        return [make_device_handler({'name': 'nexus', 'ssh_subsystem_name': fresh(p)} if p is not None else {'name': 'nexus'}).get_ssh_subsystem_names() for p in ps]
    ni = in_fresh_process(nexus_impl, prefs)
    nm = ctx.model.batch([[3, [] if p is None else [p.encode()]] for p in prefs]) if ctx.model else [None] * len(prefs)
    for p, a, b in zip(prefs, ni, nm):
        case = {'check': 'nexus_subsystems', 'preferred': p}
        ctx.count(case, nontrivial=bool(p), key=['nx', p])
        if b is not None and dec_strs(b) != a:
            ctx.disagree(case, dec_strs(b), a, 'Profiles.nexus_subsystems vs NexusDeviceHandler.get_ssh_subsystem_names', theorem='C16_subsystems')
        if len(set(a)) != len(a) or a[0] != (p or 'netconf'):
            ctx.fail(case, 'nexus subsystem candidates %r for preferred %r: not duplicate-free with the preferred first' % (a, p), sig=None, expected=p or 'netconf', actual=a)
    # (a) parameter grid
    grid = grid_histories(names)
    if ctx.tier == 'quick':
        grid = [h for j, h in enumerate(grid) if j % 3 == ctx.seed % 3 or h[0][2] in ('nexus', 'sros', 'ericsson', 'huawei')]
    compare_all(ctx, grid, 'C16_base_uri/C16_subsystems_all/C16_getter_function_of_ctor', all_nontrivial=True)
    ctx.hist('section', 'grid', len(grid))
    # (b) histories: systematic pairs, then random
    pairs = pair_histories(names)
    compare_all(ctx, pairs, 'C16_isolated')
    ctx.hist('section', 'pairs', len(pairs))
    lookups = sorted(set(STD_OPS) | {'frob', 'no_such_op', 'rollback', 'action', 'cli', 'exec_command', 'get_configuration', 'save_config',
                                     'md_cli_raw_command', 'load_configuration', 'save', 'command', 'cli_display'})
    nrand = 300 if ctx.tier == 'quick' else 3000
    hs = [gen_history(rng, names, lookups) for _ in range(nrand)]
    compare_all(ctx, hs, 'C16_isolated')
    ctx.hist('section', 'random', len(hs))
    if ctx.tier == 'thorough':
        ex = exhaustive_histories(5)
        compare_all(ctx, ex, 'C16_isolated')
        ctx.hist('section', 'exhaustive', len(ex))
        ctx.extra['exhaustive_scope'] = 'all %d histories of length <= 5 over 4 profiles (nexus, junos, default, user class) x {construct, get+mutate capabilities, xpath with caller namespaces, lookup commit}' % len(ex)
    ctx.exhaustive = False

def search(ctx, seeds):
    """Tie broke: look for a history on which the property itself fails on the implementation."""
    import random
    it = in_fresh_process(impl_tables)
    TABLES['advertised'] = it['advertised']; load_std_ops()
    if it['advertised'] != it['advertised_after_label_mutation']:
        return dict(case={'check': 'tables'}, what='mutating the dict returned by get_supported_device_labels() changed get_supported_devices()',
                    sig=None, expected=it['advertised'], actual=it['advertised_after_label_mutation'])
    for n, r in it['resolves'].items():
        if r != ['ncclient.devices.' + n, n.capitalize() + 'DeviceHandler']:
            return dict(case={'check': 'tables'}, what='advertised device name %r does not yield its profile: %r' % (n, r), sig=None,
                        expected=n.capitalize() + 'DeviceHandler', actual=r)
    names = sorted(set(it['advertised']) | {m for m, c in it['classes']})
    lookups = sorted(set(STD_OPS) | {'frob', 'no_such_op', 'rollback', 'action', 'cli'})
    rng = random.Random(ctx.seed + 1)
    tries = [c['history'] for c in seeds if isinstance(c, dict) and 'history' in c]
    # neighbours: every seed history preceded / interleaved with operations of another slot
    extra = []
    for h in tries[:20]:
        # the same operations repeated on a second slot (same classes): class-level / default-argument state
        twin = [[e[0], e[1] + 10] + list(e[2:]) for e in h]
        extra.append(h + twin); extra.append([x for pr in zip(h, twin) for x in pr])
        extra.append(h + [e for e in twin if e[0] == 'C'] + [['G', e[1] + 10, g] for e in h if e[0] == 'C' for g in range(7)])
        for p in ('nexus', 'junos', 'sros', '@user'):
            other = [['C', 9, p, [4, 2, 0], 3, 2], ['M', 9, 0, 1], ['M', 9, 5, 1], ['X', 9, 3], ['M', 9, 2, 0]]
            extra.append(other + h); extra.append(h[:1] + other + h[1:])
    tries += extra + pair_histories(names) + grid_histories(names)[::7] + [gen_history(rng, names, lookups) for _ in range(1500)] + exhaustive_histories()[:3000]
    class Quiet:
        def fail(self, *a, **k): pass
    for i in range(0, len(tries), 500):
        chunk = tries[i:i + 500]
        uniq = {}
        for h in chunk:
            uniq.setdefault(key_of(h), h)
            for s in {e[1] for e in h}:
                rh = restrict(h, s); uniq.setdefault(key_of(rh), rh)
        keys = list(uniq)
        memo = dict(zip(keys, run_impl_many([uniq[k] for k in keys])))
        for h in chunk:
            fails = judge(Quiet(), h, memo[key_of(h)], memo, {'advertised': it['advertised']}, report=False)
            if fails:
                h2 = shrink(h, {'advertised': it['advertised']}, clause(fails[0][0]))
                what, exp, act = [f for f in judge_one(h2, {'advertised': it['advertised']}) if clause(f[0]) == clause(fails[0][0])][0]
                return dict(case={'history': h2}, what=what, sig=None, expected=exp, actual=act)
    return None

def judge_one(h, tables):
    uniq = {key_of(h): h}
    for s in {e[1] for e in h}:
        rh = restrict(h, s); uniq.setdefault(key_of(rh), rh)
    keys = list(uniq)
    memo = dict(zip(keys, run_impl_many([uniq[k] for k in keys])))
    class Quiet:
        def fail(self, *a, **k): pass
    return judge(Quiet(), h, memo[key_of(h)], memo, tables, report=False)

def clause(what):
    """Which clause of the property a failure message belongs to (first two words)."""
    return ' '.join(what.split()[:2]) if not what.startswith('slot ') else 'slot'

def shrink(h, tables, cl):
    """Greedy removal of events while the same clause of the oracle still fails."""
    cur = h
    changed = True
    while changed and len(cur) > 1:
        changed = False
        for j in range(len(cur)):
            cand = cur[:j] + cur[j + 1:]
            if cand and any(clause(f[0]) == cl for f in judge_one(cand, tables)):
                cur = cand; changed = True; break
    return cur

def reproduce(finding):
    w = finding['witness']
    if w.get('check') == 'tables':
        it = in_fresh_process(impl_tables)
        return it['advertised'] != it['advertised_after_label_mutation']
    it = in_fresh_process(impl_tables); TABLES['advertised'] = it['advertised']; load_std_ops()
    return bool(judge_one(w['history'], {'advertised': it['advertised']}))

def replay(doc):
    c = doc['case']
    it = in_fresh_process(impl_tables); TABLES['advertised'] = it['advertised']; load_std_ops()
    if c.get('check') == 'tables':
        ok = it['advertised'] == it['advertised_after_label_mutation'] and all(
            r == ['ncclient.devices.' + n, n.capitalize() + 'DeviceHandler'] for n, r in it['resolves'].items())
        print('case     :', c); print('expected :', it['advertised']); print('actual   :', it['advertised_after_label_mutation'], it['resolves'] if not ok else '')
        return ok
    if c.get('check') == 'nexus_subsystems':
        from ncclient.manager import make_device_handler
        p = c['preferred']
        a = make_device_handler({'name': 'nexus', 'ssh_subsystem_name': ''.join([ch for ch in p])} if p is not None else {'name': 'nexus'}).get_ssh_subsystem_names()
        print('case     :', c); print('expected : duplicate-free,', p or 'netconf', 'first'); print('actual   :', a)
        return len(set(a)) == len(a) and a[0] == (p or 'netconf')
    h = c['history']
    fails = judge_one(h, {'advertised': it['advertised']})
    print('history  :')
    for e in h: print('   ', e)
    if fails:
        for what, exp, act in fails:
            print('FAILS    :', what); print('expected :', exp); print('actual   :', act)
    else:
        print('expected : observations of every slot equal those of the history restricted to it; base URI; subsystems; lookups')
        print('actual   : all clauses hold')
    return not fails
