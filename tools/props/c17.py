"""C17 — XML helper round-trips (ncclient/xml_.py).
Model: coq/Model/XTree.v, XmlHelpers.v; theorems: coq/Props/C17.v; harness: tools/harness/xmlgen.py."""
import re, json, os, sys
from harness import xmlgen as X

ID = 'C17'
COQ_ROOTS = ['Props/C17.v', 'GenProps/XmlHelpers_consts.v']
RULE = ('Generated documents (names incl. non-ASCII, default/prefixed/undeclared namespaces, redundant prefixes, attributes '
        'incl. same local name in two namespaces, Unicode text with CR/LF/TAB and markup characters, CDATA, comments, PIs, '
        'mixed content, nesting <= 5) serialised by the harness; constructor programs over new_ele/new_ele_ns/new_ele_nsmap/'
        'sub_ele/sub_ele_ns with random parents and attribute dictionaries; requirement sets for validated_element (str/list/'
        'tuple/empty/malformed alternatives); namespace pairs (present, absent, None) for replace_namespace; child elements '
        'with tails; truncated/garbled documents for parse_root. A case is one (kind, document/program, arguments); '
        'non-trivial = the tree has >= 2 elements or >= 1 attribute (documents) / >= 2 operations (programs).')
ASSUMES = ['libxml2 parser/serialiser (lxml 6.1.3) are oracles of the model: the parser is represented by the event stream of the '
           'independent reader (expat) on the same octets, the serialiser by its output octets',
           'to_xml is exercised with the default encoding and with ISO-8859-1 on documents whose serialisation is ASCII '
           '(other encodings are outside the property: the function decodes the serialiser output as UTF-8)',
           'attribute dictionaries passed to constructors do not contain an un-namespaced attribute named xmlns',
           'lxml binds a new element to an in-scope prefix if one names its namespace, else to the default declaration, else to a fresh prefix (bind_elem); validated by every program case']
TRUSTED = ['modelled, not verified: libxml2 parsing/serialisation, lxml namespace binding, expat (independent reader)']

BASE = 'urn:ietf:params:xml:ns:netconf:base:1.0'
B = X.B

# ------------------------------------------------------------------ helpers
def exc_name(e): return type(e).__name__

def count_decl(out):
    """(number of leading XML declarations, remainder)"""
    n = 0
    while True:
        m = re.match(r'<\?xml[ \t\r\n][^>]*?\?>[ \t\r\n]*', out)
        if not m: return n, out
        n += 1; out = out[m.end():]

def decl_ok(out):
    n, rest = count_decl(out)
    return n == 1 and re.match(r'<[^?!/\s]', rest) is not None, n

def clark(n):
    return ('{%s}%s' % (n[0][0].decode(), n[1].decode())) if n[0] else n[1].decode()

def nsval(u): return [B(u)] if u else []

def attrs_val(d): return [[X._lx_name(k), B(v)] for k, v in d]

def m_to_x(m):
    if m[0] != 0: return m
    return [0, m[1], m[4], [m_to_x(k) for k in m[5]]]

def spec_rename(t, old, new):
    """Independent statement of replace_namespace on a tree: exactly the names in `old` move to `new`."""
    if t[0] != 0: return t
    o, n = nsval(old), nsval(new)
    f = lambda nm: [n, nm[1]] if nm[0] == o else nm
    return [0, f(t[1]), [[f(a[0]), a[1]] for a in t[2]], [spec_rename(k, old, new) for k in t[3]]]

def rename_collides(t, old, new):
    if t[0] != 0: return False
    o, n = nsval(old), nsval(new)
    ks = [[n, a[0][1]] if a[0][0] == o else a[0] for a in t[2]]
    return len({json.dumps([k[0] and k[0][0].hex(), k[1].hex()]) for k in ks}) != len(ks) or any(rename_collides(k, old, new) for k in t[3])

def default_in_scope_anywhere(m, d=None):
    """some element of the in-memory tree lies in a default-namespace scope"""
    if m[0] != 0: return False
    for has_p, u in m[3]:
        if not has_p: d = u or None
    return bool(d) or any(default_in_scope_anywhere(k, d) for k in m[5])


class Out:
    """Result of evaluating one case on the implementation."""
    def __init__(self): self.fails, self.mcalls, self.hist = [], [], {}
    def fail(self, what, expected=None, actual=None, sig=None): self.fails.append((what, expected, actual, sig))
    def model(self, call, impl_value, what, post=None): self.mcalls.append((call, impl_value, what, post))


# ------------------------------------------------------------------ case kinds
def run_doc(case, o):
    from ncclient import xml_
    from lxml import etree
    src, exp = case['src'], case.get('expected')
    evs = X.expat_events(src)
    try: ind_src = X.canon(X.tree_from_events(evs))
    except ValueError: ind_src = None
    # --- parse_root vs full parse
    try: pr = xml_.parse_root(src); pr = [X._lx_name(pr[0]), sorted([X._lx_name(k), B(v)] for k, v in pr[1].items())]
    except Exception as e: pr = None
    ht = bool(case.get('huge'))
    try: e = xml_.to_ele(src, huge_tree=ht) if ht else xml_.to_ele(src)
    except Exception as ex: e = None
    first = next((x for x in evs if x[0] in 'sx'), None)
    if pr is not None and (first is None or first[0] == 'x'):
        # libxml2's push parser reports the root of a start tag that is cut at end of input; expat does not
        o.hist['parse_root'] = 'lenient-at-eof (not compared)'
    else:
        o.model([6, X.events_val(evs)], pr, 'parse_root vs parse_root_ev on the independent event stream',
                post=lambda v: [v[0], sorted(v[1])] if v else None)
    o.model([7, X.events_val(evs)], X.canon(X.lx_tree(e)) if e is not None else None, 'to_ele vs build on the independent event stream',
            post=lambda v: X.canon(v[0]) if v else None)
    if e is None:
        o.hist['doc'] = 'rejected'
        if ind_src is not None and case.get('wellformed'):
            o.fail('to_ele rejects a well-formed document', expected='tree', actual='exception')
        return
    o.hist['doc'] = 'parsed'
    full = X.lx_tree(e)
    if pr is None or pr != [full[1], sorted(full[2])]:
        o.fail('parse_root disagrees with the full parse', expected=[full[1], sorted(full[2])], actual=pr)
    if exp is not None and X.canon(full) != X.canon(exp):
        o.fail('to_ele tree differs from the generated document', expected=X.canon(exp), actual=X.canon(full))
    want = X.canon(exp) if exp is not None else ind_src
    # --- serialise, parse back, independent reader
    enc = case.get('encoding', 'UTF-8')
    try:
        out = xml_.to_xml(e, encoding=enc) if 'encoding' in case else xml_.to_xml(e)
    except Exception as ex:
        o.fail('to_xml raised %s' % exc_name(ex), expected='string', actual=exc_name(ex)); return
    ok, n = decl_ok(out)
    if not ok:
        o.fail('serialised form does not carry exactly one XML declaration (%d)' % n, expected=1, actual=n)
    try: back = X.canon(X.lx_tree(xml_.to_ele(out, huge_tree=ht) if ht else xml_.to_ele(out)))
    except Exception as ex: back = 'to_ele: ' + exc_name(ex)
    if back != want:
        o.fail('to_ele(to_xml(t)) is not equivalent to t', expected=want, actual=back)
    try: ind = X.canon(X.indep_read(out))
    except ValueError as ex: ind = str(ex)
    if ind != want:
        o.fail('independent reader reads to_xml(t) differently', expected=want, actual=ind)
    ser = etree.tostring(e, encoding=enc, with_tail=False)
    o.model([1, ser, B(enc)], B(out), 'to_xml declaration branch')
    o.hist['branch'] = 'serialiser-declared' if ser.startswith(b'<?xml') else 'prepended'


def run_subtail(case, o):
    """to_xml of a child element that has a tail (what GetReply.data_xml does)."""
    from ncclient import xml_
    e = xml_.to_ele(case['src'])
    for i in case['path']: e = e[i]
    want = X.canon(X.lx_resolved(e))
    out = xml_.to_xml(e)
    ok, n = decl_ok(out)
    if not ok: o.fail('child serialisation: not exactly one declaration', expected=1, actual=n)
    try: back = X.canon(X.lx_tree(xml_.to_ele(out)))
    except Exception as ex: back = 'to_ele: ' + exc_name(ex)
    if back != want: o.fail('to_ele(to_xml(child)) is not equivalent to the child', expected=want, actual=back, sig=None)
    try: ind = X.canon(X.indep_read(out))
    except ValueError as ex: ind = str(ex)
    if ind != want: o.fail('independent reader reads to_xml(child) differently', expected=want, actual=ind)
    o.hist['tail'] = 'blank' if not (e.tail or '').strip() else 'non-blank'


def py_tags(t):
    if isinstance(t, dict): return tuple(t['tuple'])
    return t

def run_validated(case, o):
    from ncclient import xml_
    src, tags, attrs = case['src'], py_tags(case['tags']), case['attrs']
    pattrs = None if attrs is None else [py_tags(r) for r in attrs]
    x = xml_.to_ele(src) if case.get('as_element') else src
    root = xml_.to_ele(src)
    try:
        r = xml_.validated_element(x, tags, pattrs); res = 0
        if r.tag != root.tag: o.fail('validated_element returned another element')
    except xml_.XMLError as ex:
        res = 1 if 'does not meet requirement' in str(ex) else 2
    except ValueError: res = 3
    except Exception as ex: res = 'exc:' + exc_name(ex)
    rn = X._lx_name(root.tag); ks = [X._lx_name(k) for k in root.attrib.keys()]
    # model
    if tags is None: mt = []
    elif isinstance(tags, str): mt = [0, B(tags)]
    else: mt = [1, [B(t) for t in tags]]
    mr = [[0, B(r)] if isinstance(r, str) else [1, [B(a) for a in r]] for r in (pattrs or [])]
    o.model([2, mt, mr, rn, ks], res, 'validated_element vs validated')
    # oracle: accepts exactly when the root tag is allowed and every requirement has a present alternative
    alts = [a for r in (pattrs or []) for a in ([r] if isinstance(r, str) else r)]
    malformed = any(a == '' or (a.startswith('{') and ('}' not in a or a.endswith('}'))) for a in alts)
    o.hist['validated'] = 'malformed-alt' if malformed else ('accept' if res == 0 else 'reject')
    if not malformed:
        tl = [] if not tags else ([tags] if isinstance(tags, str) else list(tags))
        keyset = {clark(k) for k in ks}
        norm = lambda a: a[2:] if a.startswith('{}') else a
        want = (not tl or root.tag in tl) and all(any(norm(a) in keyset for a in ([r] if isinstance(r, str) else r)) for r in (pattrs or []))
        if want != (res == 0):
            o.fail('validated_element accepts=%r but the rule says %r' % (res == 0, want), expected=want, actual=res)


def run_replace(case, o):
    from ncclient import xml_
    old, new = case['old'], case['new']
    e = xml_.to_ele(case['src'])
    before_m = X.lx_mnode(e)
    before = X.lx_tree(e)
    try:
        xml_.replace_namespace(e, old, new); err = None
    except Exception as ex: err = exc_name(ex)
    after = X.lx_tree(e)
    o.model([3, nsval(old), nsval(new), before_m], None if err else after, 'replace_namespace vs replace_ns (in-memory names, attribute order)',
            post=lambda v: m_to_x(v))
    if err:
        o.fail('replace_namespace raised ' + err, expected='renamed tree', actual=err); return
    coll = rename_collides(before, old, new)
    o.hist['replace'] = 'collision' if coll else ('noop' if X.canon(after) == X.canon(before) else 'renamed')
    if coll: return
    want = X.canon(spec_rename(before, old, new))
    if X.canon(after) != want:
        o.fail('replace_namespace did not rename exactly the names of the old namespace (in memory)', expected=want, actual=X.canon(after))
    # what a reader of the serialised result sees (parsed documents are clean)
    if new is not None or not default_in_scope_anywhere(before_m):
        try: ind = X.canon(X.indep_read(xml_.to_xml(e)))
        except Exception as ex: ind = exc_name(ex) + ': ' + str(ex)[:80]
        if ind != want:
            o.fail('serialised result of replace_namespace differs from the exact renaming', expected=want, actual=ind)


def run_program(case, o):
    from ncclient import xml_
    ops = case['ops']
    root, mops = None, []
    def node(path):
        n = root
        for i in path: n = n[i]
        return n
    for op in ops:
        k = op[0]
        if k == 'new_ele':
            root = xml_.new_ele(op[1], dict(op[2])); mops.append([0, B(op[1]), attrs_val(op[2])])
        elif k == 'new_ele_ns':
            root = xml_.new_ele_ns(op[1], op[2], dict(op[3])); mops.append([1, B(op[1]), nsval(op[2]), attrs_val(op[3])])
        elif k == 'new_ele_nsmap':
            root = xml_.new_ele_nsmap(op[1], {p: u for p, u in op[2]}, dict(op[3]))
            mops.append([2, B(op[1]), [[1 if p else 0, B(u)] for p, u in op[2]], attrs_val(op[3])])
        elif k == 'sub_ele':
            xml_.sub_ele(node(op[1]), op[2], dict(op[3])); mops.append([3, op[1], B(op[2]), attrs_val(op[3])])
        elif k == 'sub_ele_ns':
            xml_.sub_ele_ns(node(op[1]), op[2], op[3], dict(op[4])); mops.append([4, op[1], B(op[2]), nsval(op[3]), attrs_val(op[4])])
    mem = X.m_strip(X.lx_mnode(root))
    def post_mem(v):
        return canon_m(X.m_strip(v[0])) if v else None
    o.model([4, mops], canon_m(mem), 'constructors: in-memory tag, prefix flag, attributes', post=post_mem)
    out = xml_.to_xml(root)
    ind = X.canon(X.indep_read(out))
    o.model([4, mops], ind, 'constructors: namespace-resolved view = what the independent reader sees', post='resolve')
    wrinkle = X.canon(X.lx_tree(root)) != ind
    o.hist['program'] = 'wrinkle(un-namespaced child in default scope)' if wrinkle else 'plain'
    # decorate with text/tails/comments through the lxml API, then the round-trip oracle
    from lxml import etree
    for path, kind, s in case.get('decor', []):
        n = node(path)
        if kind == 'text': n.text = s
        elif kind == 'tail' and path: n.tail = s
        elif kind == 'comment': n.append(etree.Comment(s))
    want = X.canon(X.lx_resolved(root))
    out = xml_.to_xml(root)
    ok, nd = decl_ok(out)
    if not ok: o.fail('program tree: not exactly one declaration', expected=1, actual=nd)
    try: back = X.canon(X.lx_tree(xml_.to_ele(out)))
    except Exception as ex: back = 'to_ele: ' + exc_name(ex)
    if back != want: o.fail('to_ele(to_xml(t)) is not equivalent to the constructed tree (resolved view)', expected=want, actual=back)
    try: ind = X.canon(X.indep_read(out))
    except ValueError as ex: ind = str(ex)
    if ind != want: o.fail('independent reader reads the constructed tree differently', expected=want, actual=ind)


def canon_m(m):
    if m[0] != 0: return m
    return [0, m[1], m[2], sorted(m[3]), [canon_m(k) for k in m[4]]]

KINDS = {'doc': run_doc, 'subtail': run_subtail, 'validated': run_validated, 'replace': run_replace, 'program': run_program}

def evaluate(case):
    o = Out()
    try:
        KINDS[case['kind']](case, o)
    except Exception as ex:
        import traceback
        o.fail('harness/implementation raised %s: %s' % (exc_name(ex), traceback.format_exc()[-400:]), actual=exc_name(ex))
    return o


# ------------------------------------------------------------------ generators
def jx(t):
    """xnode with bytes -> JSON-able (latin-1-free: hex) and back"""
    return t

def gen_doc_case(rng, g):
    sd, exp = g.element()
    body = X.serialise(sd, rng)
    pro = ''
    r = rng.random()
    if r < 0.25: pro = '<?xml version="1.0" encoding="UTF-8"?>' + rng.choice(['', '\n'])
    elif r < 0.3: pro = "<?xml version='1.0'?>\n"
    if rng.random() < 0.15: pro += '<!--prolog-->' + rng.choice(['', '\n', '<?pi x?>'])
    if rng.random() < 0.04: pro += '<!--' + 'long prolog ' * rng.choice([400, 700]) + '-->'      # the root start tag lies beyond 4096 characters
    epi = rng.choice(['', '', '', '\n', '<!--epilog-->', ' <?pi y?>\n'])
    c = {'kind': 'doc', 'src': pro + body + epi, 'wellformed': True}
    if rng.random() < 0.2: c['huge'] = True              # the huge_tree variant of to_ele must behave the same on ordinary documents
    return c, sd, exp

def malform(rng, src):
    r = rng.random()
    if r < 0.45: return src[:rng.randint(0, len(src))]
    if r < 0.6: return 'garbage' + src
    if r < 0.7: return src + '<extra/>'
    if r < 0.8: return src + 'text'
    if r < 0.9: return src.replace('</', '</x', 1)
    return ''

def element_paths(exp, path=()):
    """paths (over element children only) of all elements of an expected tree"""
    out = [list(path)]
    i = 0
    for k in exp[3]:
        if k[0] == 0:
            out += element_paths(k, path + (i,)); i += 1
        elif k[0] in (2, 3): i += 1          # comments and PIs are children in lxml
    return out

def gen_validated(rng, src, exp):
    tag = clark(exp[1]); keys = [clark(a[0]) for a in exp[2]]
    pool = keys + ['x', 'name', '{urn:u}a', '{urn:v}name', 'p:y'] + keys
    bad = ['', '{v', '{}x', '{v}', '{}' + (keys[0] if keys and not keys[0].startswith('{') else 'a')]
    tags = rng.choice([None, '', [], tag, tag, 'other', exp[1][1].decode(), [tag], ['a', tag], ['a', 'b'], {'tuple': [tag, 'zz']}, {'tuple': []},
                       '{urn:u}' + exp[1][1].decode()])
    def req():
        r = rng.random()
        def alt(): return rng.choice(bad) if rng.random() < 0.06 else rng.choice(pool)
        if r < 0.4: return alt()
        if r < 0.47: return []
        return [alt() for _ in range(rng.randint(1, 3))]
    attrs = rng.choice([None, [], 1, 1, 1, 2, 3])
    if isinstance(attrs, int): attrs = [req() for _ in range(attrs)]
    if attrs and keys and rng.random() < 0.5:
        attrs = [rng.choice(keys) if rng.random() < 0.5 else [rng.choice(pool), rng.choice(keys)] for _ in attrs]
    return {'kind': 'validated', 'src': src, 'tags': tags, 'attrs': attrs, 'as_element': rng.random() < 0.5}

def nss_of(exp, acc=None):
    acc = set() if acc is None else acc
    if exp[0] == 0:
        if exp[1][0]: acc.add(exp[1][0][0].decode())
        for a in exp[2]:
            if a[0][0]: acc.add(a[0][0][0].decode())
        for k in exp[3]: nss_of(k, acc)
    return acc

def gen_replace(rng, src, exp):
    present = sorted(nss_of(exp))
    old = rng.choice(present + present + [None, 'urn:absent']) if present else rng.choice([None, 'urn:absent'])
    new = rng.choice(present + ['urn:new', 'urn:new', 'urn:v', None])
    return {'kind': 'replace', 'src': src, 'old': old, 'new': new}

CT_NAMES = ['rpc', 'get', 'filter', 'a', 'b', 'config', 'é', 'name']
CT_NS = [None, BASE, 'urn:u', 'urn:v', 'urn:w']
def gen_attrs(rng):
    d = []
    for _ in range(rng.choice([0, 0, 1, 1, 2])):
        u = rng.choice([None, None, None, BASE, 'urn:u', 'urn:v'])
        l = rng.choice(['a', 'b', 'message-id', 'type', 'é'])
        k = '{%s}%s' % (u, l) if u else l
        if k in [x[0] for x in d]: continue
        d.append([k, X.gen_text(rng, 3, 0.1)])
    return d

def gen_program(rng):
    r = rng.random()
    tag = rng.choice(CT_NAMES)
    if r < 0.3: ops = [['new_ele', tag, gen_attrs(rng)]]
    elif r < 0.6: ops = [['new_ele_ns', tag, rng.choice(CT_NS), gen_attrs(rng)]]
    else:
        m = []
        for _ in range(rng.choice([0, 1, 1, 2, 3])):
            p = rng.choice([None, None, 'nc', 'p', 'q'])
            if p in [x[0] for x in m]: continue
            m.append([p, rng.choice([BASE, BASE, 'urn:u', 'urn:v'])])
        ops = [['new_ele_nsmap', tag, m, gen_attrs(rng)]]
    shape = [0]                       # number of children per path, kept as dict path->count
    kids = {(): 0}
    for _ in range(rng.randint(0, 7)):
        path = rng.choice(sorted(kids))
        t = rng.choice(CT_NAMES)
        if rng.random() < 0.6: ops.append(['sub_ele', list(path), t, gen_attrs(rng)])
        else: ops.append(['sub_ele_ns', list(path), t, rng.choice(CT_NS), gen_attrs(rng)])
        kids[path + (kids[path],)] = 0; kids[path] += 1
    decor = []
    for path in sorted(kids):
        if rng.random() < 0.4: decor.append([list(path), 'text', X.gen_text(rng, 4)])
        if path and rng.random() < 0.3: decor.append([list(path), 'tail', X.gen_text(rng, 4)])
    leafs = [p for p in sorted(kids) if kids[p] == 0]
    if leafs and rng.random() < 0.3: decor.append([list(rng.choice(leafs)), 'comment', X.gen_comment(rng)])
    return {'kind': 'program', 'ops': ops, 'decor': decor}

def ascii_only_doc(rng):
    g = X.DocGen(rng, max_depth=2, names=['a', 'b', 'data', 'x'])
    for _ in range(50):
        sd, exp = g.element()
        body = X.serialise(sd, rng)
        if all(ord(c) < 128 for c in body): return body, exp
    return '<a x="1">t</a>', None


def cases_for(ctx):
    rng = ctx.rng
    n = 420 if ctx.tier == 'quick' else 4200
    g = X.DocGen(rng)
    out = []
    for i in range(n):
        c, sd, exp = gen_doc_case(rng, g)
        c['expected'] = exp
        out.append(c)
        body = X.serialise(sd, None)
        out.append(gen_validated(rng, body, exp))
        out.append(gen_replace(rng, body, exp))
        if i % 3 == 0:
            out.append({'kind': 'doc', 'src': malform(rng, c['src'])})
        if i % 4 == 0:
            paths = [p for p in element_paths(exp) if p]
            if paths: out.append({'kind': 'subtail', 'src': body, 'path': rng.choice(paths)})
        if i % 10 == 0:
            b, e2 = ascii_only_doc(rng)
            out.append({'kind': 'doc', 'src': b, 'encoding': 'ISO-8859-1', 'wellformed': True})
        out.append(gen_program(rng))
    return out

# hand-written cases that pin the known corners (run first, with the corpus)
PINNED = [
    {'kind': 'subtail', 'src': '<a><b>x</b>tail<c/></a>', 'path': [0]},
    {'kind': 'replace', 'src': '<a xmlns:p="urn:u" p:x="1"><?pi z?><p:b/></a>', 'old': 'urn:u', 'new': 'urn:v'},
    {'kind': 'replace', 'src': '<a xmlns:p="urn:u" xmlns:q="urn:v" p:x="1" q:x="2"/>', 'old': 'urn:u', 'new': 'urn:v'},
    {'kind': 'program', 'ops': [['new_ele_nsmap', 'hello', [[None, BASE]], []], ['sub_ele', [], 'capabilities', []], ['sub_ele', [0], 'capability', []]], 'decor': [[[0, 0], 'text', 'urn:x']]},
    {'kind': 'program', 'ops': [['new_ele', 'rpc', [['message-id', '1']]], ['sub_ele', [], 'get', []], ['sub_ele_ns', [0], 'filter', None, [['type', 'subtree']]]], 'decor': []},
    {'kind': 'validated', 'src': '<a xmlns="urn:u" x="1" p:y="2" xmlns:p="urn:v"/>', 'tags': ['{urn:u}a'], 'attrs': [['q', 'x'], '{urn:v}y'], 'as_element': False},
    {'kind': 'validated', 'src': '<a x="1"/>', 'tags': None, 'attrs': [[]], 'as_element': True},
    {'kind': 'doc', 'src': '<a x="1"><b></a>'},
    {'kind': 'doc', 'src': '<a>\r\n&#13;&lt;&amp;]]&gt;<!--c--><b q="&#10;&#9;&quot;\'"/>t</a>', 'wellformed': True},
]

def nontrivial(case):
    if case['kind'] == 'program': return len(case['ops']) >= 2
    return case['src'].count('<') >= 3 or '="' in case['src'] or "='" in case['src']

def jsonable(c):
    c = dict(c); c.pop('expected', None); return c

def warm_up(render_first=True):
    """What an application with huge_tree enabled does before anything else: render a transformed reply. Whatever that
    creates or caches inside xml_ must not change how to_ele / to_xml behave afterwards."""
    from ncclient import xml_
    from ncclient.manager import make_device_handler
    from ncclient.operations.rpc import RPCReply
    try:
        for prof in ('junos', 'alu'):
            dh = make_device_handler({'name': prof})
            # render_first: the reply was parsed by an ordinary session, so the first huge_tree use in the process is the rendering
            r = RPCReply('<rpc-reply xmlns="urn:ietf:params:xml:ns:netconf:base:1.0" message-id="1">\n <data> <a xmlns="urn:x"> t </a>\n </data>\n</rpc-reply>', huge_tree=not render_first)
            r.parse()
            n = xml_.NCElement(r, dh.transform_reply(), huge_tree=True)
            n.tostring; n.data_xml; n.find('.//a')
    except Exception:
        pass

def run(ctx):
    warm_up(render_first=(ctx.seed % 2 == 0))
    import sys
    sys.setrecursionlimit(20000)
    cases = []
    cdir = os.path.join(os.path.dirname(os.path.dirname(os.path.dirname(os.path.abspath(__file__)))), 'corpus', 'C17')
    if os.path.isdir(cdir):
        for f in sorted(os.listdir(cdir)):
            if f.endswith('.json'): cases.append(json.load(open(os.path.join(cdir, f)))['case'])
    cases += [dict(c) for c in PINNED]
    cases += cases_for(ctx)
    pending = []
    for case in cases:
        o = evaluate(case)
        jc = jsonable(case)
        ctx.count(jc, nontrivial=nontrivial(case))
        ctx.hist('kind', case['kind'])
        for k, v in o.hist.items(): ctx.hist(k, v)
        if ctx.evaluations % 611 == 1: ctx.sample({'case': jc, 'oracle_failures': len(o.fails)})
        for what, exp, act, sig in o.fails:
            ctx.fail(jc, what, sig=sig, expected=exp, actual=act)
        for call, impl, what, post in o.mcalls:
            pending.append((jc, call, impl, what, post))
    if ctx.model:
        outs = ctx.model.batch([p[1] for p in pending])
        # second pass for the resolved view of program results
        res_idx = [i for i, p in enumerate(pending) if p[4] == 'resolve']
        res_calls = [[5, outs[i][0]] if outs[i] and not isinstance(outs[i], str) else [5, [1, b'']] for i in res_idx]
        res_outs = dict(zip(res_idx, ctx.model.batch(res_calls)))
        for i, (jc, call, impl, what, post) in enumerate(pending):
            mo = outs[i]
            if isinstance(mo, str):
                ctx.disagree(jc, mo, impl, 'model runner error: ' + what); continue
            if post == 'resolve': mo = X.canon(res_outs[i])
            elif post is not None: mo = post(mo)
            if mo != impl:
                ctx.disagree(jc, mo, impl, what, theorem='C17_*')
        ctx.extra['model_calls'] = len(pending) + len(res_calls)
    st = [X.tree_stats(c['expected']) for c in cases if c.get('expected')]
    if st:
        ctx.extra['document_stats'] = dict(max_elements=max(s[0] for s in st), max_depth=max(s[1] for s in st),
                                           mean_elements=round(sum(s[0] for s in st) / len(st), 1), with_comments=sum(1 for s in st if s[3]),
                                           with_pis=sum(1 for s in st if s[4]), multi_namespace=sum(1 for s in st if s[5] > 1))


def search(ctx, seeds):
    """Tie broke: run the property oracle on the disagreeing cases, then on fresh generated ones."""
    import random
    tries = list(seeds)
    class C: pass
    c = C(); c.rng = random.Random(ctx.seed + 1); c.tier = 'quick'
    tries += [jsonable(x) for x in cases_for(c)]
    for case in tries:
        o = evaluate(case)
        if o.fails:
            what, exp, act, sig = o.fails[0]
            return dict(case=jsonable(case), what=what, expected=exp, actual=act, sig=sig)
    return None

def reproduce(finding):
    return bool(evaluate(finding['witness']).fails)

def replay(doc):
    c = doc['case']
    o = evaluate(c)
    print('case     :', json.dumps(c, ensure_ascii=False)[:2000])
    for what, exp, act, sig in o.fails:
        print('failure  :', what); print('expected :', repr(exp)[:1500]); print('actual   :', repr(act)[:1500])
    if not o.fails: print('property holds on this case now')
    return not o.fails
