"""C17 — XML helper round-trips (ncclient/xml_.py).
Model: coq/Model/XTree.v, XmlHelpers.v, XmlHistory.v, XmlSession.v, XmlReparse.v; theorems: coq/Props/C17.v;
harness: tools/harness/xmlgen.py, xmlhist.py (snapshots), xmlsession.py (multi-program sessions),
xmlreparse.py (parse - edit - parse again)."""
import re, json, os, sys, copy
from harness import xmlgen as X
from harness import xmlhist as H
from harness import xmlsession as S
from harness import xmlreparse as R

ID = 'C17'
COQ_ROOTS = ['Props/C17.v', 'GenProps/XmlHelpers_consts.v']
RULE = ('Generated documents (names incl. non-ASCII, default/prefixed/undeclared namespaces, redundant prefixes, attributes '
        'incl. same local name in two namespaces, Unicode text with CR/LF/TAB and markup characters, CDATA, comments, PIs, '
        'mixed content, nesting <= 5) serialised by the harness; constructor programs over new_ele/new_ele_ns/new_ele_nsmap/'
        'sub_ele/sub_ele_ns with random parents and attribute dictionaries; requirement sets for validated_element (str/list/'
        'tuple/empty/malformed alternatives); namespace pairs (present, absent, None) for replace_namespace; child elements '
        'with tails; truncated/garbled documents for parse_root; HISTORIES of 3-8 helper calls on ONE tree (parsed or built): '
        'to_xml (default/explicit encoding, pretty_print), to_ele, validated_element, parse_root, a fresh parse, NCElement '
        'views, constructor probes, replace_namespace / sub_ele / sub_ele_ns at random elements, always ending with to_xml of '
        'the whole tree; after every call a deep snapshot of the caller\'s tree (tag, prefix, nsmap, attributes, text, tail, '
        'children, siblings of the root, docinfo) and of the argument objects is compared with the one before; SESSIONS: one '
        'process builds 5-7 trees through the five constructors, one program after the other or interleaved, attributes omitted / '
        'literal / a dictionary the caller keeps, passes again and updates itself / keyword arguments (incl. names that collide '
        'with the mapping, non-identifier and namespaced names), attrs positional or by name, the last programs written without '
        'any attribute; after every call the element made is compared with what the call specifies, every other tree and the '
        'caller\'s dictionaries with what they were, the default arguments of every function of xml_ (by value) with those at '
        'the start, and every tree is serialised and read back (to_ele, expat) against the tree ITS OWN program specifies; '
        'RE-PARSE histories: one process parses 1-2 texts (documents, rpc-replies around documents) 2-7 times through to_ele '
        '(huge_tree omitted / False / True, by keyword and by position), validated_element(text), RPCReply.parse, '
        'GetReply.data_ele, NCElement(reply, stylesheet) and parse_root, and between the parses changes the trees it got back in '
        'place (replace_namespace, sub_ele, sub_ele_ns, attributes, text, tails, removing a child, moving a child into another '
        'tree, writing into the attribute mapping parse_root returned); always parse(s) -> edits -> parse(s) with the same parser '
        'variant within <= 2 other calls; every tree handed out is compared with the independent reader\'s tree of THAT text, must '
        'share no node with a tree handed out before, must equal (deep snapshot) the first tree handed out for the text, and after '
        'every call every tree the call was not given is compared with its snapshot before; about 40 % of the re-parse histories '
        'contain 1-3 calls (any helper, either parser variant) that MUST RAISE - text not well-formed (short, or with the defect '
        'beyond the first 64K characters), text with a lone surrogate (short / beyond 64K / beyond 128K characters of an otherwise '
        'fine document), a text node > 10 000 000 octets without huge_tree, validated_element with a tag / attribute requirement '
        'the root does not meet; the exception class is the documented one (decided from the text and an independent reading), '
        'nothing is handed out, no tree changes, and the good parses that follow (same parser variant first, mostly the other one '
        'too, 30 % of a well-formed document > 64K characters with 2-4-octet characters) are checked like any other. '
        'A case is one (kind, document/program, arguments); non-trivial = the tree has >= 2 elements or >= 1 attribute '
        '(documents) / >= 2 operations (programs, histories, sessions).')
ASSUMES = ['libxml2 parser/serialiser (lxml 6.1.3) are oracles of the model: the parser is represented by the event stream of the '
           'independent reader (expat) on the same octets, the serialiser by its output octets',
           'to_xml is exercised with the default encoding and with ISO-8859-1 on documents whose serialisation is ASCII '
           '(other encodings are outside the property: the function decodes the serialiser output as UTF-8)',
           'attribute dictionaries passed to constructors do not contain an un-namespaced attribute named xmlns',
           'keyword attributes are never named like a parameter of the helpers or of lxml (tag, parent, ns, nsmap, attrs, attrib); a keyword wins over the same name in the mapping (ElementTree semantics)',
           'lxml binds a new element to an in-scope prefix if one names its namespace, else to the default declaration, else to a fresh prefix (bind_elem); validated by every program case']
TRUSTED = ['modelled, not verified: libxml2 parsing/serialisation, lxml namespace binding, expat (independent reader)']

BASE = 'urn:ietf:params:xml:ns:netconf:base:1.0'
B = X.B

# ------------------------------------------------------------------ helpers
def exc_name(e): return type(e).__name__

def count_decl(out):
    """(number of leading XML declarations, remainder)"""
    n = 0
    while True:
        m = re.match(r'<\?xml[ \t\r\n][^>]*?\?>[ \t\r\n]*', out)
        if not m: return n, out
        n += 1; out = out[m.end():]

def decl_ok(out):
    n, rest = count_decl(out)
    return n == 1 and re.match(r'<[^?!/\s]', rest) is not None, n

def clark(n):
    return ('{%s}%s' % (n[0][0].decode(), n[1].decode())) if n[0] else n[1].decode()

def nsval(u): return [B(u)] if u else []

def attrs_val(d): return [[X._lx_name(k), B(v)] for k, v in d]

def m_to_x(m):
    if m[0] != 0: return m
    return [0, m[1], m[4], [m_to_x(k) for k in m[5]]]

def spec_rename(t, old, new):
    """Independent statement of replace_namespace on a tree: exactly the names in `old` move to `new`."""
    if t[0] != 0: return t
    o, n = nsval(old), nsval(new)
    f = lambda nm: [n, nm[1]] if nm[0] == o else nm
    return [0, f(t[1]), [[f(a[0]), a[1]] for a in t[2]], [spec_rename(k, old, new) for k in t[3]]]

def rename_collides(t, old, new):
    if t[0] != 0: return False
    o, n = nsval(old), nsval(new)
    ks = [[n, a[0][1]] if a[0][0] == o else a[0] for a in t[2]]
    return len({json.dumps([k[0] and k[0][0].hex(), k[1].hex()]) for k in ks}) != len(ks) or any(rename_collides(k, old, new) for k in t[3])

def default_in_scope_anywhere(m, d=None):
    """some element of the in-memory tree lies in a default-namespace scope"""
    if m[0] != 0: return False
    for has_p, u in m[3]:
        if not has_p: d = u or None
    return bool(d) or any(default_in_scope_anywhere(k, d) for k in m[5])


class Out:
    """Result of evaluating one case on the implementation."""
    def __init__(self): self.fails, self.mcalls, self.hist = [], [], {}
    def fail(self, what, expected=None, actual=None, sig=None): self.fails.append((what, expected, actual, sig))
    def model(self, call, impl_value, what, post=None): self.mcalls.append((call, impl_value, what, post))


# ------------------------------------------------------------------ case kinds
def run_doc(case, o):
    from ncclient import xml_
    from lxml import etree
    src, exp = case['src'], case.get('expected')
    evs = X.expat_events(src)
    try: ind_src = X.canon(X.tree_from_events(evs))
    except ValueError: ind_src = None
    # --- parse_root vs full parse
    try: pr = xml_.parse_root(src); pr = [X._lx_name(pr[0]), sorted([X._lx_name(k), B(v)] for k, v in pr[1].items())]
    except Exception as e: pr = None
    ht = bool(case.get('huge'))
    try: e = xml_.to_ele(src, huge_tree=ht) if ht else xml_.to_ele(src)
    except Exception as ex: e = None
    first = next((x for x in evs if x[0] in 'sx'), None)
    if pr is not None and (first is None or first[0] == 'x'):
        # libxml2's push parser reports the root of a start tag that is cut at end of input; expat does not
        o.hist['parse_root'] = 'lenient-at-eof (not compared)'
    else:
        o.model([6, X.events_val(evs)], pr, 'parse_root vs parse_root_ev on the independent event stream',
                post=lambda v: [v[0], sorted(v[1])] if v else None)
    o.model([7, X.events_val(evs)], X.canon(X.lx_tree(e)) if e is not None else None, 'to_ele vs build on the independent event stream',
            post=lambda v: X.canon(v[0]) if v else None)
    if e is None:
        o.hist['doc'] = 'rejected'
        if ind_src is not None and case.get('wellformed'):
            o.fail('to_ele rejects a well-formed document', expected='tree', actual='exception')
        return
    o.hist['doc'] = 'parsed'
    full = X.lx_tree(e)
    if pr is None or pr != [full[1], sorted(full[2])]:
        o.fail('parse_root disagrees with the full parse', expected=[full[1], sorted(full[2])], actual=pr)
    if exp is not None and X.canon(full) != X.canon(exp):
        o.fail('to_ele tree differs from the generated document', expected=X.canon(exp), actual=X.canon(full))
    want = X.canon(exp) if exp is not None else ind_src
    # --- serialise, parse back, independent reader
    enc = case.get('encoding', 'UTF-8')
    try:
        out = xml_.to_xml(e, encoding=enc) if 'encoding' in case else xml_.to_xml(e)
    except Exception as ex:
        o.fail('to_xml raised %s' % exc_name(ex), expected='string', actual=exc_name(ex)); return
    ok, n = decl_ok(out)
    if not ok:
        o.fail('serialised form does not carry exactly one XML declaration (%d)' % n, expected=1, actual=n)
    try: back = X.canon(X.lx_tree(xml_.to_ele(out, huge_tree=ht) if ht else xml_.to_ele(out)))
    except Exception as ex: back = 'to_ele: ' + exc_name(ex)
    if back != want:
        o.fail('to_ele(to_xml(t)) is not equivalent to t', expected=want, actual=back)
    try: ind = X.canon(X.indep_read(out))
    except ValueError as ex: ind = str(ex)
    if ind != want:
        o.fail('independent reader reads to_xml(t) differently', expected=want, actual=ind)
    ser = etree.tostring(e, encoding=enc, with_tail=False)
    o.model([1, ser, B(enc)], B(out), 'to_xml declaration branch')
    o.hist['branch'] = 'serialiser-declared' if ser.startswith(b'<?xml') else 'prepended'


def run_subtail(case, o):
    """to_xml of a child element that has a tail (what GetReply.data_xml does)."""
    from ncclient import xml_
    e = xml_.to_ele(case['src'])
    for i in case['path']: e = e[i]
    want = X.canon(X.lx_resolved(e))
    out = xml_.to_xml(e)
    ok, n = decl_ok(out)
    if not ok: o.fail('child serialisation: not exactly one declaration', expected=1, actual=n)
    try: back = X.canon(X.lx_tree(xml_.to_ele(out)))
    except Exception as ex: back = 'to_ele: ' + exc_name(ex)
    if back != want: o.fail('to_ele(to_xml(child)) is not equivalent to the child', expected=want, actual=back, sig=None)
    try: ind = X.canon(X.indep_read(out))
    except ValueError as ex: ind = str(ex)
    if ind != want: o.fail('independent reader reads to_xml(child) differently', expected=want, actual=ind)
    o.hist['tail'] = 'blank' if not (e.tail or '').strip() else 'non-blank'


def py_tags(t):
    if isinstance(t, dict): return tuple(t['tuple'])
    return t

def run_validated(case, o):
    from ncclient import xml_
    src, tags, attrs = case['src'], py_tags(case['tags']), case['attrs']
    pattrs = None if attrs is None else [py_tags(r) for r in attrs]
    x = xml_.to_ele(src) if case.get('as_element') else src
    root = xml_.to_ele(src)
    try:
        r = xml_.validated_element(x, tags, pattrs); res = 0
        if r.tag != root.tag: o.fail('validated_element returned another element')
    except xml_.XMLError as ex:
        res = 1 if 'does not meet requirement' in str(ex) else 2
    except ValueError: res = 3
    except Exception as ex: res = 'exc:' + exc_name(ex)
    rn = X._lx_name(root.tag); ks = [X._lx_name(k) for k in root.attrib.keys()]
    # model
    if tags is None: mt = []
    elif isinstance(tags, str): mt = [0, B(tags)]
    else: mt = [1, [B(t) for t in tags]]
    mr = [[0, B(r)] if isinstance(r, str) else [1, [B(a) for a in r]] for r in (pattrs or [])]
    o.model([2, mt, mr, rn, ks], res, 'validated_element vs validated')
    # oracle: accepts exactly when the root tag is allowed and every requirement has a present alternative
    alts = [a for r in (pattrs or []) for a in ([r] if isinstance(r, str) else r)]
    malformed = any(a == '' or (a.startswith('{') and ('}' not in a or a.endswith('}'))) for a in alts)
    o.hist['validated'] = 'malformed-alt' if malformed else ('accept' if res == 0 else 'reject')
    if not malformed:
        tl = [] if not tags else ([tags] if isinstance(tags, str) else list(tags))
        keyset = {clark(k) for k in ks}
        norm = lambda a: a[2:] if a.startswith('{}') else a
        want = (not tl or root.tag in tl) and all(any(norm(a) in keyset for a in ([r] if isinstance(r, str) else r)) for r in (pattrs or []))
        if want != (res == 0):
            o.fail('validated_element accepts=%r but the rule says %r' % (res == 0, want), expected=want, actual=res)


def run_replace(case, o):
    from ncclient import xml_
    old, new = case['old'], case['new']
    e = xml_.to_ele(case['src'])
    before_m = X.lx_mnode(e)
    before = X.lx_tree(e)
    try:
        xml_.replace_namespace(e, old, new); err = None
    except Exception as ex: err = exc_name(ex)
    after = X.lx_tree(e)
    o.model([3, nsval(old), nsval(new), before_m], None if err else after, 'replace_namespace vs replace_ns (in-memory names, attribute order)',
            post=lambda v: m_to_x(v))
    if err:
        o.fail('replace_namespace raised ' + err, expected='renamed tree', actual=err); return
    coll = rename_collides(before, old, new)
    o.hist['replace'] = 'collision' if coll else ('noop' if X.canon(after) == X.canon(before) else 'renamed')
    if coll: return
    want = X.canon(spec_rename(before, old, new))
    if X.canon(after) != want:
        o.fail('replace_namespace did not rename exactly the names of the old namespace (in memory)', expected=want, actual=X.canon(after))
    # what a reader of the serialised result sees (parsed documents are clean)
    if new is not None or not default_in_scope_anywhere(before_m):
        try: ind = X.canon(X.indep_read(xml_.to_xml(e)))
        except Exception as ex: ind = exc_name(ex) + ': ' + str(ex)[:80]
        if ind != want:
            o.fail('serialised result of replace_namespace differs from the exact renaming', expected=want, actual=ind)


def build_program(ops):
    """run a constructor program; attrs None = the argument is omitted (the helper's default is used).
    Returns (root, model ops, node-at-path function)."""
    from ncclient import xml_
    root, mops = None, []
    def node(path):
        n = root
        for i in path: n = n[i]
        return n
    def A(a): return () if a is None else (dict(a),)
    for op in ops:
        k = op[0]
        if k == 'new_ele':
            root = xml_.new_ele(op[1], *A(op[2])); mops.append([0, B(op[1]), attrs_val(op[2] or [])])
        elif k == 'new_ele_ns':
            root = xml_.new_ele_ns(op[1], op[2], *A(op[3])); mops.append([1, B(op[1]), nsval(op[2]), attrs_val(op[3] or [])])
        elif k == 'new_ele_nsmap':
            root = xml_.new_ele_nsmap(op[1], {p: u for p, u in op[2]}, *A(op[3]))
            mops.append([2, B(op[1]), [[1 if p else 0, B(u)] for p, u in op[2]], attrs_val(op[3] or [])])
        elif k == 'sub_ele':
            xml_.sub_ele(node(op[1]), op[2], *A(op[3])); mops.append([3, op[1], B(op[2]), attrs_val(op[3] or [])])
        elif k == 'sub_ele_ns':
            xml_.sub_ele_ns(node(op[1]), op[2], op[3], *A(op[4])); mops.append([4, op[1], B(op[2]), nsval(op[3]), attrs_val(op[4] or [])])
    return root, mops, node


def decorate(node, decor):
    """text / tails / comments set through the lxml API"""
    from lxml import etree
    for path, kind, s in decor:
        n = node(path)
        if kind == 'text': n.text = s
        elif kind == 'tail' and path: n.tail = s
        elif kind == 'comment': n.append(etree.Comment(s))


def run_program(case, o):
    from ncclient import xml_
    root, mops, node = build_program(case['ops'])
    mem = X.m_strip(X.lx_mnode(root))
    def post_mem(v):
        return canon_m(X.m_strip(v[0])) if v else None
    o.model([4, mops], canon_m(mem), 'constructors: in-memory tag, prefix flag, attributes', post=post_mem)
    out = xml_.to_xml(root)
    ind = X.canon(X.indep_read(out))
    o.model([4, mops], ind, 'constructors: namespace-resolved view = what the independent reader sees', post='resolve')
    wrinkle = X.canon(X.lx_tree(root)) != ind
    o.hist['program'] = 'wrinkle(un-namespaced child in default scope)' if wrinkle else 'plain'
    # decorate with text/tails/comments through the lxml API, then the round-trip oracle
    decorate(node, case.get('decor', []))
    want = X.canon(X.lx_resolved(root))
    out = xml_.to_xml(root)
    ok, nd = decl_ok(out)
    if not ok: o.fail('program tree: not exactly one declaration', expected=1, actual=nd)
    try: back = X.canon(X.lx_tree(xml_.to_ele(out)))
    except Exception as ex: back = 'to_ele: ' + exc_name(ex)
    if back != want: o.fail('to_ele(to_xml(t)) is not equivalent to the constructed tree (resolved view)', expected=want, actual=back)
    try: ind = X.canon(X.indep_read(out))
    except ValueError as ex: ind = str(ex)
    if ind != want: o.fail('independent reader reads the constructed tree differently', expected=want, actual=ind)


# ------------------------------------------------------------------ histories of calls on one caller-owned tree
def validated_rule(tag, keyset, tags, pattrs):
    """(some alternative is malformed?, accepted by the property's rule?)"""
    alts = [a for r in (pattrs or []) for a in ([r] if isinstance(r, str) else r)]
    malformed = any(a == '' or (a.startswith('{') and ('}' not in a or a.endswith('}'))) for a in alts)
    tl = [] if not tags else ([tags] if isinstance(tags, str) else list(tags))
    norm = lambda a: a[2:] if a.startswith('{}') else a
    want = (not tl or tag in tl) and all(any(norm(a) in keyset for a in ([r] if isinstance(r, str) else r)) for r in (pattrs or []))
    return malformed, want


def check_serialised(o, label, out, want, blanks_free=False):
    """`out` is one document: exactly one declaration, and both to_ele and the independent reader see `want`
    (blanks_free: modulo white-space-only text, for pretty-printed output)."""
    from ncclient import xml_
    if isinstance(out, bytes): out = out.decode('utf-8')
    ok, n = decl_ok(out)
    if not ok: o.fail(label + ': not exactly one XML declaration', expected=1, actual=n)
    cn = (lambda t: X.canon(t, drop_blank=True)) if blanks_free else X.canon
    want = cn(want)
    try: back = cn(X.lx_tree(xml_.to_ele(out)))
    except Exception as ex: back = 'to_ele: ' + exc_name(ex)
    if back != want: o.fail(label + ': to_ele(to_xml(t)) is not equivalent to t', expected=want, actual=back)
    try: ind = cn(X.indep_read(out))
    except ValueError as ex: ind = str(ex)
    if ind != want: o.fail(label + ': independent reader reads to_xml(t) differently', expected=want, actual=ind)


OBSERVERS = ('to_xml', 'to_ele', 'validated', 'parse_root', 'parse', 'nce', 'probe')
PATH_STEPS = ('to_xml', 'to_ele', 'validated', 'parse_root', 'replace', 'sub_ele', 'sub_ele_ns')

def hist_view(trace, flags_upto):
    """comparable form of a history trace [[mnode after the call, result]..]: names as stored, attribute order,
    text and tails of the whole tree after every call; prefix flags for constructor-built trees until the first
    replace_namespace (lxml's re-binding after a rename is not modelled)"""
    out = []
    for i, (st, ob) in enumerate(trace):
        ob = [ob[0], m_to_x(ob[1])] if ob[0] in (1, 2) else ob
        out.append([m_to_x(st), canon_m(X.m_strip(st)) if i < flags_upto else None, ob])
    return out


def run_history(case, o):
    """A caller keeps ONE tree and hands elements of it to the helpers, in some order.  After every call: observers
    left the tree (and their argument objects) exactly as they were, in-place helpers changed the element they were
    given as documented and nothing beside it; every result is the one the property demands of the tree as it then is
    (for parsed documents, until the first in-place edit: of the document as the independent reader sees it)."""
    from ncclient import xml_
    src = case.get('src')
    if src is not None:
        root = xml_.to_ele(src)
        def node(path):
            n = root
            for i in path: n = n[i]
            return n
        try: ref0 = X.canon(X.indep_read(src))
        except ValueError: ref0 = None
    else:
        root, _, node = build_program(case['ops']); decorate(node, case.get('decor', []))
        ref0 = None
    ref = ref0
    init_m = X.lx_mnode(root)
    mops, trace, flags_upto = [], [], None
    snap = H.snapshot(root)
    tails_done, tail_then_ancestor = [], False
    for si, st in enumerate(case['steps']):
        k = st[0]
        path = list(st[1]) if k in PATH_STEPS else []
        n = node(path)
        label = 'history step %d (%s at /%s)' % (si, k, '/'.join(map(str, path)))
        before = snap
        want = X.canon(H.x_at(ref, path)) if ref is not None else X.canon(X.lx_resolved(n))
        tag0, keys0 = str(n.tag), [str(a) for a in n.attrib.keys()]
        obs, mop = [2, X.lx_mnode(n)], [1, path]         # steps the model does not know are 'look at the element'
        if k == 'to_xml':
            enc, pretty = st[2], bool(st[3])
            kw = {}
            if enc is not None: kw['encoding'] = enc
            if pretty: kw['pretty_print'] = True
            if any(path == q[:len(path)] and path != q for q in tails_done): tail_then_ancestor = True
            if path and n.tail: tails_done.append(path)
            check_serialised(o, label, xml_.to_xml(n, **kw), want, blanks_free=pretty)
            obs, mop = [1, X.lx_mnode(n)], [0, path, B(enc or 'UTF-8')]
        elif k == 'to_ele':
            r = xml_.to_ele(n)
            if r is not n: o.fail(label + ': to_ele(element) did not return that element')
        elif k == 'validated':
            tags, attrs = py_tags(st[2]), st[3]
            pattrs = None if attrs is None else [py_tags(r) for r in attrs]
            a_tags, a_attrs = copy.deepcopy(tags), copy.deepcopy(pattrs)
            try:
                r = xml_.validated_element(n, a_tags, a_attrs); res = 0
                if r is not n: o.fail(label + ': validated_element(element) returned another object')
            except xml_.XMLError as ex: res = 1 if 'does not meet requirement' in str(ex) else 2
            except ValueError: res = 3
            except Exception as ex: res = 'exc:' + exc_name(ex)
            if (a_tags, a_attrs) != (tags, pattrs):
                o.fail(label + ': validated_element modified its tags/attrs arguments', expected=[repr(tags), repr(pattrs)], actual=[repr(a_tags), repr(a_attrs)])
            malformed, acc = validated_rule(tag0, set(keys0), tags, pattrs)
            if not malformed and acc != (res == 0):
                o.fail(label + ': validated_element accepts=%r but the rule says %r' % (res == 0, acc), expected=acc, actual=res)
            if tags is None: mt = []
            elif isinstance(tags, str): mt = [0, B(tags)]
            else: mt = [1, [B(t) for t in tags]]
            mr = [[0, B(r)] if isinstance(r, str) else [1, [B(a) for a in r]] for r in (pattrs or [])]
            obs, mop = [3, res], [2, path, mt, mr]
        elif k == 'parse_root':
            try: pr = xml_.parse_root(xml_.to_xml(n)); pr = [X._lx_name(pr[0]), sorted([X._lx_name(a), B(v)] for a, v in pr[1].items())]
            except Exception as ex: pr = exc_name(ex)
            if pr != [want[1], want[2]]:
                o.fail(label + ': parse_root(to_xml(element)) is not the element\'s tag and attributes', expected=[want[1], want[2]], actual=pr)
        elif k == 'parse':
            text = src if src is not None else xml_.to_xml(root)
            try: rd = X.canon(X.indep_read(text))
            except ValueError as ex: rd = str(ex)
            try:
                e2 = xml_.to_ele(text); got = X.canon(X.lx_tree(e2))
                if e2 is root: o.fail(label + ': to_ele(text) returned the caller\'s earlier tree')
            except Exception as ex: got = 'to_ele: ' + exc_name(ex)
            if got != rd: o.fail(label + ': a fresh to_ele of the document differs from the independent reading', expected=rd, actual=got)
        elif k == 'nce':
            class R: pass
            r = R(); r._root = root
            nce = xml_.NCElement(r, (lambda x: x))
            if st[1] == 'data_xml': check_serialised(o, label + ' data_xml', nce.data_xml, want)
            else:
                # the pretty-printed rendering (ASCII with character references; not a C17 serialiser): only what it
                # leaves behind is looked at
                try: nce.tostring if st[1] == 'tostring' else str(nce)
                except Exception: o.hist['history: NCElement.tostring'] = 'raised (not compared)'
        elif k == 'probe':
            e1 = xml_.new_ele('probe'); made = [e1, xml_.new_ele_ns('probe', None), xml_.new_ele_nsmap('probe', {}), xml_.sub_ele(e1, 'k'), xml_.sub_ele_ns(e1, 'k', None)]
            if any(len(x.attrib) for x in made) or len(e1) != 2 or any(x.text or x.tail for x in made):
                o.fail(label + ': a constructor called without attributes made an element with attributes/text',
                       expected=[[]] * 5, actual=[sorted(x.attrib.items()) for x in made])
        elif k == 'replace':
            old, new = st[2], st[3]
            bt = X.lx_tree(n)
            try: xml_.replace_namespace(n, old, new); err = None
            except Exception as ex: err = exc_name(ex)
            if err: o.fail(label + ': replace_namespace raised ' + err, expected='renamed tree', actual=err)
            elif not rename_collides(bt, old, new):
                w = X.canon(spec_rename(bt, old, new))
                if X.canon(X.lx_tree(n)) != w:
                    o.fail(label + ': replace_namespace did not rename exactly the names of the old namespace below the element it was given', expected=w, actual=X.canon(X.lx_tree(n)))
            obs, mop = [0], [3, path, nsval(old), nsval(new)]
            ref = None
            if flags_upto is None: flags_upto = si
        elif k in ('sub_ele', 'sub_ele_ns'):
            tag = st[2]; ns = st[3] if k == 'sub_ele_ns' else None; attrs = st[-1]
            d = None if attrs is None else dict(attrs); d0 = copy.deepcopy(d)
            pns = X.lx_resolved(n)[1][0]
            args = (n, tag) + ((ns,) if k == 'sub_ele_ns' else ()) + (() if d is None else (d,))
            c = getattr(xml_, k)(*args)
            if d != d0: o.fail(label + ': the attribute dictionary handed to the constructor was modified', expected=d0, actual=d)
            nb, na = H.node_at(before['root'], path), snap_node_of(n)
            if na[:6] != nb[:6] or na[6][:-1] != nb[6] or len(na[6]) != len(nb[6]) + 1:
                o.fail(label + ': the parent did not keep everything it had', expected=nb, actual=[na[:6], na[6][:-1]],
                       sig=None)
            else:
                cs, ctail = na[6][-1]
                wname = [[B(ns)] if ns else [], B(tag)] if k == 'sub_ele_ns' else [pns, B(tag)]
                gname = X.lx_resolved(c)[1]
                if k == 'sub_ele_ns' and not ns: gname = X._lx_name(c.tag)
                if (c is not n[-1] or ctail is not None or cs[0] != 'e' or cs[5] is not None or cs[6] != [] or gname != wname
                        or cs[4] != [[a, v] for a, v in (d0 or {}).items()]):
                    o.fail(label + ': the new last child is not the element asked for', expected=[wname, list((d0 or {}).items())], actual=[gname, cs[4], cs[5], ctail, cs[6]])
            mop = [4, path, B(tag), attrs_val(attrs or [])] if k == 'sub_ele' else [5, path, B(tag), nsval(ns), attrs_val(attrs or [])]
            obs = [0]
            ref = None
        after = H.snapshot(root)
        if k in OBSERVERS:
            if after != before:
                o.fail(label + ': the call changed the caller\'s tree: ' + str(H.first_diff(before, after)),
                       expected='the tree as it was before the call', actual=str(H.first_diff(before, after)))
        else:
            fb, fa = H.mask(before, path), H.mask(after, path)
            if fb != fa:
                o.fail(label + ': the in-place helper changed something beside the element it was given: ' + str(H.first_diff(fb, fa)),
                       expected='unchanged outside /' + '/'.join(map(str, path)), actual=str(H.first_diff(fb, fa)))
        snap = after
        mops.append(mop); trace.append([X.lx_mnode(root), obs])
    upto = len(trace) if flags_upto is None else flags_upto
    if src is not None: upto = 0          # a parsed document may re-declare a namespace redundantly, which nsmap does not show
    o.model([9, init_m, mops], hist_view(trace, upto), 'history: the tree and the result after every call vs htrace',
            post=lambda v: hist_view(v, upto))
    o.hist['history'] = 'observers only' if flags_upto is None and all(s[0] in OBSERVERS for s in case['steps']) else 'with in-place edits'
    o.hist['history: sub-element with a tail serialised before an ancestor'] = 'yes' if tail_then_ancestor else 'no'


# ------------------------------------------------------------------ sessions: independent constructor programs in one process
def pairs_val(pairs): return [[X._lx_name(k), B(v)] for k, v in pairs]

def aarg_val(a):
    if a is None: return []
    return [0, a[1]] if a[0] == 'd' else [1, pairs_val(a[1])]

def session_state(xml_, dicts, trees):
    return [[pairs_val(S.ctor_default_attrs(xml_, c)) for c in S.CTORS], [pairs_val(list(d.items())) for d in dicts],
            [X.m_strip(X.lx_mnode(r)) for r in trees]]

def run_session(case, o):
    """One process builds SEVERAL trees, one program after the other (or interleaved): attributes omitted, given as a
    literal, as a dictionary the caller keeps and passes again (and updates itself in between), as keyword arguments.
    After every call: the element made is the one that call specifies; every other tree, and everything in the
    addressed tree beside the parent, is as it was; the dictionaries are what the caller wrote; the default arguments
    of every function of the module are what they were.  Every tree serialises / reads back (to_ele and expat) as what
    ITS OWN program specifies (S.SpecForest: computed from the calls alone)."""
    from ncclient import xml_
    dicts = [dict((k, v) for k, v in d) for d in case.get('dicts', [])]      # the caller's live dictionaries
    shadow = [dict(d) for d in dicts]                                         # what the caller itself wrote into them
    spec = S.SpecForest(case.get('dicts', []))
    d0 = S.defaults_snapshot(xml_)
    init = session_state(xml_, dicts, [])
    trees, mops, trace = [], [], []
    used = set()
    def node(t, path):
        n = trees[t]
        for i in path: n = n[i]
        return n
    for si, st in enumerate(case['steps']):
        k = st[0]
        label = 'session step %d (%s)' % (si, k)
        snaps = [H.snapshot(r) for r in trees]
        if k == 'to_xml':
            check_serialised(o, label + ' tree %d' % st[1], xml_.to_xml(trees[st[1]]), spec.xnode(st[1]))
            if [H.snapshot(r) for r in trees] != snaps: o.fail(label + ': to_xml changed a tree of the caller')
            continue
        if k == 'dict_set':
            dicts[st[1]][st[2]] = st[3]; shadow[st[1]][st[2]] = st[3]; spec.apply(st)
            mops.append([5, st[1], X._lx_name(st[2]), B(st[3])]); trace.append(session_state(xml_, dicts, trees))
            if [H.snapshot(r) for r in trees] != snaps:
                o.fail(label + ': an assignment to the caller\'s dictionary changed a tree that was built from it earlier')
            continue
        aarg, kw = st[-2], st[-1]
        lit = lit0 = None
        if aarg is None: pos, named = (), {}
        else:
            if aarg[0] == 'd': val = dicts[aarg[1]]
            else: lit = dict((a, v) for a, v in aarg[1]); lit0 = dict(lit); val = lit
            pos, named = ((), {'attrs': val}) if aarg[2] else ((val,), {})
        named.update(dict((a, v) for a, v in kw))
        used.add(('omitted' if aarg is None else {'d': 'caller dictionary', 'l': 'literal'}[aarg[0]]) + ('+keywords' if kw else ''))
        t = path = parent = None
        if k == 'new_ele': args = (st[1],); mop = [0, B(st[1])]
        elif k == 'new_ele_ns': args = (st[1], st[2]); mop = [1, B(st[1]), nsval(st[2])]
        elif k == 'new_ele_nsmap': args = (st[1], {p: u for p, u in st[2]}); mop = [2, B(st[1]), [[1 if p else 0, B(u)] for p, u in st[2]]]
        else:
            t, path = st[1], list(st[2]); parent = node(t, path)
            if k == 'sub_ele': args = (parent, st[3]); mop = [3, t, path, B(st[3])]
            else: args = (parent, st[3], st[4]); mop = [4, t, path, B(st[3]), nsval(st[4])]
        mops.append(mop + [aarg_val(aarg), pairs_val(kw)])
        try: c = getattr(xml_, k)(*(args + pos), **named)
        except Exception as ex:
            o.fail(label + ': the constructor raised ' + exc_name(ex), expected='an element', actual=exc_name(ex)); return
        want = spec.apply(st)
        # --- what the call was given is as it was
        dn = S.defaults_snapshot(xml_)
        if dn != d0:
            o.fail(label + ': the call changed the default arguments of a function of the module: ' + str(S.defaults_diff(d0, dn)),
                   expected='defaults as before the call', actual=str(S.defaults_diff(d0, dn)))
            d0 = dn
        if dicts != shadow:
            o.fail(label + ': a dictionary of the caller was modified', expected=repr(shadow), actual=repr(dicts))
            shadow = [dict(d) for d in dicts]
        if lit != lit0: o.fail(label + ': the attribute dictionary handed to the constructor was modified', expected=repr(lit0), actual=repr(lit))
        # --- the element made is the one this call specifies
        wname = [[B(want['ns'])] if want['ns'] else [], B(want['tag'])]
        got = [X.lx_resolved(c)[1], dict(c.attrib), c.text, c.tail, len(c)]
        if got != [wname, want['attrs'], None, None, 0]:
            o.fail(label + ': the element made is not the one the call specifies (name, attributes, no text/tail/children)',
                   expected=[wname, want['attrs'], None, None, 0], actual=got)
        if parent is None:
            if c.getparent() is not None: o.fail(label + ': a new root element has a parent')
            trees.append(c)
        elif c.getparent() is not parent or parent[-1] is not c:
            o.fail(label + ': the new element is not the last child of the parent given')
        # --- everything else is as it was
        for i, b in enumerate(snaps):
            a = H.snapshot(trees[i])
            if i != t:
                if a != b: o.fail(label + ': the call changed tree %d, which it was not given: %s' % (i, H.first_diff(b, a)),
                                  expected='tree %d as before' % i, actual=str(H.first_diff(b, a)))
                continue
            fb, fa = H.mask(b, path), H.mask(a, path)
            if fb != fa: o.fail(label + ': the call changed something beside the parent it was given: ' + str(H.first_diff(fb, fa)))
            nb, na = H.node_at(b['root'], path), H.node_at(a['root'], path)
            if na[:6] != nb[:6] or na[6][:-1] != nb[6]:
                o.fail(label + ': the parent did not keep everything it had', expected=nb, actual=[na[:6], na[6][:-1]])
        trace.append(session_state(xml_, dicts, trees))
    for t in range(len(trees)):
        check_serialised(o, 'session end, tree %d' % t, xml_.to_xml(trees[t]), spec.xnode(t))
    sview = lambda v: [[s[0], s[1], [X.m_strip(m) for m in s[2]]] for s in v]
    o.model([10, init[0], init[1], mops], trace, 'session: defaults, caller dictionaries and every tree after every call vs strace', post=sview)
    o.hist['session: trees'] = str(len(trees)) if len(trees) < 8 else '8+'
    for u in used: o.hist['session: attrs ' + u] = 'yes'



# ------------------------------------------------------------------ re-parse histories: parse(s) -> in-place edits -> parse(s) again
_XSLT = []
def strip_xslt():
    """the namespace-stripping stylesheet a device handler hands to NCElement"""
    if not _XSLT:
        from ncclient.manager import make_device_handler
        _XSLT.append(make_device_handler({'name': 'junos'}).transform_reply())
    return _XSLT[0]


def hand_out(via, text, root_tag):
    """call one parsing helper on a text; the element the caller gets"""
    from ncclient import xml_
    if via == 'to_ele': return xml_.to_ele(text)
    if via == 'to_ele_kw_false': return xml_.to_ele(text, huge_tree=False)
    if via == 'to_ele_huge': return xml_.to_ele(text, huge_tree=True)
    if via == 'to_ele_huge_pos': return xml_.to_ele(text, True)
    if via == 'validated': return xml_.validated_element(text)
    if via == 'validated_tags': return xml_.validated_element(text, tags=[root_tag, 'zz'])
    if via == 'validated_wrong_tag': return xml_.validated_element(text, tags=list(R.WRONG_TAGS))
    if via == 'validated_missing_attr': return xml_.validated_element(text, attrs=list(R.MISSING_ATTRS))
    huge = R.VIAS[via][0]
    if via.startswith('rpcreply'):
        from ncclient.operations.rpc import RPCReply
        r = RPCReply(text, huge_tree=huge); r.parse(); return r._root
    from ncclient.operations.retrieve import GetReply
    return GetReply(text, huge_tree=huge).data_ele


def run_reparse(case, o):
    """One process parses texts - the same text more than once - and changes the trees it got back in place.  Every
    parse hands out what an independent parser reads from THAT text, as a new tree that shares no node with any tree
    handed out before and equals (deep snapshot) the first tree ever handed out for that text; no call changes a tree it
    was not given; parse_root agrees with the independent reading at every point of the history; serialised trees read
    back as the text (until the caller's first edit) / as the tree then is.  A call that must raise ('fail' steps: the
    text is not well-formed / cannot be encoded / is too large without huge_tree / its root does not meet the
    requirement - decided from the text by R.why_fails) raises the documented exception, hands out nothing, changes no
    tree; every later call is checked exactly as if it had not happened."""
    from ncclient import xml_
    texts = [R.text_of(t) for t in case['texts']]
    reads, roots = [], []
    for t in texts:
        try: e = X.indep_read(t); reads.append(X.canon(e)); roots.append(e)
        except (ValueError, UnicodeEncodeError): reads.append(None); roots.append(None)
    tops, handed, modelled, edited = [], [], [], []        # per tree handed out
    keep = []                                              # what parse_root returned (kept alive, like a caller would)
    first = {}                                             # (text, class of helper) -> snapshot when first handed out
    table, mops, sel, trace = {}, [], [], []
    mindex = []                                            # tree -> index among the modelled trees
    after_fail = False
    def node(k, path):
        n = tops[k]
        for i in path: n = n[i]
        return n
    def view(): return [m_to_x(X.lx_mnode(tops[k])) for k in range(len(tops)) if modelled[k]]
    for si, st in enumerate(case['steps']):
        kind = st[0]
        label = 'reparse step %d (%s)' % (si, ' '.join(str(x) for x in st[:3] if not isinstance(x, list)))
        snaps = [H.snapshot(t) for t in tops]
        given = []                                         # the trees this call was given
        if kind == 'fail':
            via, ti = st[1], st[2]; text = texts[ti]
            huge = (R.VIAS.get(via) or R.FAIL_VIAS[via])[0]
            why = R.why_fails(text, via, huge, roots[ti])
            if why is None:
                o.fail(label + ': malformed case: nothing says this call must raise'); return
            try:
                e = hand_out(via, text, clark(roots[ti][1]) if roots[ti] else 'a'); got = 'returned %s' % type(e).__name__
            except Exception as ex: got = exc_name(ex)
            e = None
            if got != R.EXC[why]:
                o.fail(label + ': %s (%s, %d characters) must raise %s' % (via, why, len(text), R.EXC[why]), expected=R.EXC[why], actual=got)
            # the model: the parser's refusal is the parser table's answer; an exception before / after the parser is RRaised
            if len(text) <= R.MODEL_BAD_MAX:
                h = 1 if huge else 0
                if why in ('syntax', 'oversized'):
                    if (h, ti) not in table: table[(h, ti)] = R.indep_mnode(text, h)
                    mops.append([0, h, B(text)])
                else:
                    mops.append([3, h, text.encode('utf-8', 'surrogatepass')])
            o.hist['reparse: raises ' + why + (' >64K' if len(text) > R.CHUNK else '')] = 'yes'
            o.hist['reparse: raising via ' + via] = 'yes'
            after_fail = True
        elif kind in ('parse', 'nce'):
            ti = st[2]; text = texts[ti]; want = reads[ti]
            if after_fail and kind == 'parse':
                o.hist['reparse: good parse right after a raising call' + (' (>64K)' if len(text) > R.CHUNK else '')] = 'yes'
            after_fail = False
            old_nodes = [n for t in tops for n in t.iter()]
            try:
                if kind == 'parse':
                    e = hand_out(st[1], text, clark(roots[ti][1]) if roots[ti] else 'a')
                else:
                    from ncclient.operations.rpc import RPCReply
                    e = xml_.NCElement(RPCReply(text), strip_xslt(), huge_tree=bool(st[1])).xpath('/*')[0]
            except Exception as ex:
                o.fail(label + ': raised %s on a document the independent reader accepts' % exc_name(ex), expected='a tree', actual=exc_name(ex)); return
            if e is None or not hasattr(e, 'iter'):
                o.fail(label + ': no element was handed out', expected='an element', actual=repr(e)); return
            top = H.top_of(e)
            new_nodes = list(top.iter())
            shared = {id(n) for n in old_nodes} & {id(n) for n in new_nodes}
            if shared or any(top is t for t in tops):
                o.fail(label + ': the tree handed out shares %d node(s) with a tree handed out earlier (tree %s)'
                       % (len(shared), [k for k, t in enumerate(tops) if t is top]), expected='a new tree', actual='an earlier tree / part of it')
            if kind == 'parse':
                got = X.canon(X.lx_tree(top))
                if got != want:
                    o.fail(label + ': the tree handed out differs from the independent reading of the text', expected=want, actual=got)
                if R.VIAS[st[1]][1]:
                    di = R.data_index(roots[ti])
                    if top is e or di >= len(top) or top[di] is not e:
                        o.fail(label + ': data_ele is not the first <data> child of the reply', expected='/%d' % di, actual=str(e.tag))
                is_m = len(text) <= R.MODEL_GOOD_MAX     # (longer documents: the independent reader only)
                if is_m:
                    h = 1 if R.VIAS[st[1]][0] else 0
                    if (h, ti) not in table: table[(h, ti)] = R.indep_mnode(text, h)
                    mops.append([0, h, B(text)])
            snap = H.snapshot(top)
            cls = (ti, kind)
            if cls not in first: first[cls] = snap
            elif snap != first[cls]:
                o.fail(label + ': the tree handed out differs from the first one handed out for the same text: ' + str(H.first_diff(first[cls], snap)),
                       expected='what the first call returned', actual=str(H.first_diff(first[cls], snap)))
            mindex.append(sum(modelled)); tops.append(top); handed.append(e); modelled.append(kind == 'parse' and is_m); edited.append(False)
            o.hist['reparse: via ' + (st[1] if kind == 'parse' else 'NCElement')] = 'yes'
        elif kind == 'parse_root':
            ti = st[1]; want = reads[ti]
            try:
                pr = xml_.parse_root(texts[ti]); got = [X._lx_name(pr[0]), sorted([X._lx_name(a), B(v)] for a, v in pr[1].items())]
            except Exception as ex: pr = None; got = exc_name(ex)
            if got != [want[1], want[2]]:
                o.fail(label + ': parse_root is not the root tag and attributes of the text', expected=[want[1], want[2]], actual=got)
            if pr is not None and st[2]:
                pr[1][st[2][0]] = st[2][1]                 # the caller writes into the attribute mapping it was given
            keep.append(pr)
        elif kind == 'to_xml':
            k = st[1]
            want = reads[case_ti(case, k)] if modelled[k] and not edited[k] else X.canon(X.lx_resolved(tops[k]))
            check_serialised(o, label, xml_.to_xml(tops[k]), want)
        elif kind in R.EDITS:
            k, path = st[1], list(st[2]); n = node(k, path); given = [k]
            edited[k] = True
            if kind == 'replace':
                old, new = st[3], st[4]; bt = X.lx_tree(n)
                try: xml_.replace_namespace(n, old, new); err = None
                except Exception as ex: err = exc_name(ex)
                if err: o.fail(label + ': replace_namespace raised ' + err, expected='renamed tree', actual=err)
                elif not rename_collides(bt, old, new) and X.canon(X.lx_tree(n)) != X.canon(spec_rename(bt, old, new)):
                    o.fail(label + ': replace_namespace did not rename exactly the names of the old namespace', expected=X.canon(spec_rename(bt, old, new)), actual=X.canon(X.lx_tree(n)))
                if modelled[k]: mops.append([1, mindex[k], [3, path, nsval(old), nsval(new)]])
            elif kind in ('sub_ele', 'sub_ele_ns'):
                tag = st[3]; ns = st[4] if kind == 'sub_ele_ns' else None; attrs = st[-1]
                d = None if attrs is None else dict(attrs)
                pns = X.lx_resolved(n)[1][0]; cnt = len(n)
                args = (n, tag) + ((ns,) if kind == 'sub_ele_ns' else ()) + (() if d is None else (d,))
                c = getattr(xml_, kind)(*args)
                wname = [[B(ns)] if ns else [], B(tag)] if kind == 'sub_ele_ns' else [pns, B(tag)]
                if len(n) != cnt + 1 or n[-1] is not c or X.lx_resolved(c)[1] != wname or dict(c.attrib) != dict(attrs or []) or c.text or c.tail or len(c):
                    o.fail(label + ': the new last child is not the element asked for', expected=[wname, attrs], actual=[X.lx_resolved(c)[1], dict(c.attrib), c.text, c.tail, len(c)])
                if modelled[k]:
                    mops.append([1, mindex[k], [4, path, B(tag), attrs_val(attrs or [])] if kind == 'sub_ele' else [5, path, B(tag), nsval(ns), attrs_val(attrs or [])]])
            else:
                # the caller's own edits through the lxml API: the model is told what the tree is afterwards
                if kind == 'set': n.set(st[3], st[4])
                elif kind == 'text': n.text = st[3]
                elif kind == 'tail': n.tail = st[3]
                elif kind == 'remove': n.remove(n[-1])
                elif kind == 'move':
                    j = st[3]; given.append(j)
                    node(j, list(st[4])).append(n[-1]); edited[j] = True
                for g in given:
                    if modelled[g]: mops.append([2, mindex[g], X.lx_mnode(tops[g])])
        else:
            o.fail(label + ': unknown step'); return
        # --- no call changes a tree it was not given
        for k, b in enumerate(snaps):
            if k in given: continue
            a = H.snapshot(tops[k])
            if a != b:
                o.fail(label + ': the call changed tree %d, which it was not given: %s' % (k, H.first_diff(b, a)),
                       expected='tree %d as before' % k, actual=str(H.first_diff(b, a)))
        sel.append(len(mops)); trace.append(view())
    if mops:
        tb = [[h, B(texts[ti]), [m] if m is not None else []] for (h, ti), m in sorted(table.items())]
        def post(v):
            if not isinstance(v, list): return v
            out = [[m_to_x(t) for t in v[i - 1]] if 0 < i <= len(v) else [] for i in sel]
            return out
        o.model([11, tb, mops], trace, 'reparse: every tree handed out so far, after every call, vs rtrace', post=post)
    nsame = {}
    for st in case['steps']:
        if st[0] in ('parse', 'nce'): nsame[st[2]] = nsame.get(st[2], 0) + 1
    o.hist['reparse: most parses of one text'] = str(max(nsame.values())) if nsame else '0'
    o.hist['reparse: raising calls'] = str(sum(1 for st in case['steps'] if st[0] == 'fail'))
    o.hist['reparse: trees'] = str(len(tops))


def case_ti(case, k):
    """the text tree k was made from"""
    return [st[2] for st in case['steps'] if st[0] in ('parse', 'nce')][k]


def snap_node_of(n): return H.snap_node(n)


def run_sequence(case, o):
    """Cases run one after the other in ONE process (a failure that needs what earlier cases left behind in the
    process is replayed together with them); the failures of the last one are the verdict."""
    for i, c in enumerate(case['cases']):
        sub = evaluate(c)
        if i == len(case['cases']) - 1:
            o.fails += [('[after %d earlier cases in the same process] %s' % (i, w), e, a, g) for w, e, a, g in sub.fails]


def fails_alone(case, timeout=300):
    """does the property oracle fail on this case in a fresh process?"""
    import subprocess
    tools = os.path.dirname(os.path.dirname(os.path.abspath(__file__)))
    code = ('import sys, json; sys.path.insert(0, %r); from vlib import paths; import props.c17 as P; paths.use_repo(); '
            'sys.setrecursionlimit(20000); sys.exit(1 if P.evaluate(json.load(sys.stdin)).fails else 0)' % tools)
    try:
        p = subprocess.run([sys.executable, '-c', code], input=json.dumps(case), text=True, capture_output=True, timeout=timeout)
        return p.returncode == 1
    except Exception:
        return False


def self_contained(jc, prior):
    """the case itself if it fails in a fresh process; else the shortest run of its predecessors (lengths 1, 2, 4, ..)
    after which it does, as one 'sequence' case; the case itself if nothing reproduces"""
    if fails_alone(jc): return jc
    n = 1
    while True:
        seq = {'kind': 'sequence', 'cases': prior[-n:] + [jc]}
        if fails_alone(seq): return seq
        if n >= len(prior): return jc
        n *= 2


def canon_m(m):
    if m[0] != 0: return m
    return [0, m[1], m[2], sorted(m[3]), [canon_m(k) for k in m[4]]]

KINDS = {'doc': run_doc, 'subtail': run_subtail, 'validated': run_validated, 'replace': run_replace, 'program': run_program,
         'history': run_history, 'session': run_session, 'reparse': run_reparse, 'sequence': run_sequence}

def evaluate(case):
    o = Out()
    try:
        KINDS[case['kind']](case, o)
    except Exception as ex:
        import traceback
        o.fail('harness/implementation raised %s: %s' % (exc_name(ex), traceback.format_exc()[-400:]), actual=exc_name(ex))
    return o


# ------------------------------------------------------------------ generators
def jx(t):
    """xnode with bytes -> JSON-able (latin-1-free: hex) and back"""
    return t

def gen_doc_case(rng, g):
    sd, exp = g.element()
    body = X.serialise(sd, rng)
    pro = ''
    r = rng.random()
    if r < 0.25: pro = '<?xml version="1.0" encoding="UTF-8"?>' + rng.choice(['', '\n'])
    elif r < 0.3: pro = "<?xml version='1.0'?>\n"
    if rng.random() < 0.15: pro += '<!--prolog-->' + rng.choice(['', '\n', '<?pi x?>'])
    if rng.random() < 0.04: pro += '<!--' + 'long prolog ' * rng.choice([400, 700]) + '-->'      # the root start tag lies beyond 4096 characters
    epi = rng.choice(['', '', '', '\n', '<!--epilog-->', ' <?pi y?>\n'])
    c = {'kind': 'doc', 'src': pro + body + epi, 'wellformed': True}
    if rng.random() < 0.2: c['huge'] = True              # the huge_tree variant of to_ele must behave the same on ordinary documents
    return c, sd, exp

def malform(rng, src):
    r = rng.random()
    if r < 0.45: return src[:rng.randint(0, len(src))]
    if r < 0.6: return 'garbage' + src
    if r < 0.7: return src + '<extra/>'
    if r < 0.8: return src + 'text'
    if r < 0.9: return src.replace('</', '</x', 1)
    return ''

def element_paths(exp, path=()):
    """paths (over element children only) of all elements of an expected tree"""
    out = [list(path)]
    i = 0
    for k in exp[3]:
        if k[0] == 0:
            out += element_paths(k, path + (i,)); i += 1
        elif k[0] in (2, 3): i += 1          # comments and PIs are children in lxml
    return out

def gen_validated(rng, src, exp):
    tag = clark(exp[1]); keys = [clark(a[0]) for a in exp[2]]
    pool = keys + ['x', 'name', '{urn:u}a', '{urn:v}name', 'p:y'] + keys
    bad = ['', '{v', '{}x', '{v}', '{}' + (keys[0] if keys and not keys[0].startswith('{') else 'a')]
    tags = rng.choice([None, '', [], tag, tag, 'other', exp[1][1].decode(), [tag], ['a', tag], ['a', 'b'], {'tuple': [tag, 'zz']}, {'tuple': []},
                       '{urn:u}' + exp[1][1].decode()])
    def req():
        r = rng.random()
        def alt(): return rng.choice(bad) if rng.random() < 0.06 else rng.choice(pool)
        if r < 0.4: return alt()
        if r < 0.47: return []
        return [alt() for _ in range(rng.randint(1, 3))]
    attrs = rng.choice([None, [], 1, 1, 1, 2, 3])
    if isinstance(attrs, int): attrs = [req() for _ in range(attrs)]
    if attrs and keys and rng.random() < 0.5:
        attrs = [rng.choice(keys) if rng.random() < 0.5 else [rng.choice(pool), rng.choice(keys)] for _ in attrs]
    return {'kind': 'validated', 'src': src, 'tags': tags, 'attrs': attrs, 'as_element': rng.random() < 0.5}

def nss_of(exp, acc=None):
    acc = set() if acc is None else acc
    if exp[0] == 0:
        if exp[1][0]: acc.add(exp[1][0][0].decode())
        for a in exp[2]:
            if a[0][0]: acc.add(a[0][0][0].decode())
        for k in exp[3]: nss_of(k, acc)
    return acc

def gen_replace(rng, src, exp):
    present = sorted(nss_of(exp))
    old = rng.choice(present + present + [None, 'urn:absent']) if present else rng.choice([None, 'urn:absent'])
    new = rng.choice(present + ['urn:new', 'urn:new', 'urn:v', None])
    return {'kind': 'replace', 'src': src, 'old': old, 'new': new}

CT_NAMES = ['rpc', 'get', 'filter', 'a', 'b', 'config', 'é', 'name']
CT_NS = [None, BASE, 'urn:u', 'urn:v', 'urn:w']
def gen_attrs(rng):
    d = []
    for _ in range(rng.choice([0, 0, 1, 1, 2])):
        u = rng.choice([None, None, None, BASE, 'urn:u', 'urn:v'])
        l = rng.choice(['a', 'b', 'message-id', 'type', 'é'])
        k = '{%s}%s' % (u, l) if u else l
        if k in [x[0] for x in d]: continue
        d.append([k, X.gen_text(rng, 3, 0.1)])
    return d

def gen_program(rng):
    r = rng.random()
    tag = rng.choice(CT_NAMES)
    if r < 0.3: ops = [['new_ele', tag, opt_attrs(rng, gen_attrs(rng))]]
    elif r < 0.6: ops = [['new_ele_ns', tag, rng.choice(CT_NS), opt_attrs(rng, gen_attrs(rng))]]
    else:
        m = []
        for _ in range(rng.choice([0, 1, 1, 2, 3])):
            p = rng.choice([None, None, 'nc', 'p', 'q'])
            if p in [x[0] for x in m]: continue
            m.append([p, rng.choice([BASE, BASE, 'urn:u', 'urn:v'])])
        ops = [['new_ele_nsmap', tag, m, opt_attrs(rng, gen_attrs(rng))]]
    shape = [0]                       # number of children per path, kept as dict path->count
    kids = {(): 0}
    for _ in range(rng.randint(0, 7)):
        path = rng.choice(sorted(kids))
        t = rng.choice(CT_NAMES)
        if rng.random() < 0.6: ops.append(['sub_ele', list(path), t, opt_attrs(rng, gen_attrs(rng))])
        else: ops.append(['sub_ele_ns', list(path), t, rng.choice(CT_NS), opt_attrs(rng, gen_attrs(rng))])
        kids[path + (kids[path],)] = 0; kids[path] += 1
    decor = []
    for path in sorted(kids):
        if rng.random() < 0.4: decor.append([list(path), 'text', X.gen_text(rng, 4)])
        if path and rng.random() < 0.3: decor.append([list(path), 'tail', X.gen_text(rng, 4)])
    leafs = [p for p in sorted(kids) if kids[p] == 0]
    if leafs and rng.random() < 0.3: decor.append([list(rng.choice(leafs)), 'comment', X.gen_comment(rng)])
    return {'kind': 'program', 'ops': ops, 'decor': decor}

def opt_attrs(rng, a):
    """an empty attribute dictionary is passed explicitly or left to the helper's default"""
    return None if not a and rng.random() < 0.5 else a

def program_counts(ops, decor):
    """{path: number of lxml children} and {path: (tag, attrs)} of the tree a constructor program builds"""
    counts, info = {}, {}
    for op in ops:
        if op[0].startswith('new_'): counts[()] = 0; info[()] = (op[1], op[-1] or [])
        else:
            p = tuple(op[1]); c = p + (counts[p],)
            counts[p] += 1; counts[c] = 0; info[c] = (op[2], op[-1] or [])
    for path, kind, _ in decor:
        if kind == 'comment': counts[tuple(path)] += 1
    return counts, info

def gen_history(rng, src=None, exp=None, prog=None):
    if prog is None:
        counts = H.lx_child_counts(exp)
        def info(p):
            try:
                t = H.x_at(exp, p); return [0, t[1], t[2]]
            except Exception: return None
        present = sorted(nss_of(exp))
        none_ok = 'xmlns=' not in src           # new_ns=None under a default namespace: readers still see the default (notes)
        case = {'kind': 'history', 'src': src}
    else:
        counts, pinfo = program_counts(prog['ops'], prog['decor'])
        def info(p):
            x = pinfo.get(tuple(p))
            return [0, [[B(BASE)], B(x[0])], attrs_val(x[1])] if x else None
        present = [BASE, 'urn:u', 'urn:v']
        none_ok = False
        case = {'kind': 'history', 'ops': prog['ops'], 'decor': prog['decor']}
    added = {}
    steps, replaced = [], False
    for _ in range(rng.randint(2, 7)):
        paths = sorted(counts)
        inner = [p for p in paths if p]
        p = rng.choice(inner) if inner and rng.random() < 0.65 else rng.choice(paths)
        path = list(p)
        r = rng.random()
        if r < 0.36:
            steps.append(['to_xml', path, rng.choice([None, None, None, 'UTF-8', 'utf-8']), rng.random() < 0.15])
        elif r < 0.46:
            e = added.get(p) or info(p) or [0, [[], b'a'], []]
            v = gen_validated(rng, '', e)
            steps.append(['validated', path, v['tags'], v['attrs']])
        elif r < 0.50: steps.append(['to_ele', path])
        elif r < 0.55: steps.append(['parse_root', path])
        elif r < 0.60: steps.append(['parse'])
        elif r < 0.64: steps.append(['nce', rng.choice(['data_xml', 'data_xml', 'tostring', 'str'])])
        elif r < 0.67: steps.append(['probe'])
        elif r < 0.80:
            old = rng.choice(present + present + [None, 'urn:absent']) if present else rng.choice([None, 'urn:absent'])
            new = rng.choice(present + ['urn:new', 'urn:new', 'urn:v'] + ([None] if none_ok else []))
            steps.append(['replace', path, old, new]); replaced = True
        else:
            tag = rng.choice(CT_NAMES); a = opt_attrs(rng, gen_attrs(rng))
            # parent_ns needs the parent's binding: not modelled after a rename, nor for elements added to a parsed
            # document (redundant re-declarations are invisible in nsmap)
            if r < 0.92 and not replaced and not (prog is None and p in added):
                steps.append(['sub_ele', path, tag, a])
            else:
                steps.append(['sub_ele_ns', path, tag, rng.choice(CT_NS[1:]), a])
            c = p + (counts[p],)
            counts[p] += 1; counts[c] = 0; added[c] = [0, [[B(BASE)], B(tag)], attrs_val(a or [])]
    steps.append(['to_xml', [], None, False])        # whatever happened before, the whole tree must still say what it said
    case['steps'] = steps
    return case


def ascii_only_doc(rng):
    g = X.DocGen(rng, max_depth=2, names=['a', 'b', 'data', 'x'])
    for _ in range(50):
        sd, exp = g.element()
        body = X.serialise(sd, rng)
        if all(ord(c) < 128 for c in body): return body, exp
    return '<a x="1">t</a>', None


def cases_for(ctx):
    rng = ctx.rng
    n = 420 if ctx.tier == 'quick' else 4200
    g = X.DocGen(rng)
    out = []
    for i in range(n):
        c, sd, exp = gen_doc_case(rng, g)
        c['expected'] = exp
        out.append(c)
        body = X.serialise(sd, None)
        out.append(gen_validated(rng, body, exp))
        out.append(gen_replace(rng, body, exp))
        if i % 3 == 0:
            out.append({'kind': 'doc', 'src': malform(rng, c['src'])})
        if i % 4 == 0:
            paths = [p for p in element_paths(exp) if p]
            if paths: out.append({'kind': 'subtail', 'src': body, 'path': rng.choice(paths)})
        if i % 10 == 0:
            b, e2 = ascii_only_doc(rng)
            out.append({'kind': 'doc', 'src': b, 'encoding': 'ISO-8859-1', 'wellformed': True})
        out.append(gen_program(rng))
        if i % 2 == 0:
            out.append(gen_history(rng, src=body, exp=exp) if i % 8 else gen_history(rng, prog=gen_program(rng)))
    for i in range(n // 2):
        out.append(S.gen_session(rng))
    gr = X.DocGen(rng, max_depth=3, max_kids=3)
    for i in range(n // 2):
        out.append(R.gen_reparse(rng, gr))
    return out

# hand-written cases that pin the known corners (run first, with the corpus)
PINNED = [
    {'kind': 'history', 'src': '<a xmlns="urn:u" xmlns:p="urn:u" p:k="1"><b/>t</a>', 'steps': [['replace', [], 'urn:u', 'urn:v'], ['validated', [], '{urn:v}a', ['{urn:v}k']], ['replace', [], 'urn:v', 'urn:w'], ['to_xml', [], None, False]]},
    {'kind': 'history', 'src': '<a><b>x</b>tail<c/></a>', 'steps': [['to_xml', [0], None, False], ['to_xml', [], None, False]]},
    {'kind': 'history', 'src': '<rpc-reply xmlns="urn:ietf:params:xml:ns:netconf:base:1.0" message-id="7">\r\n  <data>\n    <x:c xmlns:x="urn:y">v &amp; w</x:c>\n\t</data>\n</rpc-reply>',
     'steps': [['to_xml', [0], None, False], ['validated', [], '{urn:ietf:params:xml:ns:netconf:base:1.0}rpc-reply', ['message-id']], ['nce', 'data_xml'], ['to_xml', [0, 0], 'UTF-8', True], ['to_xml', [], None, False]]},
    {'kind': 'history', 'src': '<a xmlns:p="urn:u"><p:b p:k="1">t</p:b>tail<c/>z<!--k--></a>',
     'steps': [['to_xml', [0], None, False], ['replace', [0], 'urn:u', 'urn:v'], ['sub_ele_ns', [1], 'n', 'urn:w', [['a', '1']]], ['probe'], ['to_xml', [1], None, False], ['parse'], ['to_xml', [], None, False]]},
    {'kind': 'history', 'ops': [['new_ele_nsmap', 'hello', [[None, BASE]], None], ['sub_ele', [], 'capabilities', None]], 'decor': [[[0], 'tail', ' \n']],
     'steps': [['to_xml', [0], None, False], ['sub_ele', [0], 'capability', None], ['parse_root', [0]], ['to_xml', [], None, False]]},
    {'kind': 'session', 'dicts': [[['a', '1']], []], 'steps': [
        ['new_ele', 'rpc', None, [['message-id', '7']]], ['sub_ele', 0, [], 'get-config', None, [['operation', 'merge']]],
        ['sub_ele_ns', 0, [], 'item', 'urn:two', ['d', 0, False], [['key', 'k1']]], ['sub_ele', 0, [1], 'leaf', ['d', 1, True], [['a', '2']]],
        ['dict_set', 0, 'b', '2'], ['to_xml', 0],
        ['new_ele_ns', 'rpc', 'urn:u', None, []], ['sub_ele', 1, [], 'close-session', None, []], ['sub_ele_ns', 1, [], 'plain', 'urn:two', None, []],
        ['sub_ele', 1, [], 'x', ['d', 0, False], [['a', '9']]], ['sub_ele_ns', 1, [2], 'y', None, ['d', 1, False], []],
        ['new_ele_nsmap', 'hello', [[None, BASE]], ['l', [['a', '1']], True], [['a', 'K'], ['{urn:u}q', '5']]], ['sub_ele', 2, [], 'capabilities', None, []],
        ['new_ele', 'probe', None, []], ['new_ele_nsmap', 'probe', [], None, []], ['sub_ele_ns', 4, [], 'k', None, None, []]]},
    {'kind': 'reparse', 'texts': ['<a xmlns="urn:u"><b/>t</a>'],
     'steps': [['parse', 'to_ele_huge', 0], ['sub_ele', 0, [], 'added-later', None], ['replace', 0, [], 'urn:u', 'urn:v'], ['set', 0, [], 'touched', 'yes'],
               ['parse', 'to_ele_huge', 0], ['parse', 'to_ele', 0], ['replace', 2, [0], 'urn:u', 'urn:w'], ['parse', 'to_ele_kw_false', 0], ['to_xml', 1]]},
    {'kind': 'reparse', 'texts': ['<rpc-reply xmlns="urn:ietf:params:xml:ns:netconf:base:1.0" message-id="7">\n  <data><x:c xmlns:x="urn:y" k="1">v &amp; w<d/>tail</x:c></data>\n</rpc-reply>', '<a><b>x</b>tail<c/></a>'],
     'steps': [['parse', 'getreply_data_huge', 0], ['replace', 0, [0], 'urn:ietf:params:xml:ns:netconf:base:1.0', 'urn:v'], ['sub_ele_ns', 0, [0, 0], 'n', 'urn:w', [['a', '1']]],
               ['parse', 'to_ele', 1], ['move', 0, [0, 0], 1, [0]], ['parse_root', 0, ['touched', 'yes']], ['parse', 'rpcreply_huge', 0], ['remove', 2, [0]],
               ['parse', 'getreply_data_huge', 0], ['parse', 'validated_tags', 1], ['nce', True, 0], ['set', 5, [], 'touched', 'yes'], ['nce', True, 0], ['to_xml', 3]]},
    # calls that raise (every reason, short and > 64K characters, both parser variants), each followed by good parses
    {'kind': 'reparse', 'texts': ['<a xmlns="urn:u"><b/>t</a>', '<a><b></a>', ['<blob k="1">', ['é€😀x', 17000], [0xDC80], 'rest</blob>'],
                                  ['<blob>', ['ab', 40000], '</blub>'], ['<a>', [0xD800], '</a>'],
                                  ['<?xml version="1.0"?><a k="v">', ['ж', 70001], '<c/>tail</a>'], ['<blob>', ['x', 140000], '<b k="', [0xDFFF], '"/></blob>']],
     'steps': [['fail', 'to_ele', 2, 'encode'], ['parse', 'to_ele', 0], ['fail', 'to_ele_huge_pos', 2, 'encode'], ['parse', 'to_ele_huge', 0],
               ['set', 0, [], 'touched', 'yes'], ['fail', 'rpcreply', 1, 'syntax'], ['fail', 'validated', 3, 'syntax'], ['parse', 'validated', 0],
               ['fail', 'validated_wrong_tag', 0, 'requirement'], ['fail', 'validated_missing_attr', 0, 'requirement'], ['parse', 'to_ele_kw_false', 5],
               ['fail', 'getreply_data_huge', 6, 'encode'], ['fail', 'rpcreply_huge', 4, 'encode'], ['parse', 'rpcreply_huge', 5], ['parse', 'to_ele_huge', 0],
               ['parse_root', 0, None], ['to_xml', 3], ['fail', 'to_ele_huge', 3, 'syntax'], ['nce', True, 0], ['parse', 'to_ele_huge_pos', 0]]},
    {'kind': 'reparse', 'texts': ['<rpc-reply xmlns="urn:ietf:params:xml:ns:netconf:base:1.0" message-id="7"><data><c>v</c></data></rpc-reply>',
                                  ['<a><b/>', ['0123456789', 1000005], '<c/>t</a>']],
     'steps': [['fail', 'to_ele', 1, 'oversized'], ['parse', 'getreply_data', 0], ['fail', 'rpcreply', 1, 'oversized'], ['parse', 'to_ele_kw_false', 0], ['parse', 'to_ele_huge', 0]]},
    {'kind': 'subtail', 'src': '<a><b>x</b>tail<c/></a>', 'path': [0]},
    {'kind': 'replace', 'src': '<a xmlns:p="urn:u" p:x="1"><?pi z?><p:b/></a>', 'old': 'urn:u', 'new': 'urn:v'},
    {'kind': 'replace', 'src': '<a xmlns:p="urn:u" xmlns:q="urn:v" p:x="1" q:x="2"/>', 'old': 'urn:u', 'new': 'urn:v'},
    {'kind': 'program', 'ops': [['new_ele_nsmap', 'hello', [[None, BASE]], []], ['sub_ele', [], 'capabilities', []], ['sub_ele', [0], 'capability', []]], 'decor': [[[0, 0], 'text', 'urn:x']]},
    {'kind': 'program', 'ops': [['new_ele', 'rpc', [['message-id', '1']]], ['sub_ele', [], 'get', []], ['sub_ele_ns', [0], 'filter', None, [['type', 'subtree']]]], 'decor': []},
    {'kind': 'validated', 'src': '<a xmlns="urn:u" x="1" p:y="2" xmlns:p="urn:v"/>', 'tags': ['{urn:u}a'], 'attrs': [['q', 'x'], '{urn:v}y'], 'as_element': False},
    {'kind': 'validated', 'src': '<a x="1"/>', 'tags': None, 'attrs': [[]], 'as_element': True},
    {'kind': 'doc', 'src': '<a x="1"><b></a>'},
    {'kind': 'doc', 'src': '<a>\r\n&#13;&lt;&amp;]]&gt;<!--c--><b q="&#10;&#9;&quot;\'"/>t</a>', 'wellformed': True},
]

def nontrivial(case):
    if case['kind'] == 'program': return len(case['ops']) >= 2
    if case['kind'] in ('history', 'session', 'reparse'): return len(case['steps']) >= 2
    if case['kind'] == 'sequence': return True
    return case['src'].count('<') >= 3 or '="' in case['src'] or "='" in case['src']

def jsonable(c):
    c = dict(c); c.pop('expected', None); return c

def warm_up(render_first=True):
    """What an application with huge_tree enabled does before anything else: render a transformed reply. Whatever that
    creates or caches inside xml_ must not change how to_ele / to_xml behave afterwards."""
    from ncclient import xml_
    from ncclient.manager import make_device_handler
    from ncclient.operations.rpc import RPCReply
    try:
        for prof in ('junos', 'alu'):
            dh = make_device_handler({'name': prof})
            # render_first: the reply was parsed by an ordinary session, so the first huge_tree use in the process is the rendering
            r = RPCReply('<rpc-reply xmlns="urn:ietf:params:xml:ns:netconf:base:1.0" message-id="1">\n <data> <a xmlns="urn:x"> t </a>\n </data>\n</rpc-reply>', huge_tree=not render_first)
            r.parse()
            n = xml_.NCElement(r, dh.transform_reply(), huge_tree=True)
            n.tostring; n.data_xml; n.find('.//a')
    except Exception:
        pass

def run(ctx):
    warm_up(render_first=(ctx.seed % 2 == 0))
    import sys
    sys.setrecursionlimit(20000)
    cases = []
    cdir = os.path.join(os.path.dirname(os.path.dirname(os.path.dirname(os.path.abspath(__file__)))), 'corpus', 'C17')
    if os.path.isdir(cdir):
        for f in sorted(os.listdir(cdir)):
            if f.endswith('.json'): cases.append(json.load(open(os.path.join(cdir, f)))['case'])
    cases += [dict(c) for c in PINNED]
    cases += cases_for(ctx)
    pending = []
    prior, wrapped = [], False
    for case in cases:
        o = evaluate(case)
        jc = jsonable(case)
        if o.fails and not wrapped:
            # the replay must stand on its own: a failure that needs what earlier cases left behind in the process
            # (default arguments, module state) is reported together with them
            wrapped = True
            rc = self_contained(jc, prior)
            if rc is not jc:
                for what, exp, act, sig in o.fails:
                    ctx.fail(rc, '[after %d earlier cases in the same process] %s' % (len(rc['cases']) - 1, what), sig=sig, expected=exp, actual=act)
        prior.append(jc)
        ctx.count(jc, nontrivial=nontrivial(case))
        ctx.hist('kind', case['kind'])
        for k, v in o.hist.items(): ctx.hist(k, v)
        if ctx.evaluations % 611 == 1: ctx.sample({'case': jc, 'oracle_failures': len(o.fails)})
        for what, exp, act, sig in o.fails:
            ctx.fail(jc, what, sig=sig, expected=exp, actual=act)
        for call, impl, what, post in o.mcalls:
            pending.append((jc, call, impl, what, post))
    if ctx.model:
        outs = ctx.model.batch([p[1] for p in pending])
        # second pass for the resolved view of program results
        res_idx = [i for i, p in enumerate(pending) if p[4] == 'resolve']
        res_calls = [[5, outs[i][0]] if outs[i] and not isinstance(outs[i], str) else [5, [1, b'']] for i in res_idx]
        res_outs = dict(zip(res_idx, ctx.model.batch(res_calls)))
        for i, (jc, call, impl, what, post) in enumerate(pending):
            mo = outs[i]
            if isinstance(mo, str):
                ctx.disagree(jc, mo, impl, 'model runner error: ' + what); continue
            if post == 'resolve': mo = X.canon(res_outs[i])
            elif post is not None: mo = post(mo)
            if mo != impl:
                ctx.disagree(jc, mo, impl, what, theorem='C17_*')
        ctx.extra['model_calls'] = len(pending) + len(res_calls)
    st = [X.tree_stats(c['expected']) for c in cases if c.get('expected')]
    if st:
        ctx.extra['document_stats'] = dict(max_elements=max(s[0] for s in st), max_depth=max(s[1] for s in st),
                                           mean_elements=round(sum(s[0] for s in st) / len(st), 1), with_comments=sum(1 for s in st if s[3]),
                                           with_pis=sum(1 for s in st if s[4]), multi_namespace=sum(1 for s in st if s[5] > 1))


def search(ctx, seeds):
    """Tie broke: run the property oracle on the disagreeing cases, then on fresh generated ones."""
    import random
    tries = list(seeds)
    class C: pass
    c = C(); c.rng = random.Random(ctx.seed + 1); c.tier = 'quick'
    tries += [jsonable(x) for x in cases_for(c)]
    for case in tries:
        o = evaluate(case)
        if o.fails:
            what, exp, act, sig = o.fails[0]
            return dict(case=jsonable(case), what=what, expected=exp, actual=act, sig=sig)
    return None

def reproduce(finding):
    return bool(evaluate(finding['witness']).fails)

def replay(doc):
    c = doc['case']
    o = evaluate(c)
    print('case     :', json.dumps(c, ensure_ascii=False)[:2000])
    for what, exp, act, sig in o.fails:
        print('failure  :', what); print('expected :', repr(exp)[:1500]); print('actual   :', repr(act)[:1500])
    if not o.fails: print('property holds on this case now')
    return not o.fails
