"""C06 — rpc-error surfacing follows raise mode, severity and exemptions.
Model: coq/Model/RpcErrors.v; spec: coq/Spec/RpcErrorsSpec.v; theorems: coq/Props/C06.v.
Implementation driven: real RPCReply, RPC._request (through Manager.execute on a fake session that delivers
the scripted reply through Session._dispatch_message / RPCReplyListener.callback), real device handlers
(make_device_handler, all shipped profiles), real manager.connect_ssh/_tls/_uds plumbing with the transport
classes rebound to the fake session."""
import os, re, ast, json, itertools, warnings
import xml.etree.ElementTree as ET

ID = 'C06'
COQ_ROOTS = ['Props/C06.v', 'GenProps/RpcErrors_consts.v']
RULE = ('replies with 0..4 rpc-errors (severity in error/warning/absent/other/padded, optional-field subsets, duplicate '
        'and reordered fields, empty elements, comments, nested/foreign-namespace rpc-errors, prefixed or default '
        'namespace, optional <ok/>) x raise modes NONE/ERRORS/ALL(+default) x exempt pattern sets (exact, *x, x*, *x*, '
        'degenerate *, **, empty) placed in the profile and/or given by the user x 14 device profiles x route (Manager '
        'built directly / through connect_ssh, connect_tls, connect_uds). Exhaustive block: severities^<=3 x 3 modes x '
        '16 pattern sets; exhaustive matcher block: patterns^<=3 x messages^<=3 over a 4-letter alphabet. A case is '
        '(reply text, mode, profile, profile patterns, user patterns, route); non-trivial = the reply has an rpc-error.')
ASSUMES = ['str.lower()/str.strip() of CPython behave as Model.RpcErrors.lower/strip on ASCII text (validated by every case; '
           'non-ASCII letters with case and non-ASCII white space are outside the modelled domain)',
           'lxml presents a reply as the tree the independent reader (xml.etree with comments kept) sees: tag, text before the '
           'first child, children in document order (validated by every case)',
           'error-info is compared as a tree (to_xml output re-read by the independent reader), not as text']
TRUSTED = ['modelled, not verified: lxml parsing/serialisation, CPython str built-ins, threading.Event']

BASE = 'urn:ietf:params:xml:ns:netconf:base:1.0'
Q = lambda l: '{%s}%s' % (BASE, l)
FIELDS = ['error-type', 'error-tag', 'error-app-tag', 'error-severity', 'error-info', 'error-path', 'error-message']
ATTRS = ['type', 'tag', 'app_tag', 'severity', 'info', 'path', 'message']
F6_SIG = 'ok_child_and_rpc_error'

# ------------------------------------------------------------------ independent reader
def read_tree(text):
    p = ET.XMLParser(target=ET.TreeBuilder(insert_comments=True, insert_pis=True))
    p.feed(text.encode('utf-8') if isinstance(text, str) else text)
    return p.close()

def is_elem(e):
    return isinstance(e.tag, str)

def canon(e, with_tail=False):
    """Canonical nested list of an element as the independent reader sees it."""
    c = [e.tag if is_elem(e) else '#' + getattr(e.tag, '__name__', 'node'), sorted(e.attrib.items()) if is_elem(e) else [],
         e.text, [canon(k, True) for k in e]]
    if with_tail: c.append(e.tail)
    return c

def canon_str(e):
    return json.dumps(canon(e), sort_keys=True, ensure_ascii=True)

def canon_info(info_xml):
    """Canonical form of RPCError.info (output of to_xml on the error-info element)."""
    if info_xml is None: return None
    s = re.sub(r'^<\?xml[^>]*\?>', '', info_xml)
    w = read_tree('<w>' + s + '</w>')
    kids = list(w)
    if len(kids) != 1: return 'UNPARSEABLE:' + info_xml
    return canon_str(kids[0])

def node_val(e):
    """Encoding of a tree for the model runner (Glue/C06_glue.v)."""
    if not is_elem(e):
        return [b'', [], [e.text.encode()] if e.text is not None else [], b'', []]
    ser = canon_str(e).encode() if e.tag == Q('error-info') else b''
    return [e.tag.encode(), [[k.encode(), v.encode()] for k, v in sorted(e.attrib.items())],
            [e.text.encode()] if e.text is not None else [], ser, [node_val(k) for k in e]]

# ------------------------------------------------------------------ the property sentence (oracle)
def o_rpc_errors(root):
    out = []
    def walk(e):
        for k in e:
            if is_elem(k) and k.tag == Q('rpc-error'): out.append(k)
            walk(k)
    walk(root)
    return out

def o_mirror(raw):
    f = []
    for name in FIELDS:
        last = None
        for k in raw:
            if is_elem(k) and k.tag == Q(name): last = k
        if last is None: f.append(None)
        elif name == 'error-info': f.append(canon_str(last))
        else: f.append(last.text)
    return tuple(f)

def o_matches(p, text):
    p = p.lower()
    lead = p.startswith('*')
    if lead: p = p[1:]
    trail = p.endswith('*')
    if trail: p = p[:-1]
    rx = ('.*' if lead else '') + re.escape(p) + ('.*' if trail else '')
    return re.fullmatch(rx, text, re.S) is not None

def o_text(msg):
    return 'no error given' if msg is None else msg.lower().strip()

def o_should_raise(mode, errors, pats):
    if not errors: return False
    if any(o_matches(p, o_text(errors[0][6])) for p in pats): return False
    if mode == 2: return True
    if mode == 1: return any(e[3] == 'error' for e in errors)
    return False

def oracle(case):
    """What the property sentence demands of this case."""
    root = read_tree(case['reply'])
    errs = [o_mirror(r) for r in o_rpc_errors(root)]
    has_ok = any(is_elem(k) and k.tag == Q('ok') for k in root)
    mode = 2 if case['mode'] is None else case['mode']
    pats = list(case['profile_pats']) + list(case['user'] or [])
    raise_ = o_should_raise(mode, errs, pats)
    exp = dict(ok=not errs, errors=errs, raises=raise_)
    if raise_:
        exp['kind'] = 'single' if len(errs) == 1 else 'aggregate'
        exp['severity'] = errs[0][3] if len(errs) == 1 else ('error' if any(e[3] == 'error' for e in errs) else 'warning')
    return exp, has_ok, root

# ------------------------------------------------------------------ implementation
def profile_names():
    from vlib import paths
    d = os.path.join(paths.REPO, 'ncclient', 'devices')
    return sorted(f[:-3] for f in os.listdir(d) if f.endswith('.py') and f != '__init__.py')

_PROFILE_PATS = {}
def profile_patterns(name):
    """The profile's _EXEMPT_ERRORS read from the source text (ast), not from the running class."""
    if name in _PROFILE_PATS: return _PROFILE_PATS[name]
    from vlib import paths
    src = open(os.path.join(paths.REPO, 'ncclient', 'devices', name + '.py')).read()
    pats = []
    for n in ast.walk(ast.parse(src)):
        if isinstance(n, ast.ClassDef) and n.name == name.capitalize() + 'DeviceHandler':
            for st in n.body:
                if isinstance(st, ast.Assign) and any(isinstance(t, ast.Name) and t.id == '_EXEMPT_ERRORS' for t in st.targets):
                    pats = ast.literal_eval(st.value)
    _PROFILE_PATS[name] = pats
    return pats

def err_tuple(e):
    return (e.type, e.tag, e.app_tag, e.severity, canon_info(e.info), e.path, e.message)

def custom_handler(pats):
    from ncclient.devices.default import DefaultDeviceHandler
    class CustomDeviceHandler(DefaultDeviceHandler):
        _EXEMPT_ERRORS = list(pats)
        def __init__(self, device_params, ignore_errors=None):
            super().__init__(device_params, ignore_errors)
    return CustomDeviceHandler

def impl_parse(reply):
    """RPCReply on the raw text: (ok, errors, error)."""
    from ncclient.operations.rpc import RPCReply
    r = RPCReply(reply)
    ok = r.ok
    errs = [err_tuple(e) for e in r.errors]
    first = r.error
    return ok, errs, (err_tuple(first) if first is not None else None)

def impl_run(case):
    """Returns dict(parse=(ok, errors), call=('return', ok|None, errors|None) | ('raise', kind, ...))."""
    from ncclient import manager
    from ncclient.operations import RPCError
    from harness.fakesession_rpc import make_session, patched_transports, parse_request, reply_doc
    warnings.simplefilter('ignore')
    reply = case['reply']
    def server(msg):
        mid, op, tgt = parse_request(msg)
        return [reply.replace('@MID@', mid or '')]
    if case['profile'] == '@custom':
        dp = {'handler': custom_handler(case['profile_pats'])}
    elif case['profile'] is None:
        dp = None
    else:
        dp = {'name': case['profile']}
    route, mode, user = case['route'], case['mode'], case['user']
    if route == 'direct':
        dh = manager.make_device_handler(dp, user)
        s = make_session(dh, server)
        m = manager.Manager(s, dh) if mode is None else manager.Manager(s, dh, raise_mode=mode)
    else:
        ep = {}
        if user is not None: ep['ignore_errors'] = user
        if mode is not None: ep['raise_mode'] = mode
        kw = dict(host='peer')
        if dp is not None: kw['device_params'] = dp
        if ep or case.get('ep_present'): kw['errors_params'] = ep
        with patched_transports(server):
            if case.get('prior') is not None:
                # an application that passes ONE manager_params / errors-free settings object to several connects:
                # an earlier connect (other raise mode, other ignore list) must not influence this one
                shared = {'timeout': 7}
                getattr(manager, route)(host='other', manager_params=shared,
                                        errors_params={'raise_mode': case['prior'], 'ignore_errors': ['*earlier session*']})
                kw['manager_params'] = shared
            m = getattr(manager, route)(**kw)
    out = {}
    try:
        pk = impl_parse(reply.replace('@MID@', 'x'))
        out['parse'] = [pk[0], pk[1], pk[2]]
    except Exception as e:
        out['parse'] = ['exc', type(e).__name__]
    try:
        op = case.get('op', 'lock')
        r = m.lock('running') if op == 'lock' else (m.get_config(source='running') if op == 'get_config' else m.discard_changes())
        if hasattr(r, 'errors') and hasattr(r, 'ok'):
            out['call'] = ['return', r.ok, [err_tuple(e) for e in r.errors]]
        else:
            out['call'] = ['return', None, None]
    except RPCError as e:
        if e.errlist is None:
            out['call'] = ['raise', 'single', err_tuple(e), e.severity, e.message]
        else:
            out['call'] = ['raise', 'aggregate', [err_tuple(x) for x in e.errlist], e.severity, e.message,
                           [err_tuple(x) for x in e.errors] == [err_tuple(x) for x in e.errlist]]
    except Exception as e:
        out['call'] = ['exc', type(e).__name__, str(e)[:200]]
    return out

# ------------------------------------------------------------------ model
def dec_opt(v): return v[0].decode() if v else None
def dec_err(v): return tuple(dec_opt(x) for x in v)
def dec_outcome(v):
    if v[0] == 0: return ['return']
    if v[0] == 1: return ['raise', 'single', dec_err(v[1])]
    return ['raise', 'aggregate', [dec_err(x) for x in v[1]], v[3].decode(), v[2].decode()]

def model_calls(case, root):
    tree = node_val(root)
    mode = 2 if case['mode'] is None else case['mode']
    pats = [p.encode() for p in list(case['profile_pats']) + list(case['user'] or [])]
    calls = [[1, tree, mode, pats]]
    if case['route'] != 'direct':
        u = case['user']
        calls.append([3, [p.encode() for p in case['profile_pats']], [[p.encode() for p in u]] if u is not None else [],
                      [] if case['mode'] is None else [case['mode']], tree])
    return calls

def compare_model(case, mouts, im):
    """List of differences between the model's outputs and the implementation's observations."""
    diffs = []
    m1 = mouts[0]
    m_errs = [dec_err(e) for e in m1[0]]; m_ok = bool(m1[1]); m_out = dec_outcome(m1[2])
    if im['parse'][0] == 'exc':
        diffs.append(('parse', [m_ok, m_errs], im['parse']))
    else:
        if [m_ok, m_errs] != [im['parse'][0], im['parse'][1]]:
            diffs.append(('RPCReply.ok/.errors', [m_ok, m_errs], im['parse'][:2]))
        if (m_errs[0] if m_errs else None) != im['parse'][2]:
            diffs.append(('RPCReply.error', m_errs[:1], im['parse'][2]))
    c = im['call']
    if c[0] == 'return':
        if m_out != ['return']: diffs.append(('decision', m_out, c))
        elif c[1] is not None and [c[1], c[2]] != [m_ok, m_errs]: diffs.append(('returned reply', [m_ok, m_errs], c))
    elif c[0] == 'raise' and c[1] == 'single':
        if m_out[:2] != ['raise', 'single'] or m_out[2] != c[2]: diffs.append(('decision', m_out, c))
        elif (c[2][3], c[2][6]) != (c[3], c[4]): diffs.append(('single error attributes', m_out, c))
    elif c[0] == 'raise':
        if m_out[:2] != ['raise', 'aggregate'] or m_out[2] != c[2] or m_out[3] != c[3] or m_out[4] != c[4] or not c[5]:
            diffs.append(('decision/aggregate', m_out, c))
    else:
        diffs.append(('exception', m_out, c))
    if len(mouts) > 1 and dec_outcome(mouts[1]) != m_out:
        diffs.append(('connect-style plumbing (call_outcome) vs direct decision', dec_outcome(mouts[1]), c))
    return diffs

def check_oracle(case, im):
    """Evaluate the property sentence on the observed behaviour. Returns list of (what, sig, expected, actual)."""
    exp, has_ok, root = oracle(case)
    fails = []
    f6 = has_ok and len(exp['errors']) > 0
    def add(what, e, a, f6_behaviour):
        fails.append((what, F6_SIG if (f6 and f6_behaviour) else None, e, a))
    p = im['parse']
    if p[0] == 'exc':
        add('RPCReply raised %s' % p[1], [exp['ok'], exp['errors']], p, False)
    else:
        if p[0] != exp['ok'] or p[1] != exp['errors']:
            add('RPCReply.ok/.errors do not mirror the reply', [exp['ok'], exp['errors']], p[:2], p[0] is True and p[1] == [])
        if p[2] != (exp['errors'][0] if exp['errors'] else None) and not (f6 and p[2] is None):
            add('RPCReply.error is not the first rpc-error', exp['errors'][:1], p[2], False)
    c = im['call']
    if c[0] == 'exc':
        add('call ended in %s' % c[1], exp, c, False)
    elif exp['raises'] != (c[0] == 'raise'):
        add('raise decision', exp, c, c[0] == 'return' and c[1] in (True, None) and c[2] in ([], None))
    elif c[0] == 'raise':
        if c[1] != exp['kind']:
            add('raised exception kind', exp, c, False)
        elif c[1] == 'single':
            if c[2] != exp['errors'][0]: add('raised error does not mirror the rpc-error', exp, c, False)
        else:
            if c[2] != exp['errors']: add('aggregate does not carry all errors in order', exp, c, False)
            if c[3] != exp['severity']: add('aggregate severity', exp, c, False)
    elif c[1] is not None:
        if c[1] != exp['ok'] or c[2] != exp['errors']:
            add('returned reply ok/errors', exp, c, c[1] is True and c[2] == [])
    return fails

# ------------------------------------------------------------------ generators
def rpc_error_xml(fields, px=''):
    """fields: list of (local name, text|None|xmlfragment) in order."""
    s = '<%srpc-error>' % px
    for name, val in fields:
        if val is None: s += '<%s%s/>' % (px, name)
        else: s += '<%s%s>%s</%s%s>' % (px, name, val, px, name)
    return s + '</%srpc-error>' % px

def reply_xml(body, px=None, root='rpc-reply'):
    if px:
        return '<%s:%s xmlns:%s="%s" message-id="@MID@">%s</%s:%s>' % (px, root, px, BASE, body, px, root)
    return '<%s xmlns="%s" message-id="@MID@">%s</%s>' % (root, BASE, body, root)

SEVS = {'e': 'error', 'w': 'warning', 'a': None, 'o': 'info'}
def simple_error(sev, msg, px=''):
    f = [('error-type', 'application'), ('error-tag', 'operation-failed')]
    if sev is not None: f.append(('error-severity', sev))
    if msg is not None: f.append(('error-message', msg))
    return rpc_error_xml(f, px)

PATSETS = [[], ['msg a'], ['MSG A'], ['*g a'], ['msg*'], ['*SG*'], ['*'], ['**'], [''], ['msg b'], ['*b'], ['zzz', '*G A*'],
           ['msg', 'a*'], ['*msg a*', 'x'], ['msg a*'], ['* a']]
MSGS = [' Msg A ', 'msg b', 'Msg C']

def mk_case(reply, mode, profile=None, profile_pats=None, user=None, route='direct', **kw):
    if profile_pats is None:
        profile_pats = [] if profile in (None, '@custom') else profile_patterns(profile)
    c = dict(reply=reply, mode=mode, profile=profile, profile_pats=list(profile_pats), user=user, route=route)
    c.update(kw)
    return c

def gen_exhaustive():
    """severities^<=3 x 3 modes x pattern alphabet; patterns alternate between profile and user position."""
    cases = []
    k = 0
    for n in range(0, 4):
        for sevs in itertools.product('ewao', repeat=n):
            body = ''.join(simple_error(SEVS[s], MSGS[i]) for i, s in enumerate(sevs))
            rep = reply_xml(body)
            for mode in (0, 1, 2):
                for ps in PATSETS:
                    k += 1
                    if k % 2: cases.append(mk_case(rep, mode, '@custom', ps, None))
                    else: cases.append(mk_case(rep, mode, None, None, ps))
    return cases

def gen_fields(rng, thorough):
    """optional-field subsets (all 2^7 for one error), duplicates, reordering, empty elements."""
    cases = []
    vals = {'error-type': 'rpc', 'error-tag': 'lock-denied', 'error-app-tag': 'app', 'error-severity': 'error',
            'error-info': '<session-id>4</session-id><x:y xmlns:x="urn:x" a="1">t<z/>u</x:y>', 'error-path': '/a/b[c=&apos;1&apos;]',
            'error-message': 'Lock failed, lock is already held'}
    for bits in range(128):
        f = [(n, vals[n]) for i, n in enumerate(FIELDS) if bits >> i & 1]
        for mode in ((0, 1, 2) if thorough or bits % 8 == 0 else (rng.choice((0, 1, 2)),)):
            cases.append(mk_case(reply_xml(rpc_error_xml(f)), mode))
        g = list(f); rng.shuffle(g)
        if g: g.append((g[0][0], 'second ' + (g[0][1] if g[0][0] != 'error-info' else 'x')))     # duplicate: last wins
        if g and rng.random() < 0.5: g.insert(0, (rng.choice(FIELDS), None))                      # empty element first
        if g and rng.random() < 0.3: g.append((rng.choice(FIELDS), None))                          # empty element last (wins)
        cases.append(mk_case(reply_xml(rpc_error_xml(g) + simple_error('warning', 'w2')), rng.choice((1, 2)), op='get_config'))
    return cases

def random_error(rng, px=''):
    f = []
    for n in FIELDS:
        r = rng.random()
        if n == 'error-severity':
            v = rng.choice(['error', 'error', 'warning', 'warning', None, 'info', ' error ', 'ERROR', 'Error\n', '', 'errors'])
            if v is not None: f.append((n, v if v != '' else None))
        elif n == 'error-message':
            v = rng.choice(['Msg A', ' msg b ', 'VLAN with the same name exists', 'x VLAN WITH the same NAME exists y', None,
                            '', '   ', 'a*b', '*', 'no error given', 'tab\there', '\n msg a \n', 'café €', 'MSG A <![CDATA[<x>]]>',
                            '<!--c-->hidden', 'msg &amp; a', 'a'])
            if v is not None: f.append((n, v if v != '' else None))
        elif r < 0.45:
            v = {'error-type': 'protocol', 'error-tag': 'in-use', 'error-app-tag': 'tag', 'error-path': '/x',
                 'error-info': rng.choice(['<bad-element>e</bad-element>', 'text only', '<a><b/>tail</a>', None])}[n]
            f.append((n, v))
    if rng.random() < 0.3: rng.shuffle(f)
    if f and rng.random() < 0.15: f.append(rng.choice(f))
    if rng.random() < 0.1: f.insert(rng.randrange(len(f) + 1), ('unknown-child', 'u'))
    s = rpc_error_xml(f, px)
    if rng.random() < 0.08:      # an rpc-error nested inside error-info of another
        s = rpc_error_xml([('error-severity', 'warning'), ('error-info', s), ('error-message', 'outer')], px)
    if rng.random() < 0.06:      # a look-alike in a foreign namespace: not an rpc-error
        s += '<rpc-error xmlns="urn:other"><error-severity>error</error-severity></rpc-error>'
    return s

USER_PATS = [None, None, [], ['msg a'], ['*'], ['*vlan*'], ['zz'], ['MSG*', '*b'], ['*exists y'], ['no error given'], [''], ['**'],
             ['a\\*b'.replace('\\', '')], ['*same name*'], ['*here'], ['café*'], ['***'], ['*a*b*']]

def gen_random(rng, n, profiles):
    cases = []
    for _ in range(n):
        px = rng.choice(['', '', 'nc:', 'b:'])
        k = rng.choice([0, 1, 1, 2, 2, 3, 4])
        parts = [random_error(rng, px) for _ in range(k)]
        if rng.random() < 0.25 and parts:
            parts[rng.randrange(len(parts))] = '<%sdata>%s</%sdata>' % (px, parts[rng.randrange(len(parts))], px)
        if rng.random() < 0.12: parts.insert(rng.randrange(len(parts) + 1), '<%sok/>' % px)          # F6 territory
        if rng.random() < 0.1: parts.insert(rng.randrange(len(parts) + 1), '<!-- note -->')
        if rng.random() < 0.1: parts.insert(0, '<%sdata><%sok/></%sdata>' % (px, px, px))              # ok not a direct child
        body = ''.join(parts)
        rep = reply_xml(body, px[:-1] if px else None)
        mode = rng.choice([0, 1, 1, 2, 2, None])
        prof = rng.choice(profiles + ['@custom', None])
        ppats = rng.choice([p for p in USER_PATS if p]) if prof == '@custom' else None
        user = rng.choice(USER_PATS)
        route = rng.choice(['direct', 'direct', 'connect_ssh', 'connect_tls', 'connect_uds'])
        if route != 'direct' and mode is not None and mode not in (0, 1, 2): mode = 2
        extra = {}
        if route != 'direct' and rng.random() < 0.35:
            extra['prior'] = rng.choice([m2 for m2 in (0, 1, 2) if m2 != mode])
        cases.append(mk_case(rep, mode, prof, ppats, user, route, op=rng.choice(['lock', 'lock', 'get_config', 'discard']),
                             ep_present=rng.random() < 0.5, **extra))
    return cases

def gen_profiles(profiles):
    """every profile x its own exempt list x user patterns x modes, direct and connect-style."""
    cases = []
    msgs = ['VLAN with the same name exists', 'xx vlan WITH the same name exists yy', 'other failure']
    for prof in profiles:
        pp = profile_patterns(prof)
        for msg in msgs + [p.strip('*') for p in pp]:
            for user in (None, [], ['zz'], ['*failure']):
                for mode in (0, 1, 2, None):
                    for route in ('direct', 'connect_ssh'):
                        rep = reply_xml(simple_error('error', msg) + simple_error('warning', 'second'))
                        cases.append(mk_case(rep, mode, prof, None, user, route))
    return cases

def gen_f6():
    cases = []
    for body in ['<ok/>' + simple_error('error', 'e1'), simple_error('warning', 'w') + '<ok/>',
                 '<ok/>' + simple_error('warning', 'w') + simple_error('error', 'e')]:
        for mode in (0, 1, 2):
            cases.append(mk_case(reply_xml(body), mode))
    return cases

# ---- matcher block: is_rpc_error_exempt directly
def impl_exempt(pats, msg):
    from ncclient import manager
    return manager.make_device_handler({'handler': custom_handler(pats[:1])}, pats[1:]).is_rpc_error_exempt(msg)

def run_matcher(ctx):
    alpha = ['a', 'B', '*', ' ']
    words = [''.join(w) for n in range(0, 4) for w in itertools.product(alpha, repeat=n)]
    msgs = [''.join(w) for n in range(0, 4) for w in itertools.product(['a', 'b', 'A', ' '], repeat=n)] + [None]
    cases = [([p], m) for p in words for m in msgs]
    extra_p = [['*VLAN with the same name exists*'], ['x', '*a'], ['a*', 'b'], ['*a*', '*'], ['€*'], ['*\t'], ['a\x1f*'], ['***'], ['*a*a']]
    extra_m = ['xx vlan WITH THE SAME NAME exists', 'a', 'ba', 'ab', '€1', 'a\t', '\x1fa\x1f', '\x0ba\x0c', '*', 'a*a', 'aa', None, 'no error given']
    cases += [(p, m) for p in extra_p for m in extra_m]
    n = 3000 if ctx.tier == "quick" else 150000
    for _ in range(n):
        ps = [''.join(ctx.rng.choice('aAbB* \t') for _ in range(ctx.rng.randrange(0, 5))) for _ in range(ctx.rng.randrange(0, 4))]
        m = ctx.rng.choice([None] + [''.join(ctx.rng.choice('aAbB* \n') for _ in range(ctx.rng.randrange(0, 7)))])
        cases.append((ps, m))
    calls = [[2, [p.encode() for p in ps], [m.encode()] if m is not None else []] for ps, m in cases]
    outs = ctx.model.batch(calls) if ctx.model else [None] * len(cases)
    for (ps, m), mo in zip(cases, outs):
        case = {'matcher': True, 'pats': ps, 'msg': m}
        im = impl_exempt(ps, m)
        sp = any(o_matches(p, o_text(m)) for p in ps)
        ctx.count(case, nontrivial=bool(ps))
        ctx.hist('matcher_outcome', im)
        if mo is not None and bool(mo) != im:
            ctx.disagree(case, bool(mo), im, 'exempt(classify pats) vs is_rpc_error_exempt', theorem='C06_match_spec')
        if im != sp:
            ctx.fail(case, 'is_rpc_error_exempt(%r) with patterns %r: implementation %r, "*" semantics %r' % (m, ps, im, sp),
                     sig=None, expected=sp, actual=im)

# ------------------------------------------------------------------ driver
def eval_cases(ctx, cases, label):
    roots = []
    calls, spans = [], []
    for c in cases:
        root = read_tree(c['reply'].replace('@MID@', 'x'))
        mc = model_calls(c, root)
        spans.append((len(calls), len(mc))); calls += mc
    outs = ctx.model.batch(calls) if ctx.model else None
    for c, (o, n) in zip(cases, spans):
        im = impl_run(c)
        exp, has_ok, _ = oracle(c)
        ctx.count(c, nontrivial=bool(exp['errors']))
        ctx.hist('block', label); ctx.hist('n_errors', len(exp['errors'])); ctx.hist('mode', c['mode'])
        ctx.hist('impl_outcome', im['call'][0] + ('/' + im['call'][1] if im['call'][0] == 'raise' else ''))
        ctx.hist('route', c['route']); ctx.hist('profile', c['profile'])
        if ctx.evaluations % 1499 == 1: ctx.sample({'case': c, 'impl': im})
        if outs is not None:
            for what, mo, io in compare_model(c, outs[o:o + n], im):
                ctx.disagree(c, mo, io, 'model vs implementation: ' + what, theorem='C06_decide_spec/C06_errors_mirror')
        for what, sig, e, a in check_oracle(c, im):
            ctx.fail(c, what, sig=sig, expected=e, actual=a)

def corpus_cases():
    from vlib import paths
    d = os.path.join(paths.CORPUS, ID)
    out = []
    if os.path.isdir(d):
        for f in sorted(os.listdir(d)):
            if f.endswith('.json'): out.append(json.load(open(os.path.join(d, f))))
    return out

def all_cases(ctx):
    thorough = ctx.tier == 'thorough'
    profiles = profile_names()
    blocks = [('corpus', corpus_cases()), ('f6', gen_f6()), ('exhaustive', gen_exhaustive()),
              ('fields', gen_fields(ctx.rng, thorough)), ('profiles', gen_profiles(profiles)),
              ('random', gen_random(ctx.rng, 100000 if thorough else 2500, profiles))]
    return blocks

def run(ctx):
    for label, cases in all_cases(ctx):
        eval_cases(ctx, cases, label)
    run_matcher(ctx)
    ctx.exhaustive = True
    ctx.extra['exhaustive_scope'] = ('severity lists of length <= 3 over {error, warning, absent, other} x modes {0,1,2} x 16 pattern sets; '
                                     'single-pattern matcher over patterns and messages of length <= 3 on 4-letter alphabets')
    ctx.extra['profiles'] = profile_names()

def search(ctx, seeds):
    """Tie broke: evaluate the property sentence (oracle only) on the seeds and on fresh generated cases."""
    from vlib import findings
    rng = ctx.rng
    tries = [c for c in seeds if isinstance(c, dict) and 'reply' in c]
    tries += gen_f6() + gen_exhaustive() + gen_fields(rng, True) + gen_profiles(profile_names()) + gen_random(rng, 6000, profile_names())
    for c in tries:
        try:
            im = impl_run(c)
            fs = check_oracle(c, im)
        except Exception as e:
            return dict(case=c, what='harness could not evaluate: %r' % e, sig=None, expected=None, actual=None)
        for what, sig, e, a in fs:
            if not findings.covered(ID, sig):
                return dict(case=c, what=what, sig=sig, expected=e, actual=a)
    for c in seeds:
        if isinstance(c, dict) and c.get('matcher'):
            im = impl_exempt(c['pats'], c['msg']); sp = any(o_matches(p, o_text(c['msg'])) for p in c['pats'])
            if im != sp: return dict(case=c, what='is_rpc_error_exempt deviates from "*" semantics', sig=None, expected=sp, actual=im)
    return None

def reproduce(finding):
    w = finding['witness']
    if w.get('matcher'):
        return impl_exempt(w['pats'], w['msg']) != any(o_matches(p, o_text(w['msg'])) for p in w['pats'])
    c = mk_case(w['reply'], w.get('mode'), w.get('profile'), w.get('profile_pats'), w.get('user'), w.get('route', 'direct'))
    fs = check_oracle(c, impl_run(c))
    want = finding.get('sig')
    return any(sig == want for _, sig, _, _ in fs) if want else bool(fs)

def replay(doc):
    c = doc['case']
    if c.get('matcher'):
        im = impl_exempt(c['pats'], c['msg']); sp = any(o_matches(p, o_text(c['msg'])) for p in c['pats'])
        print('case     :', c); print('expected :', sp); print('actual   :', im)
        return im == sp
    im = impl_run(c)
    exp, has_ok, _ = oracle(c)
    fs = check_oracle(c, im)
    print('case     :', json.dumps(c)); print('expected :', exp); print('actual   :', im)
    for what, sig, e, a in fs: print('fails    :', what, '(sig %s)' % sig)
    return not fs
