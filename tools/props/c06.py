"""C06 — rpc-error surfacing follows raise mode, severity and exemptions.
Model: coq/Model/RpcErrors.v; spec: coq/Spec/RpcErrorsSpec.v; theorems: coq/Props/C06.v.
Implementation driven: real RPCReply, RPC._request (through Manager.execute on a fake session that delivers
the scripted reply through Session._dispatch_message / RPCReplyListener.callback), real device handlers
(make_device_handler, all shipped profiles), real manager.connect_ssh/_tls/_uds plumbing with the transport
classes rebound to the fake session.  Histories of connects over shared caller objects: harness/connhist.py,
coq/Model/ConnectHistory.v (theorems C06_connect_frame, C06_history_*)."""
import os, re, ast, json, itertools, warnings
import xml.etree.ElementTree as ET

ID = 'C06'
COQ_ROOTS = ['Props/C06.v', 'GenProps/RpcErrors_consts.v']
RULE = ('replies with 0..4 rpc-errors (severity in error/warning/absent/other/padded, optional-field subsets, duplicate '
        'and reordered fields, empty elements, comments, nested/foreign-namespace rpc-errors, prefixed or default '
        'namespace, optional <ok/>) x raise modes NONE/ERRORS/ALL(+default) x exempt pattern sets (exact, *x, x*, *x*, '
        'degenerate *, **, empty) placed in the profile and/or given by the user x 14 device profiles x route (Manager '
        'built directly / through connect_ssh, connect_tls, connect_uds). Exhaustive block: severities^<=3 x 3 modes x '
        '16 pattern sets; exhaustive matcher block: patterns^<=3 x messages^<=3 over a 4-letter alphabet. A case is '
        '(reply text, mode, profile, profile patterns, user patterns, route); non-trivial = the reply has an rpc-error. '
        'History blocks: 2..4 connects (routes by hand / connect / connect_ssh / connect_tls / connect_uds, attempts refused by '
        'session.connect) that pass the SAME caller-owned dictionaries (device_params with a handler class of the caller - plain, '
        'own __init__, tuple list, subclass of a shipped profile - or a profile name, manager_params, nc_params, errors_params) '
        'and handler classes; after every connect the caller\'s dictionaries, the class-level _EXEMPT_ERRORS of his classes and of '
        'the shipped profiles are compared with their state before, and EVERY manager obtained so far surfaces every probe reply '
        '(messages derived from each pattern in play) - checked against the property sentence with the profile / patterns / mode '
        'of its own connect as written in the case, against the model (run_history, fn 4) and against the other managers asked '
        'for the same. Exhaustive: ordered route pairs x 6 kinds of device_params x first attempt refused or not, followed by a '
        'manager built by hand from the same dictionaries.')
ASSUMES = ['str.lower()/str.strip() of CPython behave as Model.RpcErrors.lower/strip on ASCII text (validated by every case; '
           'non-ASCII letters with case and non-ASCII white space are outside the modelled domain)',
           'lxml presents a reply as the tree the independent reader (xml.etree with comments kept) sees: tag, text before the '
           'first child, children in document order (validated by every case)',
           'error-info is compared as a tree (to_xml output re-read by the independent reader), not as text']
TRUSTED = ['modelled, not verified: lxml parsing/serialisation, CPython str built-ins, threading.Event']

BASE = 'urn:ietf:params:xml:ns:netconf:base:1.0'
Q = lambda l: '{%s}%s' % (BASE, l)
FIELDS = ['error-type', 'error-tag', 'error-app-tag', 'error-severity', 'error-info', 'error-path', 'error-message']
ATTRS = ['type', 'tag', 'app_tag', 'severity', 'info', 'path', 'message']
F6_SIG = 'ok_child_and_rpc_error'

# ------------------------------------------------------------------ independent reader
def read_tree(text):
    p = ET.XMLParser(target=ET.TreeBuilder(insert_comments=True, insert_pis=True))
    p.feed(text.encode('utf-8') if isinstance(text, str) else text)
    return p.close()

def is_elem(e):
    return isinstance(e.tag, str)

def canon(e, with_tail=False):
    """Canonical nested list of an element as the independent reader sees it."""
    c = [e.tag if is_elem(e) else '#' + getattr(e.tag, '__name__', 'node'), sorted(e.attrib.items()) if is_elem(e) else [],
         e.text, [canon(k, True) for k in e]]
    if with_tail: c.append(e.tail)
    return c

def canon_str(e):
    return json.dumps(canon(e), sort_keys=True, ensure_ascii=True)

def canon_info(info_xml):
    """Canonical form of RPCError.info (output of to_xml on the error-info element)."""
    if info_xml is None: return None
    s = re.sub(r'^<\?xml[^>]*\?>', '', info_xml)
    w = read_tree('<w>' + s + '</w>')
    kids = list(w)
    if len(kids) != 1: return 'UNPARSEABLE:' + info_xml
    return canon_str(kids[0])

def node_val(e):
    """Encoding of a tree for the model runner (Glue/C06_glue.v)."""
    if not is_elem(e):
        return [b'', [], [e.text.encode()] if e.text is not None else [], b'', []]
    ser = canon_str(e).encode() if e.tag == Q('error-info') else b''
    return [e.tag.encode(), [[k.encode(), v.encode()] for k, v in sorted(e.attrib.items())],
            [e.text.encode()] if e.text is not None else [], ser, [node_val(k) for k in e]]

# ------------------------------------------------------------------ the property sentence (oracle)
def o_rpc_errors(root):
    out = []
    def walk(e):
        for k in e:
            if is_elem(k) and k.tag == Q('rpc-error'): out.append(k)
            walk(k)
    walk(root)
    return out

def o_mirror(raw):
    f = []
    for name in FIELDS:
        last = None
        for k in raw:
            if is_elem(k) and k.tag == Q(name): last = k
        if last is None: f.append(None)
        elif name == 'error-info': f.append(canon_str(last))
        else: f.append(last.text)
    return tuple(f)

def o_matches(p, text):
    p = p.lower()
    lead = p.startswith('*')
    if lead: p = p[1:]
    trail = p.endswith('*')
    if trail: p = p[:-1]
    rx = ('.*' if lead else '') + re.escape(p) + ('.*' if trail else '')
    return re.fullmatch(rx, text, re.S) is not None

def o_text(msg):
    return 'no error given' if msg is None else msg.lower().strip()

def o_should_raise(mode, errors, pats):
    if not errors: return False
    if any(o_matches(p, o_text(errors[0][6])) for p in pats): return False
    if mode == 2: return True
    if mode == 1: return any(e[3] == 'error' for e in errors)
    return False

def oracle(case):
    """What the property sentence demands of this case."""
    root = read_tree(case['reply'])
    errs = [o_mirror(r) for r in o_rpc_errors(root)]
    has_ok = any(is_elem(k) and k.tag == Q('ok') for k in root)
    mode = 2 if case['mode'] is None else case['mode']
    pats = list(case['profile_pats']) + list(case['user'] or [])
    raise_ = o_should_raise(mode, errs, pats)
    exp = dict(ok=not errs, errors=errs, raises=raise_)
    if raise_:
        exp['kind'] = 'single' if len(errs) == 1 else 'aggregate'
        exp['severity'] = errs[0][3] if len(errs) == 1 else ('error' if any(e[3] == 'error' for e in errs) else 'warning')
    return exp, has_ok, root

# ------------------------------------------------------------------ implementation
def profile_names():
    from vlib import paths
    d = os.path.join(paths.REPO, 'ncclient', 'devices')
    return sorted(f[:-3] for f in os.listdir(d) if f.endswith('.py') and f != '__init__.py')

_PROFILE_PATS = {}
def profile_patterns(name):
    """The profile's _EXEMPT_ERRORS read from the source text (ast), not from the running class."""
    if name in _PROFILE_PATS: return _PROFILE_PATS[name]
    from vlib import paths
    src = open(os.path.join(paths.REPO, 'ncclient', 'devices', name + '.py')).read()
    pats = []
    for n in ast.walk(ast.parse(src)):
        if isinstance(n, ast.ClassDef) and n.name == name.capitalize() + 'DeviceHandler':
            for st in n.body:
                if isinstance(st, ast.Assign) and any(isinstance(t, ast.Name) and t.id == '_EXEMPT_ERRORS' for t in st.targets):
                    pats = ast.literal_eval(st.value)
    _PROFILE_PATS[name] = pats
    return pats

def err_tuple(e):
    return (e.type, e.tag, e.app_tag, e.severity, canon_info(e.info), e.path, e.message)

def custom_handler(pats):
    from ncclient.devices.default import DefaultDeviceHandler
    class CustomDeviceHandler(DefaultDeviceHandler):
        _EXEMPT_ERRORS = list(pats)
        def __init__(self, device_params, ignore_errors=None):
            super().__init__(device_params, ignore_errors)
    return CustomDeviceHandler

def impl_parse(reply):
    """RPCReply on the raw text: (ok, errors, error)."""
    from ncclient.operations.rpc import RPCReply
    r = RPCReply(reply)
    ok = r.ok
    errs = [err_tuple(e) for e in r.errors]
    first = r.error
    return ok, errs, (err_tuple(first) if first is not None else None)

def impl_run(case):
    """Returns dict(parse=(ok, errors), call=('return', ok|None, errors|None) | ('raise', kind, ...))."""
    from ncclient import manager
    from ncclient.operations import RPCError
    from harness.fakesession_rpc import make_session, patched_transports, parse_request, reply_doc
    warnings.simplefilter('ignore')
    reply = case['reply']
    def server(msg):
        mid, op, tgt = parse_request(msg)
        return [reply.replace('@MID@', mid or '')]
    if case['profile'] == '@custom':
        dp = {'handler': custom_handler(case['profile_pats'])}
    elif case['profile'] is None:
        dp = None
    else:
        dp = {'name': case['profile']}
    route, mode, user = case['route'], case['mode'], case['user']
    if route == 'direct':
        dh = manager.make_device_handler(dp, user)
        s = make_session(dh, server)
        m = manager.Manager(s, dh) if mode is None else manager.Manager(s, dh, raise_mode=mode)
    else:
        ep = {}
        if user is not None: ep['ignore_errors'] = user
        if mode is not None: ep['raise_mode'] = mode
        kw = dict(host='peer')
        if dp is not None: kw['device_params'] = dp
        if ep or case.get('ep_present'): kw['errors_params'] = ep
        with patched_transports(server):
            if case.get('prior') is not None:
                # an application that passes ONE manager_params / errors-free settings object to several connects:
                # an earlier connect (other raise mode, other ignore list) must not influence this one
                shared = {'timeout': 7}
                getattr(manager, route)(host='other', manager_params=shared,
                                        errors_params={'raise_mode': case['prior'], 'ignore_errors': ['*earlier session*']})
                kw['manager_params'] = shared
            m = getattr(manager, route)(**kw)
    out = {}
    try:
        pk = impl_parse(reply.replace('@MID@', 'x'))
        out['parse'] = [pk[0], pk[1], pk[2]]
    except Exception as e:
        out['parse'] = ['exc', type(e).__name__]
    out['call'] = impl_call(m, case.get('op', 'lock'))
    return out

def impl_call(m, op='lock'):
    """One synchronous operation on a manager; the scripted peer answers with the current reply."""
    from ncclient.operations import RPCError
    try:
        r = m.lock('running') if op == 'lock' else (m.get_config(source='running') if op == 'get_config' else m.discard_changes())
        if hasattr(r, 'errors') and hasattr(r, 'ok'):
            return ['return', r.ok, [err_tuple(e) for e in r.errors]]
        return ['return', None, None]
    except RPCError as e:
        if e.errlist is None:
            return ['raise', 'single', err_tuple(e), e.severity, e.message]
        return ['raise', 'aggregate', [err_tuple(x) for x in e.errlist], e.severity, e.message,
                [err_tuple(x) for x in e.errors] == [err_tuple(x) for x in e.errlist]]
    except Exception as e:
        return ['exc', type(e).__name__, str(e)[:200]]

# ------------------------------------------------------------------ model
def dec_opt(v): return v[0].decode() if v else None
def dec_err(v): return tuple(dec_opt(x) for x in v)
def dec_outcome(v):
    if v[0] == 0: return ['return']
    if v[0] == 1: return ['raise', 'single', dec_err(v[1])]
    return ['raise', 'aggregate', [dec_err(x) for x in v[1]], v[3].decode(), v[2].decode()]

def model_calls(case, root):
    tree = node_val(root)
    mode = 2 if case['mode'] is None else case['mode']
    pats = [p.encode() for p in list(case['profile_pats']) + list(case['user'] or [])]
    calls = [[1, tree, mode, pats]]
    if case['route'] != 'direct':
        u = case['user']
        calls.append([3, [p.encode() for p in case['profile_pats']], [[p.encode() for p in u]] if u is not None else [],
                      [] if case['mode'] is None else [case['mode']], tree])
    return calls

def compare_model(case, mouts, im):
    """List of differences between the model's outputs and the implementation's observations."""
    diffs = []
    m1 = mouts[0]
    m_errs = [dec_err(e) for e in m1[0]]; m_ok = bool(m1[1]); m_out = dec_outcome(m1[2])
    if im['parse'][0] == 'exc':
        diffs.append(('parse', [m_ok, m_errs], im['parse']))
    else:
        if [m_ok, m_errs] != [im['parse'][0], im['parse'][1]]:
            diffs.append(('RPCReply.ok/.errors', [m_ok, m_errs], im['parse'][:2]))
        if (m_errs[0] if m_errs else None) != im['parse'][2]:
            diffs.append(('RPCReply.error', m_errs[:1], im['parse'][2]))
    c = im['call']
    if c[0] == 'return':
        if m_out != ['return']: diffs.append(('decision', m_out, c))
        elif c[1] is not None and [c[1], c[2]] != [m_ok, m_errs]: diffs.append(('returned reply', [m_ok, m_errs], c))
    elif c[0] == 'raise' and c[1] == 'single':
        if m_out[:2] != ['raise', 'single'] or m_out[2] != c[2]: diffs.append(('decision', m_out, c))
        elif (c[2][3], c[2][6]) != (c[3], c[4]): diffs.append(('single error attributes', m_out, c))
    elif c[0] == 'raise':
        if m_out[:2] != ['raise', 'aggregate'] or m_out[2] != c[2] or m_out[3] != c[3] or m_out[4] != c[4] or not c[5]:
            diffs.append(('decision/aggregate', m_out, c))
    else:
        diffs.append(('exception', m_out, c))
    if len(mouts) > 1 and dec_outcome(mouts[1]) != m_out:
        diffs.append(('connect-style plumbing (call_outcome) vs direct decision', dec_outcome(mouts[1]), c))
    return diffs

def check_oracle(case, im):
    """Evaluate the property sentence on the observed behaviour. Returns list of (what, sig, expected, actual)."""
    exp, has_ok, root = oracle(case)
    fails = []
    f6 = has_ok and len(exp['errors']) > 0
    def add(what, e, a, f6_behaviour):
        fails.append((what, F6_SIG if (f6 and f6_behaviour) else None, e, a))
    p = im['parse']
    if p[0] == 'exc':
        add('RPCReply raised %s' % p[1], [exp['ok'], exp['errors']], p, False)
    else:
        if p[0] != exp['ok'] or p[1] != exp['errors']:
            add('RPCReply.ok/.errors do not mirror the reply', [exp['ok'], exp['errors']], p[:2], p[0] is True and p[1] == [])
        if p[2] != (exp['errors'][0] if exp['errors'] else None) and not (f6 and p[2] is None):
            add('RPCReply.error is not the first rpc-error', exp['errors'][:1], p[2], False)
    c = im['call']
    if c[0] == 'exc':
        add('call ended in %s' % c[1], exp, c, False)
    elif exp['raises'] != (c[0] == 'raise'):
        add('raise decision', exp, c, c[0] == 'return' and c[1] in (True, None) and c[2] in ([], None))
    elif c[0] == 'raise':
        if c[1] != exp['kind']:
            add('raised exception kind', exp, c, False)
        elif c[1] == 'single':
            if c[2] != exp['errors'][0]: add('raised error does not mirror the rpc-error', exp, c, False)
        else:
            if c[2] != exp['errors']: add('aggregate does not carry all errors in order', exp, c, False)
            if c[3] != exp['severity']: add('aggregate severity', exp, c, False)
    elif c[1] is not None:
        if c[1] != exp['ok'] or c[2] != exp['errors']:
            add('returned reply ok/errors', exp, c, c[1] is True and c[2] == [])
    return fails

# ------------------------------------------------------------------ generators
def rpc_error_xml(fields, px=''):
    """fields: list of (local name, text|None|xmlfragment) in order."""
    s = '<%srpc-error>' % px
    for name, val in fields:
        if val is None: s += '<%s%s/>' % (px, name)
        else: s += '<%s%s>%s</%s%s>' % (px, name, val, px, name)
    return s + '</%srpc-error>' % px

def reply_xml(body, px=None, root='rpc-reply'):
    if px:
        return '<%s:%s xmlns:%s="%s" message-id="@MID@">%s</%s:%s>' % (px, root, px, BASE, body, px, root)
    return '<%s xmlns="%s" message-id="@MID@">%s</%s>' % (root, BASE, body, root)

SEVS = {'e': 'error', 'w': 'warning', 'a': None, 'o': 'info'}
def simple_error(sev, msg, px=''):
    f = [('error-type', 'application'), ('error-tag', 'operation-failed')]
    if sev is not None: f.append(('error-severity', sev))
    if msg is not None: f.append(('error-message', msg))
    return rpc_error_xml(f, px)

PATSETS = [[], ['msg a'], ['MSG A'], ['*g a'], ['msg*'], ['*SG*'], ['*'], ['**'], [''], ['msg b'], ['*b'], ['zzz', '*G A*'],
           ['msg', 'a*'], ['*msg a*', 'x'], ['msg a*'], ['* a']]
MSGS = [' Msg A ', 'msg b', 'Msg C']

def mk_case(reply, mode, profile=None, profile_pats=None, user=None, route='direct', **kw):
    if profile_pats is None:
        profile_pats = [] if profile in (None, '@custom') else profile_patterns(profile)
    c = dict(reply=reply, mode=mode, profile=profile, profile_pats=list(profile_pats), user=user, route=route)
    c.update(kw)
    return c

def gen_exhaustive():
    """severities^<=3 x 3 modes x pattern alphabet; patterns alternate between profile and user position."""
    cases = []
    k = 0
    for n in range(0, 4):
        for sevs in itertools.product('ewao', repeat=n):
            body = ''.join(simple_error(SEVS[s], MSGS[i]) for i, s in enumerate(sevs))
            rep = reply_xml(body)
            for mode in (0, 1, 2):
                for ps in PATSETS:
                    k += 1
                    if k % 2: cases.append(mk_case(rep, mode, '@custom', ps, None))
                    else: cases.append(mk_case(rep, mode, None, None, ps))
    return cases

def gen_fields(rng, thorough):
    """optional-field subsets (all 2^7 for one error), duplicates, reordering, empty elements."""
    cases = []
    vals = {'error-type': 'rpc', 'error-tag': 'lock-denied', 'error-app-tag': 'app', 'error-severity': 'error',
            'error-info': '<session-id>4</session-id><x:y xmlns:x="urn:x" a="1">t<z/>u</x:y>', 'error-path': '/a/b[c=&apos;1&apos;]',
            'error-message': 'Lock failed, lock is already held'}
    for bits in range(128):
        f = [(n, vals[n]) for i, n in enumerate(FIELDS) if bits >> i & 1]
        for mode in ((0, 1, 2) if thorough or bits % 8 == 0 else (rng.choice((0, 1, 2)),)):
            cases.append(mk_case(reply_xml(rpc_error_xml(f)), mode))
        g = list(f); rng.shuffle(g)
        if g: g.append((g[0][0], 'second ' + (g[0][1] if g[0][0] != 'error-info' else 'x')))     # duplicate: last wins
        if g and rng.random() < 0.5: g.insert(0, (rng.choice(FIELDS), None))                      # empty element first
        if g and rng.random() < 0.3: g.append((rng.choice(FIELDS), None))                          # empty element last (wins)
        cases.append(mk_case(reply_xml(rpc_error_xml(g) + simple_error('warning', 'w2')), rng.choice((1, 2)), op='get_config'))
    return cases

def random_error(rng, px=''):
    f = []
    for n in FIELDS:
        r = rng.random()
        if n == 'error-severity':
            v = rng.choice(['error', 'error', 'warning', 'warning', None, 'info', ' error ', 'ERROR', 'Error\n', '', 'errors'])
            if v is not None: f.append((n, v if v != '' else None))
        elif n == 'error-message':
            v = rng.choice(['Msg A', ' msg b ', 'VLAN with the same name exists', 'x VLAN WITH the same NAME exists y', None,
                            '', '   ', 'a*b', '*', 'no error given', 'tab\there', '\n msg a \n', 'café €', 'MSG A <![CDATA[<x>]]>',
                            '<!--c-->hidden', 'msg &amp; a', 'a'])
            if v is not None: f.append((n, v if v != '' else None))
        elif r < 0.45:
            v = {'error-type': 'protocol', 'error-tag': 'in-use', 'error-app-tag': 'tag', 'error-path': '/x',
                 'error-info': rng.choice(['<bad-element>e</bad-element>', 'text only', '<a><b/>tail</a>', None])}[n]
            f.append((n, v))
    if rng.random() < 0.3: rng.shuffle(f)
    if f and rng.random() < 0.15: f.append(rng.choice(f))
    if rng.random() < 0.1: f.insert(rng.randrange(len(f) + 1), ('unknown-child', 'u'))
    s = rpc_error_xml(f, px)
    if rng.random() < 0.08:      # an rpc-error nested inside error-info of another
        s = rpc_error_xml([('error-severity', 'warning'), ('error-info', s), ('error-message', 'outer')], px)
    if rng.random() < 0.06:      # a look-alike in a foreign namespace: not an rpc-error
        s += '<rpc-error xmlns="urn:other"><error-severity>error</error-severity></rpc-error>'
    return s

USER_PATS = [None, None, [], ['msg a'], ['*'], ['*vlan*'], ['zz'], ['MSG*', '*b'], ['*exists y'], ['no error given'], [''], ['**'],
             ['a\\*b'.replace('\\', '')], ['*same name*'], ['*here'], ['café*'], ['***'], ['*a*b*']]

def gen_random(rng, n, profiles):
    cases = []
    for _ in range(n):
        px = rng.choice(['', '', 'nc:', 'b:'])
        k = rng.choice([0, 1, 1, 2, 2, 3, 4])
        parts = [random_error(rng, px) for _ in range(k)]
        if rng.random() < 0.25 and parts:
            parts[rng.randrange(len(parts))] = '<%sdata>%s</%sdata>' % (px, parts[rng.randrange(len(parts))], px)
        if rng.random() < 0.12: parts.insert(rng.randrange(len(parts) + 1), '<%sok/>' % px)          # F6 territory
        if rng.random() < 0.1: parts.insert(rng.randrange(len(parts) + 1), '<!-- note -->')
        if rng.random() < 0.1: parts.insert(0, '<%sdata><%sok/></%sdata>' % (px, px, px))              # ok not a direct child
        body = ''.join(parts)
        rep = reply_xml(body, px[:-1] if px else None)
        mode = rng.choice([0, 1, 1, 2, 2, None])
        prof = rng.choice(profiles + ['@custom', None])
        ppats = rng.choice([p for p in USER_PATS if p]) if prof == '@custom' else None
        user = rng.choice(USER_PATS)
        route = rng.choice(['direct', 'direct', 'connect_ssh', 'connect_tls', 'connect_uds'])
        if route != 'direct' and mode is not None and mode not in (0, 1, 2): mode = 2
        extra = {}
        if route != 'direct' and rng.random() < 0.35:
            extra['prior'] = rng.choice([m2 for m2 in (0, 1, 2) if m2 != mode])
        cases.append(mk_case(rep, mode, prof, ppats, user, route, op=rng.choice(['lock', 'lock', 'get_config', 'discard']),
                             ep_present=rng.random() < 0.5, **extra))
    return cases

def gen_profiles(profiles):
    """every profile x its own exempt list x user patterns x modes, direct and connect-style."""
    cases = []
    msgs = ['VLAN with the same name exists', 'xx vlan WITH the same name exists yy', 'other failure']
    for prof in profiles:
        pp = profile_patterns(prof)
        for msg in msgs + [p.strip('*') for p in pp]:
            for user in (None, [], ['zz'], ['*failure']):
                for mode in (0, 1, 2, None):
                    for route in ('direct', 'connect_ssh'):
                        rep = reply_xml(simple_error('error', msg) + simple_error('warning', 'second'))
                        cases.append(mk_case(rep, mode, prof, None, user, route))
    return cases

def gen_f6():
    cases = []
    for body in ['<ok/>' + simple_error('error', 'e1'), simple_error('warning', 'w') + '<ok/>',
                 '<ok/>' + simple_error('warning', 'w') + simple_error('error', 'e')]:
        for mode in (0, 1, 2):
            cases.append(mk_case(reply_xml(body), mode))
    return cases

# ---- matcher block: is_rpc_error_exempt directly
def impl_exempt(pats, msg):
    from ncclient import manager
    return manager.make_device_handler({'handler': custom_handler(pats[:1])}, pats[1:]).is_rpc_error_exempt(msg)

def run_matcher(ctx):
    alpha = ['a', 'B', '*', ' ']
    words = [''.join(w) for n in range(0, 4) for w in itertools.product(alpha, repeat=n)]
    msgs = [''.join(w) for n in range(0, 4) for w in itertools.product(['a', 'b', 'A', ' '], repeat=n)] + [None]
    cases = [([p], m) for p in words for m in msgs]
    extra_p = [['*VLAN with the same name exists*'], ['x', '*a'], ['a*', 'b'], ['*a*', '*'], ['€*'], ['*\t'], ['a\x1f*'], ['***'], ['*a*a']]
    extra_m = ['xx vlan WITH THE SAME NAME exists', 'a', 'ba', 'ab', '€1', 'a\t', '\x1fa\x1f', '\x0ba\x0c', '*', 'a*a', 'aa', None, 'no error given']
    cases += [(p, m) for p in extra_p for m in extra_m]
    n = 3000 if ctx.tier == "quick" else 150000
    for _ in range(n):
        ps = [''.join(ctx.rng.choice('aAbB* \t') for _ in range(ctx.rng.randrange(0, 5))) for _ in range(ctx.rng.randrange(0, 4))]
        m = ctx.rng.choice([None] + [''.join(ctx.rng.choice('aAbB* \n') for _ in range(ctx.rng.randrange(0, 7)))])
        cases.append((ps, m))
    calls = [[2, [p.encode() for p in ps], [m.encode()] if m is not None else []] for ps, m in cases]
    outs = ctx.model.batch(calls) if ctx.model else [None] * len(cases)
    for (ps, m), mo in zip(cases, outs):
        case = {'matcher': True, 'pats': ps, 'msg': m}
        im = impl_exempt(ps, m)
        sp = any(o_matches(p, o_text(m)) for p in ps)
        ctx.count(case, nontrivial=bool(ps))
        ctx.hist('matcher_outcome', im)
        if mo is not None and bool(mo) != im:
            ctx.disagree(case, bool(mo), im, 'exempt(classify pats) vs is_rpc_error_exempt', theorem='C06_match_spec')
        if im != sp:
            ctx.fail(case, 'is_rpc_error_exempt(%r) with patterns %r: implementation %r, "*" semantics %r' % (m, ps, im, sp),
                     sig=None, expected=sp, actual=im)

# ------------------------------------------------------------------ histories of connects over shared caller objects
# (harness/connhist.py; model: coq/Model/ConnectHistory.v, glue fn 4; theorems C06_history_*)
HROUTE = {'direct': 0, 'connect_ssh': 1, 'connect_tls': 2, 'connect_uds': 3, 'connect': 4}

def class_pats(spec):
    """exempt list of a caller's handler class, from the case text (shipped part read from the source with ast)"""
    return (profile_patterns(spec['shape'][4:]) if spec['shape'].startswith('sub:') else []) + list(spec['pats'])

def asked(case, st):
    """What the caller asks for with this connect, read from the CASE (his objects as he wrote them):
    (profile label, profile patterns, user patterns or None, raise mode or None)."""
    dp = case['pool'][st['dp']] if st.get('dp') is not None else None
    ep = case['pool'][st['ep']] if st.get('ep') is not None else None
    h = (dp or {}).get('handler')
    if h:
        prof, pp = '@custom', class_pats(case['classes'][h['@cls']])
    else:
        prof = (dp or {}).get('name', 'default'); pp = profile_patterns(prof)
    return prof, pp, (ep or {}).get('ignore_errors'), (ep or {}).get('raise_mode')

def pv_enc(v, case):
    if isinstance(v, bool): return [0, int(v)]
    if isinstance(v, int): return [0, v]
    if isinstance(v, str): return [1, v.encode()]
    if isinstance(v, list) and all(isinstance(x, str) for x in v): return [2, [x.encode() for x in v]]
    if isinstance(v, dict) and set(v) == {'@cls'}: return [3, v['@cls'], [x.encode() for x in class_pats(case['classes'][v['@cls']])]]
    if v is None: return [4]
    return [5, repr(v).encode()]

def pv_of_snap(sn):
    """the same encoding from a connhist.snap picture of the live object"""
    t = sn[0]
    if t == 'n': return [0, sn[1]]
    if t == 's': return [1, sn[1].encode()]
    if t in ('l', 't') and all(x[0] == 's' for x in sn[1]): return [2, [x[1].encode() for x in sn[1]]]
    if t == 'h': return [3, sn[1], pv_of_snap(sn[2])[1] if sn[2][0] in ('l', 't') else None]
    if t == 'none': return [4]
    return [5, b'?']

def hist_model_call(case):
    opt = lambda x: [] if x is None else [x]
    profs = [[n.encode(), [x.encode() for x in profile_patterns(n)]] for n in profile_names()]
    pool = [[i, [[k.encode(), pv_enc(v, case)] for k, v in d.items()]] for i, d in enumerate(case['pool'])]
    steps = [[HROUTE[st['route']], opt(st.get('dp')), opt(st.get('mp')), opt(st.get('np')), opt(st.get('ep')),
              opt(st.get('timeout')), 1 if st.get('fail') else 0] for st in case['steps']]
    return [4, profs, pool, steps]

def probe_case(case, st, reply):
    prof, pp, user, mode = asked(case, st)
    return mk_case(reply, mode, prof, pp, user, st['route'])

_PARSE = {}
def parse_cached(reply):
    if reply not in _PARSE:
        if len(_PARSE) > 4000: _PARSE.clear()
        try:
            pk = impl_parse(reply.replace('@MID@', 'x')); _PARSE[reply] = [pk[0], pk[1], pk[2]]
        except Exception as e:
            _PARSE[reply] = ['exc', type(e).__name__]
    return _PARSE[reply]

def same_surface(a, b):
    """two observations of one reply agree (a vendor reply class without .ok/.errors shows as ['return', None, None])"""
    if a[0] == 'return' and b[0] == 'return' and (a[1] is None or b[1] is None): return True
    return a == b

def run_history_case(case, model=None):
    """Run one history on the implementation. model = (fn-4 output, {(k, probe): index}, decision outputs) or None.
    Returns dict(fails=[(what, sig, expected, actual)], disagrees=[(what, model, impl)], probes=[(k, j, pi, call)], events=[...])."""
    from harness import connhist
    warnings.simplefilter('ignore')
    fails, dis, probes, events = [], [], [], []
    cell = {'reply': None}
    managers = []                      # (step index, manager)
    op = case.get('op', 'lock')
    for ev in connhist.run(case, cell):
        k, st = ev.k, ev.step
        tag = 'connect #%d (%s)' % (k + 1, st['route'])
        refused = bool(st.get('fail')) and st['route'] != 'direct'
        events.append(dict(k=k, route=st['route'], result=('manager' if ev.manager is not None else ev.raised), altered=ev.altered,
                           handler_class=ev.handler_class))
        # -- the caller's objects are his: a connect (successful or refused) leaves them as they were
        for i in ev.altered:
            if isinstance(i, int):
                kinds = sorted({kd for s2 in case['steps'] for kd in connhist.KINDS if s2.get(kd) == i})
                fails.append(("%s altered the caller's dictionary #%d (%s)%s" % (tag, i, '/'.join(connhist.ARG[x] for x in kinds),
                              '' if i in ev.altered_now else ' [altered by an earlier connect]'), None, ev.before[i] if i in ev.altered_now else case['pool'][i], ev.after[i]))
            else:
                fails.append(("%s altered the class-level _EXEMPT_ERRORS of %s" % (tag, "the caller's handler " + i if i.startswith('class')
                              else 'the shipped profile ' + i[8:]), None, None, None))
        # -- the connect itself
        if refused:
            if ev.manager is not None or ev.raised is None or ev.raised[0] != 'ScriptedRefusal':
                fails.append(('%s: the refusal of session.connect() did not propagate' % tag, None, ['ScriptedRefusal'],
                              ev.raised or 'manager returned'))
        elif ev.manager is None:
            fails.append(('%s raised %s' % (tag, ev.raised), None, 'a manager', ev.raised))
        if model is not None:
            mpool, mconns = model[0]
            mc = mconns[k]
            live = [[i, sorted([kk.encode(), pv_of_snap(x)] for kk, x in sn[1])] for i, sn in enumerate(ev.after)]
            mp_sorted = [[o[0], sorted(o[1])] for o in mpool]
            if live != mp_sorted:
                dis.append(("caller's objects after %s" % tag, mp_sorted, live))
            if mc[0] == 0 and ev.manager is not None:
                got = [[x.encode() for x in ev.manager._device_handler._EXEMPT_ERRORS], ev.manager._raise_mode, ev.manager._timeout]
                if got != [mc[1], mc[2], mc[3]]:
                    dis.append(('manager of %s (exempt list, raise mode, timeout)' % tag, mc[1:], got))
            elif (mc[0] == 0) != (ev.manager is not None) or (mc[0] == 1) != (ev.raised is not None and ev.raised[0] == 'ScriptedRefusal'):
                dis.append(('result of %s' % tag, mc, ev.raised or 'manager'))
        if ev.manager is not None:
            managers.append((k, ev.manager))
        # -- every manager obtained so far surfaces every probe reply by ITS OWN connect's parameters
        order = managers if case.get('order', 0) == 0 else managers[::-1]
        seen = {}
        for j, m in order:
            sj = case['steps'][j]
            for pi, reply in enumerate(case['probes']):
                cell['reply'] = reply
                call = impl_call(m, op)
                probes.append((k, j, pi, call))
                pc = probe_case(case, sj, reply)
                im = dict(parse=parse_cached(reply), call=call)
                for what, sig, e, a in check_oracle(pc, im):
                    fails.append(('manager of connect #%d (%s) after %s, probe %d: %s' % (j + 1, sj['route'], tag, pi, what), sig, e, a))
                if model is not None and (j, pi) in model[1]:
                    o = model[1][(j, pi)]
                    for what, mo, io in compare_model(pc, model[2][o:o + 2], im):
                        dis.append(('manager of connect #%d after %s, probe %d: %s' % (j + 1, tag, pi, what), mo, io))
                # managers whose connects asked for the same thing decide alike
                a_ = asked(case, sj); key = json.dumps([a_[1], a_[2] or [], 2 if a_[3] is None else a_[3], pi], sort_keys=True)
                if key in seen and not same_surface(seen[key][1], call):
                    fails.append(('managers of connects #%d and #%d were asked for the same profile / patterns / mode but surface probe %d differently'
                                  % (seen[key][0] + 1, j + 1, pi), None, seen[key][1], call))
                seen.setdefault(key, (j, call))
    return dict(fails=fails, disagrees=dis, probes=probes, events=events)

def hist_models(model, cases):
    """fn 4 for every history, then the decisions (fn 1 on the model's manager, fn 3 on what was asked) per manager and probe."""
    if model is None: return [None] * len(cases)
    m4 = model.batch([hist_model_call(c) for c in cases])
    calls, spans = [], []
    for c, out in zip(cases, m4):
        trees = [node_val(read_tree(r.replace('@MID@', 'x'))) for r in c['probes']]
        span = {}
        for k, cn in enumerate(out[1]):
            if cn[0] != 0: continue
            prof, pp, user, mode = asked(c, c['steps'][k])
            for pi, t in enumerate(trees):
                span[(k, pi)] = len(calls)
                calls.append([1, t, cn[2], cn[1]])
                calls.append([3, [x.encode() for x in pp], [[x.encode() for x in user]] if user is not None else [],
                              [] if mode is None else [mode], t])
        spans.append(span)
    douts = model.batch(calls) if calls else []
    return [(o, sp, douts) for o, sp in zip(m4, spans)]

def eval_histories(ctx, cases, label):
    import hashlib
    models = hist_models(ctx.model, cases)
    for c, mo in zip(cases, models):
        res = run_history_case(c, mo)
        hid = hashlib.blake2b(json.dumps(c, sort_keys=True).encode(), digest_size=8).hexdigest()
        ctx.traces += 1
        ctx.hist('block', label); ctx.hist('history_steps', len(c['steps']))
        ctx.hist('history_routes', '>'.join(st['route'].replace('connect_', '') for st in c['steps']))
        for e in res['events']:
            ctx.hist('history_step_result', 'manager' if e['result'] == 'manager' else e['result'][0])
        for k, j, pi, call in res['probes']:
            ctx.count(None, nontrivial=True, key=[hid, k, j, pi])
            ctx.hist('impl_outcome', call[0] + ('/' + call[1] if call[0] == 'raise' else ''))
            ctx.hist('history_probe', 'newest manager' if j == k else 'earlier manager again')
        if ctx.traces % 199 == 1: ctx.sample({'case': c, 'events': res['events']})
        for what, mo_, io in res['disagrees']:
            ctx.disagree(c, mo_, io, 'model vs implementation: ' + what, theorem='C06_history_independent/C06_history_decision')
        for what, sig, e, a in res['fails'][:3]:
            ctx.fail(c, what, sig=sig, expected=e, actual=a)

def msg_for(p, i=0):
    """a message the pattern p matches (mixed case, padded), XML-safe for the patterns used here"""
    core = p
    lead = core.startswith('*'); core = core[1:] if lead else core
    trail = core.endswith('*'); core = core[:-1] if trail else core
    core = core.swapcase() if i % 2 else core
    return ' ' + ('zz' if lead else '') + core + ('yy' if trail else '') + ' '

CLASS_PATS = [['*object already exists*'], ['msg a'], ['*vlan*', 'zz'], ['MSG*', '*b'], ['*exists y'], ['lock held*'], ['*same name*']]
HUSER = [None, [], ['*failure'], ['msg a'], ['commit*'], ['*nearly full'], ['zz']]

def hist_probes(case, rng=None):
    pats = []
    for st in case['steps']:
        _, pp, user, _ = asked(case, st)
        for x in list(pp) + list(user or []):
            if x not in pats and x.strip('*'): pats.append(x)
    for sp in case['classes']:
        for x in class_pats(sp):
            if x not in pats and x.strip('*'): pats.append(x)
    e = lambda sev, msg: simple_error(sev, msg)
    fixed = [reply_xml(e('error', 'commit failed')), reply_xml(e('warning', 'disk nearly full')),
             reply_xml(e('warning', 'w') + e('error', 'commit failed'))]
    per = []
    for i, x in enumerate(pats):
        per.append(reply_xml(e('error', msg_for(x, i))))
        per.append(reply_xml(e('warning', msg_for(x, i + 1)) + e('error', 'commit failed')))
    if rng is None:
        return per[:2] + fixed[:2] if per else fixed
    out = per[:1] + rng.sample(per[1:], min(len(per) - 1, 2)) if per else []
    return out + rng.sample(fixed, 2)

def gen_hist_pairs(thorough):
    """every ordered pair of routes x kind of device_params x first attempt refused or not, all four dictionaries shared,
    followed by a manager built by hand from the same device_params / manager_params and no errors_params."""
    from harness import connhist
    cases, n = [], 0
    dpkinds = ['plain', 'init', 'tuple', 'sub:nexus', 'name:nexus', 'none']
    for r1 in connhist.ROUTES:
        for r2 in connhist.ROUTES:
            for dk in dpkinds:
                for refused in (False, True):
                    if refused and r1 == 'direct': continue
                    for mode in ((0, 1, 2) if thorough else ((n % 3),)):
                        n += 1
                        classes = [] if dk in ('none',) or dk.startswith('name:') else [dict(shape=dk, pats=CLASS_PATS[n % len(CLASS_PATS)])]
                        dp = {'handler': {'@cls': 0}, 'site': 'lab'} if classes else ({'name': dk[5:]} if dk.startswith('name:') else {})
                        pool = [dp, {'timeout': 7}, {'raise_mode': mode, 'ignore_errors': HUSER[2 + n % (len(HUSER) - 2)]}, {'capabilities': ['urn:x:cap:1.0']}]
                        sh = dict(dp=0, mp=1, ep=2, np=3)
                        steps = [dict(route=r1, fail=refused, timeout=None, **sh), dict(route=r2, fail=False, timeout=(5 if n % 4 == 0 else None), **sh),
                                 dict(route='direct', dp=0, mp=1, ep=None, np=None, fail=False, timeout=None, **({'over': 1} if n % 2 else {}))]
                        c = dict(history=True, classes=classes, pool=pool, steps=steps, order=n % 2, op='lock')
                        c['probes'] = hist_probes(c)
                        cases.append(c)
    return cases

def gen_hist_random(rng, n, profiles):
    from harness import connhist
    cases = []
    named = [p for p in profiles if p not in ('default',)]
    for _ in range(n):
        classes = [dict(shape=rng.choice(['plain', 'plain', 'init', 'tuple', 'sub:nexus']), pats=rng.choice(CLASS_PATS))
                   for _ in range(rng.choice([1, 1, 2]))]
        pool, idx = [], {k: [] for k in connhist.KINDS}
        for _ in range(rng.choice([1, 1, 2])):
            r = rng.random()
            if r < 0.6:
                d = {'handler': {'@cls': rng.randrange(len(classes))}}
                if rng.random() < 0.4: d['site'] = 'lab'
                if rng.random() < 0.2: d['ssh_subsystem_name'] = 'netconf'
            elif r < 0.85: d = {'name': rng.choice(named)}
            else: d = {}
            idx['dp'].append(len(pool)); pool.append(d)
        idx['mp'].append(len(pool)); pool.append(rng.choice([{}, {'timeout': 7}, {'timeout': 45}]))
        if rng.random() < 0.6:
            idx['np'].append(len(pool)); pool.append(rng.choice([{}, {'capabilities': ['urn:x:cap:1.0']}]))
        for _ in range(rng.choice([1, 2, 2])):
            d = {}
            if rng.random() < 0.75: d['raise_mode'] = rng.choice([0, 1, 1, 2, 2])
            if rng.random() < 0.7: d['ignore_errors'] = rng.choice(HUSER[1:])
            idx['ep'].append(len(pool)); pool.append(d)
        steps = []
        for _ in range(rng.choice([2, 2, 3, 3, 4])):
            st = dict(route=rng.choice(connhist.ROUTES), timeout=rng.choice([None, None, 3, 11]), fail=rng.random() < 0.25)
            for kd in connhist.KINDS:
                st[kd] = rng.choice(idx[kd]) if idx[kd] and rng.random() < (0.9 if kd in ('dp', 'ep') else 0.7) else None
            if st['route'] == 'direct' and steps and rng.random() < 0.5:
                st['over'] = rng.randrange(len(steps))          # a second Manager, with its own handler, over an earlier manager's session
            steps.append(st)
        c = dict(history=True, classes=classes, pool=pool, steps=steps, order=rng.randrange(2), op=rng.choice(['lock', 'lock', 'get_config', 'discard']))
        c['probes'] = hist_probes(c, rng)
        cases.append(c)
    return cases

# ------------------------------------------------------------------ driver
def eval_cases(ctx, cases, label):
    roots = []
    calls, spans = [], []
    for c in cases:
        root = read_tree(c['reply'].replace('@MID@', 'x'))
        mc = model_calls(c, root)
        spans.append((len(calls), len(mc))); calls += mc
    outs = ctx.model.batch(calls) if ctx.model else None
    for c, (o, n) in zip(cases, spans):
        im = impl_run(c)
        exp, has_ok, _ = oracle(c)
        ctx.count(c, nontrivial=bool(exp['errors']))
        ctx.hist('block', label); ctx.hist('n_errors', len(exp['errors'])); ctx.hist('mode', c['mode'])
        ctx.hist('impl_outcome', im['call'][0] + ('/' + im['call'][1] if im['call'][0] == 'raise' else ''))
        ctx.hist('route', c['route']); ctx.hist('profile', c['profile'])
        if ctx.evaluations % 1499 == 1: ctx.sample({'case': c, 'impl': im})
        if outs is not None:
            for what, mo, io in compare_model(c, outs[o:o + n], im):
                ctx.disagree(c, mo, io, 'model vs implementation: ' + what, theorem='C06_decide_spec/C06_errors_mirror')
        for what, sig, e, a in check_oracle(c, im):
            ctx.fail(c, what, sig=sig, expected=e, actual=a)

def corpus_cases():
    from vlib import paths
    d = os.path.join(paths.CORPUS, ID)
    out = []
    if os.path.isdir(d):
        for f in sorted(os.listdir(d)):
            if f.endswith('.json'): out.append(json.load(open(os.path.join(d, f))))
    return out

def all_cases(ctx):
    thorough = ctx.tier == 'thorough'
    profiles = profile_names()
    blocks = [('corpus', [c for c in corpus_cases() if not c.get('history')]), ('f6', gen_f6()), ('exhaustive', gen_exhaustive()),
              ('fields', gen_fields(ctx.rng, thorough)), ('profiles', gen_profiles(profiles)),
              ('random', gen_random(ctx.rng, 100000 if thorough else 2500, profiles))]
    return blocks

def run(ctx):
    thorough = ctx.tier == 'thorough'
    # histories first: a history builds every object it shares from its own text, so its failure replays in a fresh process
    # (a leak through a shipped class can also make a LATER single case fail, which alone does not reproduce)
    eval_histories(ctx, [c for c in corpus_cases() if c.get('history')], 'history-corpus')
    eval_histories(ctx, gen_hist_pairs(thorough), 'history-pairs')
    eval_histories(ctx, gen_hist_random(ctx.rng, 8000 if thorough else 350, profile_names()), 'history-random')
    for label, cases in all_cases(ctx):
        eval_cases(ctx, cases, label)
    run_matcher(ctx)
    ctx.exhaustive = True
    ctx.extra['exhaustive_scope'] = ('severity lists of length <= 3 over {error, warning, absent, other} x modes {0,1,2} x 16 pattern sets; '
                                     'single-pattern matcher over patterns and messages of length <= 3 on 4-letter alphabets')
    ctx.extra['profiles'] = profile_names()

def search(ctx, seeds):
    """Tie broke: evaluate the property sentence (oracle only) on the seeds and on fresh generated cases."""
    from vlib import findings
    rng = ctx.rng
    tries = [c for c in seeds if isinstance(c, dict) and 'reply' in c and not c.get('history')]
    tries += gen_f6() + gen_exhaustive() + gen_fields(rng, True) + gen_profiles(profile_names()) + gen_random(rng, 6000, profile_names())
    for c in tries:
        try:
            im = impl_run(c)
            fs = check_oracle(c, im)
        except Exception as e:
            return dict(case=c, what='harness could not evaluate: %r' % e, sig=None, expected=None, actual=None)
        for what, sig, e, a in fs:
            if not findings.covered(ID, sig):
                return dict(case=c, what=what, sig=sig, expected=e, actual=a)
    hists = [c for c in seeds if isinstance(c, dict) and c.get('history')]
    for c in hists + gen_hist_pairs(False) + gen_hist_random(rng, 1500, profile_names()):
        try:
            fs = run_history_case(c)['fails']
        except Exception as e:
            return dict(case=c, what='harness could not evaluate: %r' % e, sig=None, expected=None, actual=None)
        for what, sig, e, a in fs:
            if not findings.covered(ID, sig):
                return dict(case=c, what=what, sig=sig, expected=e, actual=a)
    for c in seeds:
        if isinstance(c, dict) and c.get('matcher'):
            im = impl_exempt(c['pats'], c['msg']); sp = any(o_matches(p, o_text(c['msg'])) for p in c['pats'])
            if im != sp: return dict(case=c, what='is_rpc_error_exempt deviates from "*" semantics', sig=None, expected=sp, actual=im)
    return None

def reproduce(finding):
    w = finding['witness']
    if w.get('matcher'):
        return impl_exempt(w['pats'], w['msg']) != any(o_matches(p, o_text(w['msg'])) for p in w['pats'])
    if w.get('history'):
        fs = run_history_case(w)['fails']
        want = finding.get('sig')
        return any(sig == want for _, sig, _, _ in fs) if want else bool(fs)
    c = mk_case(w['reply'], w.get('mode'), w.get('profile'), w.get('profile_pats'), w.get('user'), w.get('route', 'direct'))
    fs = check_oracle(c, impl_run(c))
    want = finding.get('sig')
    return any(sig == want for _, sig, _, _ in fs) if want else bool(fs)

def replay(doc):
    c = doc['case']
    if c.get('matcher'):
        im = impl_exempt(c['pats'], c['msg']); sp = any(o_matches(p, o_text(c['msg'])) for p in c['pats'])
        print('case     :', c); print('expected :', sp); print('actual   :', im)
        return im == sp
    if c.get('history'):
        res = run_history_case(c)
        print('case     :', json.dumps(c))
        print('expected : every connect leaves the caller\'s dictionaries and handler classes as they were; every manager surfaces '
              'every probe by the profile / patterns / mode its own connect was given:')
        for k, st in enumerate(c['steps']):
            print('           connect #%d %s: %s' % (k + 1, st['route'], ('refused' if st.get('fail') and st['route'] != 'direct' else asked(c, st))))
        print('actual   :', json.dumps(res['events']))
        for k, j, pi, call in res['probes']:
            print('           after #%d, manager of #%d, probe %d: %s' % (k + 1, j + 1, pi, call[:2]))
        for what, sig, e, a in res['fails']: print('fails    :', what, '(sig %s)' % sig, '| expected', e, '| actual', a)
        return not res['fails']
    im = impl_run(c)
    exp, has_ok, _ = oracle(c)
    fs = check_oracle(c, im)
    print('case     :', json.dumps(c)); print('expected :', exp); print('actual   :', im)
    for what, sig, e, a in fs: print('fails    :', what, '(sig %s)' % sig)
    return not fs
