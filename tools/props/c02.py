"""C02 — outbound framing under partial writes and concurrent submitters
(ncclient/transport/session.py: Session.run send branch, Session.send).
Model: coq/Model/Writer.v; spec: coq/Spec/WireSpec.v; theorems: coq/Props/C02.v."""
import re, ast, itertools, threading, collections
ID = 'C02'
COQ_ROOTS = ['Props/C02.v', 'GenProps/Framing_consts.v', 'GenProps/Writer_consts.v']
RULE = ('A case is (base, message list, readiness answers, transport answer script). Messages from a pool with ASCII, '
        '2/3/4-octet characters (character count != octet count), framing look-alikes ("\\n#5\\n", "\\n##\\n", "]]>"), '
        'long and empty ones; scripts: all-1-octet writes, random short writes, counts larger than what is left, '
        '0 / -1 / None (no count at all) / exception at EVERY write-call index of short queues; readiness False runs. The real Session.run loop runs in its '
        'thread over an in-memory transport. Concurrent cases: 2-4 real submitter threads calling Session.send while the worker '
        'writes under random short writes; put order observed at the queue. thorough: every composition of short frames '
        'into accepted counts. Peer cases (quick 5 tls + 5 ssh + 2 unix, thorough 60 + 60 + 20): the REAL transports - TLSSession.connect to an '
        'ssl server on 127.0.0.1, SSHSession.connect to an in-process paramiko server, UnixSocketSession over a socketpair - after a real '
        'hello exchange (base:1.1 negotiated for 1.1 cases) the client submits 1-5 pool messages, half of the cases with one message of '
        '40-400 kB while the scripted server starts reading 0-50 ms late (real short writes: paramiko accepts at most one packet per '
        'send); the octets the server received are decoded by the strict receivers; the counts returned by the real _transport_write '
        'are recorded in a subclass (resubmission of the unsent tail, accepted == received). A failing peer case is re-executed 3 times. '
        'Stalled peers (quick 3 unix + 2 tls + 1 ssh, thorough 14 + 8 + 4): the session is opened with a timeout of 0.3-0.5 s that stays on its socket '
        '(the real UnixSocketSession.connect(path, timeout) against a listening socket, TLSSession.connect(timeout)); the server reads NOTHING for 2.5 timeouts '
        'while 2-3 messages of 0.6-1.4 MB (Unix), 3 of 2.6-3.4 MB (TLS, loopback TCP buffers ~3 MB), 2 of 0.2-0.5 MB (SSH, no timeout on the channel) are '
        'submitted 0-200 ms apart, in half of the cases after small ones; then it reads all that is still to be had; what it received must be a prefix of the '
        'frames in order (strict receiver + the frame layout of the property text) and anything short of everything must have been answered with an error, '
        'the end of the session and no further write call (write calls that raised are recorded too; only an int in 1..len counts as progress). '
        'Scheduled cases (kind wsched): the real Session.send callers (1-4 threads), the real Session.run and a thread assigning _base run under the '
        'deterministic scheduler of tools/harness/sched.py with scripted write answers / readiness answers; a case is (spec, decision list); 11 scenarios '
        'enumerated for 1 pre-emption completely and for <= 2 (thorough <= 3) pre-emptions up to a cap, + 500 (thorough 8000) random specs and schedules; '
        'every effect trace is replayed label by label on the extracted WriterSched.wstep and an independent strict receiver reads the accepted octets. '
        'distinct = distinct case; non-trivial = at least one non-empty message.')
ASSUMES = ['WriterSched: _base is assigned only while no request is queued or dequeued-and-unframed (_post_connect returns after the assignment)',
           'queue.Queue is FIFO and thread-safe; a transport returning n has taken data[:n] (n > len(data) means everything)',
           'messages are str: str.encode() is UTF-8; the model works on the octets',
           'CPython bytes %-formatting (b"%i") prints decimal without sign/padding: validated by every 1.1 case']
TRUSTED = ['modelled, not verified: queue.Queue, threading, CPython bytes formatting/slicing',
           'tools/harness/fakesession.py in-memory transport and selector shim (rebinds ncclient.transport.session.selectors/TICK)',
           'scheduled cases: tools/harness/sched.py, wr_sched.py, wr_check.py (scheduler, logging fields, scripted transport, effect log -> label mapping); '
           'the queue is sched.SQueue (atomic put/get/empty) there, queue.Queue in the free-running thread cases',
           'peer cases: tools/harness/c01_peers.py (scripted TLS/SSH/Unix servers, recording session subclasses), c12_peers.py (certificates, host key); '
           'OpenSSL, paramiko and the loopback stack are peers, not verified; wall-clock bound 10 s per connection',
           'stalled peers: the kernel buffers of a Unix socket / loopback TCP are smaller than what the case queues (measured ~219 kB / ~3 MB; '
           'a case in which no write was refused is counted as "everything delivered" in the distribution peer_stalled, not as a refusal)']

BIG = 20000
CHUNK_MAX = 4294967295
_hdr = re.compile(rb'\n#([1-9][0-9]*)\n')

# ---------- independent oracle: strict RFC receivers of a complete client stream ----------
def strict_decode11(b):
    msgs, i = [], 0
    while i < len(b):
        chunks = []
        while True:
            if b[i:i + 4] == b'\n##\n':
                if not chunks: return None
                i += 4
                break
            m = _hdr.match(b, i)
            if not m: return None
            n = int(m.group(1))
            if n > CHUNK_MAX: return None
            i = m.end()
            if i + n > len(b): return None
            chunks.append(b[i:i + n]); i += n
        msgs.append(b''.join(chunks))
    return msgs

def strict_decode10(b):
    msgs = []
    while b:
        k = b.find(b']]>]]>')
        if k < 0: return None
        msgs.append(b[:k]); b = b[k + 6:]
    return msgs

def strict_decode(base, b):
    return strict_decode11(b) if base == 1 else strict_decode10(b)

def rfc_frame(base, mb):
    """The frame the property text prescribes for one message (oracle side, written from RFC 4742 / RFC 6242 and the property
    sentence 'chunk size = octet count of the UTF-8 payload'): 1.0 = payload + ']]>]]>'; 1.1 = ONE chunk LF '#' size LF payload,
    then LF '##' LF."""
    if base == 1:
        return b'\n#' + str(len(mb)).encode('ascii') + b'\n' + mb + b'\n##\n'
    return mb + b']]>]]>'

def strict_prefix(base, b):
    """Strict receiver on a stream that may have been cut: (messages of the complete frames, the octets after the last complete frame)."""
    msgs, i = [], 0
    if base != 1:
        while True:
            k = b.find(b']]>]]>', i)
            if k < 0: return msgs, b[i:]
            msgs.append(b[i:k]); i = k + 6
    while i < len(b):
        j, chunks = i, []
        while True:
            if b[j:j + 4] == b'\n##\n' and chunks:
                j += 4; break
            m = _hdr.match(b, j)
            if not m or int(m.group(1)) > CHUNK_MAX or m.end() + int(m.group(1)) > len(b): return msgs, b[i:]
            n = int(m.group(1))
            chunks.append(b[m.end():m.end() + n]); j = m.end() + n
        msgs.append(b''.join(chunks)); i = j
    return msgs, b''

def expand_msg(m):
    """a message of a case: a str, or ['rep', head, unit, n, tail] = head + unit * n + tail (large messages stay small in case files)"""
    if isinstance(m, (list, tuple)):
        _, head, unit, n, tail = m
        return head + unit * n + tail
    return m

def case_msgs(case):
    return [expand_msg(m) for m in (case.get('msgs') or [m for p in case.get('progs', []) for m in p])]

def eom_safe(mb):
    return (mb + b']]>]]>').find(b']]>]]>') == len(mb)

def sig_of(base, msgs):
    """Known limitations, as predicates of the case (never a blanket waiver)."""
    mbs = [m.encode() for m in msgs]
    if base == 1 and any(len(m) == 0 for m in mbs): return 'empty_message_base11'
    if base == 0 and any(not eom_safe(m) for m in mbs): return 'eom_delimiter_inside_message_base10'
    return None

# ---------- implementation driver ----------
class Boom(OSError):
    pass

def to_script(ans):
    out = []
    for a in ans:
        if a[0] == 'a': out.append(('accept', a[1]))
        elif a[0] == 'r': out.append(('ret', a[1]))
        else:
            # whatever the transport raises (a timed-out send, a reset, a closed descriptor ...) ends the session with an
            # error; it is never a reason to skip or retry bytes
            import socket
            classes = [Boom, socket.timeout, ConnectionResetError, BlockingIOError, ValueError]
            out.append(('raise', classes[len(out) % len(classes)]('scripted transport failure')))
    return out

def canon_err(e, sess):
    from ncclient.transport.errors import SessionCloseError
    if isinstance(e, SessionCloseError):
        s = str(e)
        m = re.match(r'^Unexpected session close OUT_BUFFER: `(.*)`$', s, re.S)
        if m:
            try: return ['SessionCloseError', ast.literal_eval(m.group(1)).hex()]
            except Exception: pass
        return ['SessionCloseError', 'text:' + s]
    if isinstance(e, TypeError):           # `n <= 0` on an answer that is no number (None): the loop's own exception, unsent = what it had offered
        return ['TypeError', sess.t.writes[-1][0].hex() if sess.t.writes else '']
    if isinstance(e, Boom) or 'scripted transport failure' in str(e):
        return ['TransportExc', sess.t.writes[-1][0].hex() if sess.t.writes else '']
    return [type(e).__name__, str(e)[:80]]

def run_impl(case, bound=2.0):
    """Pre-filled queue, scripted transport, real Session.run in its own thread."""
    from harness import fakesession_wire as fs
    from ncclient.transport.session import NetconfBase
    s = fs.make_session(capabilities=[])
    s._base = NetconfBase.BASE_11 if case['base'] == 1 else NetconfBase.BASE_10
    rec = fs.ErrRecorder.make(); s.add_listener(rec)
    for m in case['msgs']: s.send(m)
    s.t.answers.extend(to_script(case['answers']))
    s.t.readys.extend(bool(r) for r in case['readys'])
    done = threading.Event()
    total = len(case['msgs'])
    state = {'frames': 0}
    def on_write(t):
        data, a = t.writes[-1]
        if a[1] is None or a[1] >= len(data):
            state['frames'] += 1
            if state['frames'] >= total: done.set()
    s.t.on_write = on_write
    if total == 0: done.set()
    s.start()
    # completion: all frames taken, or an error dispatched
    t0 = fs.PRIMS.monotonic()
    while not done.is_set() and not rec.errors and fs.PRIMS.monotonic() - t0 < bound:
        done.wait(0.001)
    completed = done.is_set() or bool(rec.errors)
    if rec.errors:
        s.join(bound)                      # the worker closes the session and exits by itself
    errs = [canon_err(e, s) for e in rec.errors]
    alive_after_error = s.is_alive() if rec.errors else None
    connected_after = s.connected
    refused = None
    if rec.errors:
        try:
            s.send('<late/>'); refused = False
        except Exception as e:
            refused = type(e).__name__
    exited = s.stop(bound)
    remaining = list(s._q.queue)
    calls = [(d, a) for d, a in s.t.writes]
    return dict(wire=bytes(s.t.wire).hex(), errors=errs, remaining=remaining, completed=completed,
                ncalls=len(calls), calls=calls, alive_after_error=alive_after_error, exited=exited,
                connected_after=connected_after, refused=refused, ready_polls=len(s.t.ready_log), close_calls=s.close_calls, events=list(s.t.events))

def impl_status(obs):
    if obs['errors']:
        e = obs['errors'][0]
        kind = {'SessionCloseError': 0, 'TransportExc': 1, 'TypeError': 2}.get(e[0], e[0])
        return ['failed', kind, e[1], obs['remaining']]
    if not obs['completed']: return ['stuck', obs['remaining']]
    return ['drained'] if not obs['remaining'] else ['waiting', obs['remaining']]

# ---------- model ----------
def model_call(case):
    n = len(case['msgs'])
    ans = []
    for a in case['answers']:
        if a[0] == 'a': ans.append([0, BIG if a[1] is None else a[1]])
        elif a[0] == 'r': ans.append([3] if a[1] is None else ([0, 0] if a[1] == 0 else [1]))
        else: ans.append([2])
    ans += [[0, BIG]] * (n + 1)                       # transport default: takes everything
    readys = [1 if r else 0 for r in case['readys']] + [1] * (n + 1)
    return [2, case['base'], [m.encode() for m in case['msgs']], readys, ans]

def model_status(v):
    wire, st = v
    if st[0] == 0: s = ['drained']
    elif st[0] == 1: s = ['waiting', [m.decode() for m in st[1]]]
    elif st[0] == 2: s = ['inflight', st[1].hex(), [m.decode() for m in st[2]]]
    else: s = ['failed', st[1], st[2].hex(), [m.decode() for m in st[3]]]
    return wire.hex(), s

# ---------- the property sentence on the observables ----------
def oracle(case, obs):
    """Returns a list of (what, expected, actual)."""
    out = []
    base, msgs = case['base'], case['msgs']
    mbs = [m.encode() for m in msgs]
    wire = bytes.fromhex(obs['wire'])
    calls = obs['calls']
    # the loop resubmits exactly the unsent tail; a new frame starts only when the previous one is complete
    for (d1, a1), (d2, _) in zip(calls, calls[1:]):
        if a1[0] == 'accept' and a1[1] is not None and a1[1] < len(d1) and d2 != d1[a1[1]:]:
            out.append(('write call does not resubmit the unsent tail', d1[a1[1]:].hex(), d2.hex()))
    # a frame is started only right after the transport said it is ready to send
    ev = obs['events']
    for i, e in enumerate(ev):
        if e[0] == 'write':
            k = e[1]
            new_frame = k == 0 or (calls[k - 1][1][0] == 'accept' and (calls[k - 1][1][1] is None or calls[k - 1][1][1] >= len(calls[k - 1][0])))
            if new_frame and (i == 0 or ev[i - 1] != ('ready', True)):
                out.append(('a frame was started without a positive _send_ready() answer', ('ready', True), ev[i - 1] if i else None))
    scripted_fail = any(a[0] != 'accept' for _, a in calls)
    if not scripted_fail:
        if obs['errors']:
            out.append(('session failed although the transport accepted every write', [], obs['errors']))
        elif not obs['completed']:
            out.append(('queue not drained within the bound', msgs, obs['remaining']))
        else:
            dec = strict_decode(base, wire)
            if dec != mbs:
                out.append(('strict RFC %s receiver does not get the submitted messages' % ('6242' if base else '4742'),
                            [m.hex() for m in mbs], None if dec is None else [m.hex() for m in dec]))
    else:
        # the failing call is the last one; the session must fail with an error, not drop or truncate silently
        if not obs['errors']:
            out.append(('transport refused a write but no error was dispatched', 'error', obs['errors']))
        else:
            if calls and calls[-1][1][0] == 'accept':
                out.append(('writes continued after the transport refused', 'last call is the refused one', len(calls)))
            e = obs['errors'][0]
            # an answer that is no count at all (None) must end the session with an error; the property does not say which
            want = 'TransportExc' if calls[-1][1][0] == 'raise' else ('SessionCloseError' if calls[-1][1][1] is not None else None)
            if want is not None and e[0] != want:
                out.append(('wrong error value', want, e[0]))
            unsent = calls[-1][0]
            if not unsent:
                out.append(('refused write with nothing unsent', 'non-empty', ''))
            dec = strict_decode(base, wire + unsent)
            k = len(msgs) - len(obs['remaining'])
            if dec != mbs[:k] or [m for m in obs['remaining']] != msgs[k:]:
                out.append(('wire + unsent tail is not the frames of the dequeued messages / later messages touched',
                            [m.hex() for m in mbs[:k]], None if dec is None else [m.hex() for m in dec]))
            if obs['alive_after_error'] or obs['connected_after'] or obs['refused'] != 'TransportError':
                out.append(('session not failed after the error', 'thread exited, disconnected, later send refused',
                            [obs['alive_after_error'], obs['connected_after'], obs['refused']]))
    return out

def check_case(ctx, case, mo):
    obs = run_impl(case)
    probs = oracle(case, obs)
    mism = None
    if mo is not None:
        mw, ms = model_status(mo)
        if (mw, ms) != (obs['wire'], impl_status(obs)):
            mism = ((mw, ms), (obs['wire'], impl_status(obs)))
    return obs, probs, mism

def confirmed(ctx, case, mo):
    """Real threads: a failing case must fail three times before it is reported."""
    last = None
    for _ in range(3):
        obs, probs, mism = check_case(ctx, case, mo)
        last = (obs, probs, mism)
        if not probs and not mism: break
    return last

# ---------- generators ----------
POOL = ['<rpc message-id="1"><get/></rpc>', 'naïve garçon', '日本語<a/>', 'x\U0001F600y', 'a',
        '<a>\n#5\nhello\n##\n</a>', '<a>]]></a>', '<a>]]>]]</a>', 'ab', '0123456789' * 13, '<data>' + 'é' * 150 + '</data>',
        '\n', '#', '\n#1\nx\n##\n', '9' * 9, '1' * 10, 'q' * 99, 'q' * 100, 'q' * 101, ']', ']]', '<x a="1>"/>' ]
BAD_POOL = ['', '<a><!-- ]]>]]> --></a>', 'x]]>', ']]>]]>']

def gen_msgs(rng, allow_bad=False):
    k = rng.choice([1, 1, 2, 2, 3, 4])
    ms = [rng.choice(POOL) for _ in range(k)]
    if rng.random() < 0.15:
        ms.append(''.join(rng.choice('ab<>]\n#é€') for _ in range(rng.randint(1, 30))))
    if allow_bad:
        ms.insert(rng.randrange(len(ms) + 1), rng.choice(BAD_POOL))
    return ms

def gen_answers(rng, total_len, style):
    ans, left = [], total_len
    if style == 'one':
        return [('a', 1)] * min(total_len, 400)
    if style == 'all':
        return []
    while left > 0 and len(ans) < 400:
        r = rng.random()
        if r < 0.6: n = rng.randint(1, 7)
        elif r < 0.9: n = rng.randint(1, max(1, left))
        else: n = rng.randint(left, left + 50) if rng.random() < 0.5 else BIG
        ans.append(('a', n)); left -= n
    return ans

def py_frame_len(base, m):          # only to size scripts; not an oracle
    n = len(m.encode())
    return n + 6 if base == 0 else n + len(str(n)) + 7

def gen_case(rng, allow_bad=False):
    base = rng.choice([0, 1])
    msgs = gen_msgs(rng, allow_bad)
    total = sum(py_frame_len(base, m) for m in msgs)
    style = rng.choice(['one', 'all', 'rnd', 'rnd', 'rnd'])
    if style == 'one' and total > 300: style = 'rnd'
    ans = gen_answers(rng, total, style)
    readys = [rng.random() < 0.6 for _ in range(rng.choice([0, 0, 1, 2, 3]))]
    return dict(base=base, msgs=msgs, readys=readys, answers=ans)

def failure_cases(base, msgs, step):
    """refuse (0 / -1 / exception) at every write-call index of a run that accepts `step` octets per call."""
    total = sum(py_frame_len(base, m) for m in msgs)
    ncalls = sum(-(-py_frame_len(base, m) // step) for m in msgs)
    for i in range(ncalls):
        for bad in (('r', 0), ('r', -1), ('r', None), ('x',)):
            yield dict(base=base, msgs=msgs, readys=[], answers=[('a', step)] * i + [bad])

def compositions(n):
    if n == 0:
        yield []
        return
    for first in range(1, n + 1):
        for rest in compositions(n - first):
            yield [first] + rest

# ---------- concurrent submitters ----------
def run_concurrent(case, bound=3.0):
    from harness import fakesession_wire as fs
    from ncclient.transport.session import NetconfBase
    s = fs.make_session(capabilities=[])
    s._base = NetconfBase.BASE_11 if case['base'] == 1 else NetconfBase.BASE_10
    rec = fs.ErrRecorder.make(); s.add_listener(rec)
    s.t.answers.extend(to_script(case['answers']))
    s.t.readys.extend(bool(r) for r in case['readys'])
    progs = case['progs']
    total = sum(len(p) for p in progs)
    done = threading.Event(); state = {'frames': 0}
    def on_write(t):
        data, a = t.writes[-1]
        state.setdefault('puts_at_first_write', len(s._q.put_log))
        if a[1] is None or a[1] >= len(data):
            state['frames'] += 1
            if state['frames'] >= total: done.set()
    s.t.on_write = on_write
    barrier = threading.Barrier(len(progs) + 1)
    def submitter(p):
        barrier.wait(bound)
        for m in p:
            s.send(m)
            fs.PRIMS.sleep(case.get('pace', 0))
    import sys
    old_si = sys.getswitchinterval(); sys.setswitchinterval(1e-5)
    ths = [fs.PRIMS.Thread(target=submitter, args=(p,), daemon=True) for p in progs]
    for t in ths: t.start()
    s.start()
    barrier.wait(bound)
    for t in ths: t.join(bound)
    t0 = fs.PRIMS.monotonic()
    while not done.is_set() and not rec.errors and fs.PRIMS.monotonic() - t0 < bound:
        done.wait(0.002)
    sys.setswitchinterval(old_si)
    errs = [type(e).__name__ for e in rec.errors]
    completed = done.is_set()
    s.stop(bound)
    return dict(wire=bytes(s.t.wire).hex(), put_log=list(s._q.put_log), errors=errs, completed=completed,
                puts_after_first_write=total - state.get('puts_at_first_write', total))

def oracle_concurrent(case, obs):
    out = []
    base = case['base']
    if obs['errors'] or not obs['completed']:
        return [('concurrent submission did not complete', 'all frames written', [obs['errors'], obs['completed']])]
    dec = strict_decode(base, bytes.fromhex(obs['wire']))
    if dec is None:
        return [('wire is not a sequence of complete frames', 'decodable', None)]
    dec = [d.decode() for d in dec]
    allm = [m for p in case['progs'] for m in p]
    if collections.Counter(dec) != collections.Counter(allm):
        out.append(('decoded multiset differs from the submitted one', sorted(allm), sorted(dec)))
    for t, p in enumerate(case['progs']):
        mine = [m for m in dec if m.startswith('<t%d-' % t)]
        if mine != p:
            out.append(('messages of thread %d not in its own order' % t, p, mine))
    if dec != obs['put_log']:
        out.append(('wire order differs from put order', obs['put_log'], dec))
    return out

def gen_concurrent(rng):
    nt = rng.randint(2, 4)
    progs = [['<t%d-m%d>%s</t>' % (t, i, rng.choice(['', 'x', 'éè', 'pay' * rng.randint(1, 20)]))
              for i in range(rng.randint(1, 6))] for t in range(nt)]
    base = rng.choice([0, 1])
    total = sum(py_frame_len(base, m) for p in progs for m in p)
    ans = gen_answers(rng, total, rng.choice(['rnd', 'rnd', 'all']))
    readys = [rng.random() < 0.7 for _ in range(rng.choice([0, 2, 5]))]
    return dict(kind='concurrent', base=base, progs=progs, answers=ans, readys=readys, pace=rng.choice([0, 0.001, 0.003]))

def check_concurrent(ctx, case):
    last = None
    for _ in range(3):
        obs = run_concurrent(case)
        probs = oracle_concurrent(case, obs)
        mism = None
        if ctx.model is not None and obs['completed'] and not obs['errors']:
            c2 = dict(base=case['base'], msgs=obs['put_log'], readys=case['readys'], answers=case['answers'])
            mw, ms = model_status(ctx.model.call(model_call(c2)))
            if (mw, ms) != (obs['wire'], ['drained']):
                mism = ((mw, ms), (obs['wire'], ['drained']))
        last = (obs, probs, mism)
        if not probs and not mism: break
    return last

# ---------- decoder cross-check: Coq spec receivers vs the Python oracle receivers ----------
def decoder_streams(rng, wires):
    out = []
    for base, w in wires:
        out.append((base, w))
        if w:
            i = rng.randrange(len(w))
            out.append((base, w[:i]))                                    # truncated
            out.append((base, w[:i] + bytes([rng.choice(b'0#\n]>9a')]) + w[i + 1:]))   # one octet changed
            out.append((base, w[:i] + w[i + 1:]))                        # one octet dropped
    for lit in [b'\n#0\n\n##\n', b'\n#01\na\n##\n', b'\n##\n', b'\n#1\na\n#2\nbc\n##\n', b'\n#1\na\n##\n\n#1\nb\n##\n', b'\n#4294967296\n',
                b'\n#1\na', b'\n#1\na\n##', b'x\n#1\na\n##\n', b'\n# 1\na\n##\n', b'\n#+1\na\n##\n']:
        out.append((1, lit))
    for lit in [b']]>]]>', b'a]]>]]>b', b'a]]>]]>]]>]]>', b'a]]>', b'']:
        out.append((0, lit))
    return out

# ---------- plugin entry points ----------
def run_any(ctx, case, mo=None):
    if case.get('kind') == 'concurrent':
        return check_concurrent(ctx, case)
    if case.get('kind') == 'peer':
        from vlib import paths; paths.use_repo()
        obs, probs, mism = check_peer(ctx, case)
        return dict(obs, wire=obs['wire'][:60].hex() + ('...' if len(obs['wire']) > 60 else '')), probs, mism
    if mo is None and ctx.model is not None:
        mo = ctx.model.call(model_call(case))
    return confirmed(ctx, case, mo)

def report(ctx, case, obs, probs, mism):
    sg = sig_of(case['base'], case_msgs(case))
    if mism:
        ctx.disagree(case, mism[0], mism[1], 'Writer.worker vs Session.run on the same queue/readiness/answers',
                     theorem='C02_wire_prefix/C02_failure/C02_short_writes')
    for what, exp, act in probs:
        ctx.fail(case, what, sig=sg, expected=exp, actual=act)

def too_many(ctx, limit=12):
    """The run is already decided (violation / broken tie): do not spend the bound of every remaining case."""
    new = [f for f in ctx.failures if f.get('sig') is None]
    if len(new) + len(ctx.disagreements) >= limit:
        if not getattr(ctx, '_cut', False):
            ctx._cut = True
            ctx.note('stopped generating cases after %d failures/disagreements' % (len(new) + len(ctx.disagreements)))
        return True
    return False

def run(ctx):
    import os, json, glob
    from vlib import paths
    rng = ctx.rng
    quick = ctx.tier == 'quick'
    cases = []
    for p in sorted(glob.glob(os.path.join(paths.CORPUS, 'C02', '*.json'))):
        if not os.path.basename(p).startswith('wsched_'): cases.append(json.load(open(p))['case'])
    # (a) generated single-submitter cases (well-formed stream) + a separate stream with RFC-unencodable messages
    for _ in range(700 if quick else 6000): cases.append(gen_case(rng))
    for _ in range(60 if quick else 400): cases.append(gen_case(rng, allow_bad=True))
    # (b) refusal at every write index
    for base in (0, 1):
        for msgs, step in ((['ab', 'naïve'], 3), (['<rpc/>'], 1), (['日本', 'x', 'yz'], 4)):
            cases.extend(failure_cases(base, msgs, step))
    # (c) every accept pattern of short frames (thorough: all compositions; quick: those of one tiny frame)
    for base, m in ((0, 'a'), (1, 'a')) if quick else ((0, 'a'), (1, 'a'), (0, 'éb'), (1, 'éb'), (1, 'abc')):
        L = py_frame_len(base, m)
        for comp in compositions(L):
            cases.append(dict(base=base, msgs=[m], readys=[], answers=[('a', n) for n in comp]))
            if comp[-1] == 1 and len(comp) < 4:
                cases.append(dict(base=base, msgs=[m, m], readys=[False], answers=[('a', n) for n in comp[:-1]] + [('a', 5)]))
    single = [c for c in cases if c.get('kind') != 'concurrent']
    outs = ctx.model.batch([model_call(c) for c in single]) if ctx.model else [None] * len(single)
    wires = []
    for case, mo in zip(single, outs):
        if too_many(ctx): break
        obs, probs, mism = confirmed(ctx, case, mo)
        nontriv = any(case['msgs'])
        ctx.count({k: case[k] for k in ('base', 'msgs', 'readys', 'answers')}, nontrivial=nontriv)
        ctx.hist('base', '1.1' if case['base'] else '1.0'); ctx.hist('n_msgs', len(case['msgs']))
        ctx.hist('outcome', impl_status(obs)[0] + ('' if impl_status(obs)[0] != 'failed' else ':%s' % impl_status(obs)[1]))
        ctx.hist('write_calls', min(obs['ncalls'], 50) // 5 * 5)
        ctx.hist('non_ascii', any(len(m) != len(m.encode()) for m in case['msgs']))
        if ctx.evaluations % 211 == 1:
            ctx.sample({'case': {k: case[k] for k in ('base', 'msgs', 'readys')}, 'n_answers': len(case['answers']), 'impl': impl_status(obs), 'wire': obs['wire'][:80]})
        if len(wires) < 400 and obs['wire']: wires.append((case['base'], bytes.fromhex(obs['wire'])))
        report(ctx, case, obs, probs, mism)
    ctx.exhaustive = False
    ctx.extra['exhaustive_accept_patterns'] = 'all compositions of the frames of %s' % ('"a" (1.0, 1.1)' if quick else '"a", "\\u00e9b" (1.0, 1.1), "abc" (1.1)')
    # (d) real submitter threads
    nconc = 40 if quick else 400
    for _ in range(nconc):
        if too_many(ctx): break
        case = gen_concurrent(rng)
        obs, probs, mism = check_concurrent(ctx, case)
        ctx.count({k: case[k] for k in ('base', 'progs', 'readys', 'answers')}, nontrivial=True)
        ctx.traces += 1
        ctx.hist('submitter_threads', len(case['progs']))
        orders = obs['put_log']
        tags = [o.split('-')[0] for o in orders]
        ctx.hist('concurrent_interleaved', sum(1 for a, b in zip(tags, tags[1:]) if a != b) > len(case['progs']) - 1)
        ctx.hist('puts_while_writing', obs['puts_after_first_write'] > 0)
        report(ctx, case, obs, probs, mism)
    # (e) the Coq spec receivers and the Python oracle receivers are the same function on these streams
    if ctx.model:
        streams = decoder_streams(rng, wires)
        res = ctx.model.batch([[3 if b == 1 else 4, w] for b, w in streams])
        for (b, w), r in zip(streams, res):
            py = strict_decode(b, w)
            co = None if r == [] else list(r[0])
            ctx.hist('decoder_crosscheck', 'accept' if py is not None else 'reject')
            if py != co:
                ctx.disagree({'kind': 'decoder', 'base': b, 'wire': w.hex()}, None if co is None else [x.hex() for x in co],
                             None if py is None else [x.hex() for x in py], 'WireSpec.decode vs Python strict receiver', theorem='C02_decode11/C02_decode10')
        ctx.extra['decoder_crosscheck_streams'] = len(streams)
    # (g) Session.send callers racing Session.run under the deterministic scheduler: every effect trace validated against
    #     Model/WriterSched.v, strict receiver on the accepted octets vs the messages in put order
    if not too_many(ctx):
        from harness import wr_check
        sched_corpus = [json.load(open(p))['case'] for p in sorted(glob.glob(os.path.join(paths.CORPUS, 'C02', 'wsched_*.json')))]
        n_sched = wr_check.check(ctx, n_random=500 if quick else 8000, dfs_bound=2 if quick else 3, dfs_cap=220 if quick else 4000, corpus=sched_corpus)
        ctx.extra['scheduled_runs'] = n_sched
    # (f) the same property sentence behind the real transports
    if not too_many(ctx):
        peers_level(ctx)

# ---------- (f) outbound direction through the real transports (TLS on loopback, SSH against an in-process paramiko server, Unix) ----------
def gen_peer(rng, transport, force=False):
    base = rng.choice([0, 1])
    msgs = gen_msgs(rng)
    delay = 0
    if force or rng.random() < 0.5:          # one message far larger than a socket buffer / an SSH packet, the server starts reading late
        unit = rng.choice(['é€x', '<v>0123456789</v>', '\U0001F600', 'q'])
        msgs.insert(rng.randrange(len(msgs) + 1), '<data>%s</data>' % (unit * (rng.randint(40000, 400000) // len(unit.encode()))))
        delay = rng.choice([0, 20, 50])
    case = dict(kind='peer', transport=transport, base=base, msgs=msgs, reader_delay_ms=delay)
    if base == 0 and rng.random() < 0.5:
        # the server offers base:1.1, the application withdrew it from the client capabilities before connect: the hellos
        # negotiate 1.0 and every frame must be an end-of-message frame
        case['client_drop11'] = True
    if transport == 'ssh' and (force or rng.random() < 0.6):
        # a peer that grants a small window and small packets: Channel.send accepts less than it is given, at offsets
        # that are no multiple of any buffer size of the client
        case['ssh_window'] = [rng.choice([4096, 5000, 9000, 20000]), rng.choice([4096, 4096, 4200, 6000]) if not force else 4096]
    return case

STALL_SIZES = {'unix': (600000, 1400000, 2, 3), 'tls': (2600000, 3400000, 3, 3), 'ssh': (200000, 500000, 2, 2)}   # octets per large message (min, max), how many (min, max)

def gen_peer_stalled(rng, transport):
    """A peer that stops reading for longer than the timeout the session's socket carries, while more is queued than the
    transport buffers hold (Unix socket ~200 kB, loopback TCP ~3-4 MB, an SSH window 2 MB): 2-3 large messages, in half of the
    cases after one or two small ones (so the refusal comes after a short write), submitted 0-200 ms apart."""
    base = rng.choice([0, 1])
    lo, hi, kmin, kmax = STALL_SIZES[transport]
    msgs = gen_msgs(rng)[:rng.choice([0, 1, 2])]
    for i in range(rng.randint(kmin, kmax)):
        unit = rng.choice(['é€x', '<v>0123456789</v>', '\U0001F600', 'q', '中%d-' % i])
        big = ['rep', '<rpc message-id="%d"><d>' % (100 + i), unit, rng.randint(lo, hi) // len(unit.encode()), '</d></rpc>']
        msgs.insert(rng.randrange(len(msgs) + 1) if rng.random() < 0.5 else len(msgs), big)
    if transport == 'ssh':          # paramiko's Channel.send has no timeout: it waits for the window, nothing may be lost
        tmo, stall = 10000, 400
    else:
        tmo = rng.choice([300, 400, 500] if transport == 'unix' else [400, 500])
        stall = int(tmo * 2.5)
    return dict(kind='peer', transport=transport, base=base, msgs=msgs, timeout_ms=tmo, stall_ms=stall, gap_ms=rng.choice([0, 0, 50, 200]))

def progress(l, n):
    """a _transport_write(data) call made progress iff it RETURNED an integer count in 1..len(data)"""
    return isinstance(n, int) and not isinstance(n, bool) and 0 < n <= l

def oracle_peer(case, obs):
    if case.get('stall_ms'):
        return oracle_peer_stalled(case, obs)
    out = []
    base, mbs = case['base'], [m.encode() for m in case_msgs(case)]
    if obs['open_error']:
        return [('the session could not be opened against the scripted server', None, obs['open_error'])]
    ch = strict_decode10(obs['client_hello'])
    if ch is None or len(ch) != 1 or b'hello' not in ch[0] or obs['client_hello'].startswith(b'\n#'):
        out.append(('the client <hello> is not exactly one end-of-message frame', 'one RFC 4742 frame holding <hello>', obs['client_hello'][:120].hex()))
    if obs['errors_before_close']:
        out.append(('session failed although the transport accepted every write', [], obs['errors_before_close']))
    dec = strict_decode(base, obs['wire'])
    if dec != mbs:
        out.append(('strict RFC %s receiver behind the real transport does not get the submitted messages' % ('6242' if base else '4742'),
                    [m.hex()[:200] for m in mbs], None if dec is None else [m.hex()[:200] for m in dec]))
    w = obs.get('writes', [])
    if any(not progress(l, n) for _, l, n in w):
        out.append(('a write call that raised / returned no count in 1..len(data) was treated as progress', 'counts in 1..len',
                    [(l, repr(n)) for _, l, n in w if not progress(l, n)][:5]))
    for (_, l1, n1), (_, l2, _) in zip(w, w[1:]):
        if progress(l1, n1) and n1 < l1 and l2 != l1 - n1:
            out.append(('write call does not resubmit the unsent tail', l1 - n1, l2)); break
    if sum(n for _, l, n in w if progress(l, n)) != len(obs['wire']):
        out.append(('octets accepted by the transport != octets received by the peer', sum(n for _, l, n in w if progress(l, n)), len(obs['wire'])))
    if obs.get('queue_left'):
        out.append(('queue not drained within the bound', 0, obs['queue_left']))
    if obs['worker_alive_after_close']:
        out.append(('session thread alive after close()', False, True))
    return out

def oracle_peer_stalled(case, obs):
    """The property sentence behind a peer that stopped reading: whatever arrived is a prefix of the frames in submission
    order; what was handed to the session and did not arrive completely was answered with an error (and the end of the
    session), never with silence."""
    out = []
    base = case['base']
    if obs['open_error']:
        return [('the session could not be opened against the scripted server', None, obs['open_error'])]
    mbs = [m.encode() for m in case_msgs(case)][:obs['accepted']]            # the messages send() took
    wire = obs['wire']
    ch = strict_decode10(obs['client_hello'])
    if ch is None or len(ch) != 1 or b'hello' not in ch[0] or obs['client_hello'].startswith(b'\n#'):
        out.append(('the client <hello> is not exactly one end-of-message frame', 'one RFC 4742 frame holding <hello>', obs['client_hello'][:120].hex()))
    errs = obs['errors_before_close']
    got, rest = strict_prefix(base, wire)
    k = len(got)
    shape = dict(complete_frames=k, octets_after_them=len(rest), octets_received=len(wire), reading_ended=obs.get('read_end'))
    nxt = rfc_frame(base, mbs[k]) if k < len(mbs) else b''
    if got != mbs[:k] or not nxt.startswith(rest) or (rest and len(rest) >= len(nxt)):
        out.append(('the octets the peer received are not a prefix of the frames of the submitted messages in order (strict RFC %s receiver)' % ('6242' if base else '4742'),
                    dict(messages=len(mbs), sizes=[len(m) for m in mbs]), dict(shape, first_octets_after=rest[:40].hex(), sizes=[len(m) for m in got])))
    delivered = k == len(mbs) and not rest
    w = obs.get('writes', [])
    refusals = [i for i, (_, l, n) in enumerate(w) if not progress(l, n)]
    summary = dict(shape, errors=errs, submitted=len(mbs), connected=obs.get('connected_end'), session_thread_alive=obs.get('alive_end'),
                   write_calls=[(l, n if isinstance(n, (int, str)) else repr(n)) for _, l, n in w][-6:])
    if not delivered and not errs:
        out.append(('the transport could accept no more bytes and a message was truncated / dropped without any error (silent loss)',
                    'all %d frames at the peer, or an error at the listeners' % len(mbs), summary))
    if refusals and not errs:
        out.append(('a write call that raised / returned no count in 1..len(data) was not answered with an error', 'error', summary))
    if refusals and refusals[0] != len(w) - 1:
        out.append(('writes continued after the transport refused', 'the refused call is the last one', summary))
    if errs:
        if not refusals:
            out.append(('session failed although the transport accepted every write', [], summary))
        if obs.get('connected_end') or obs.get('alive_end') or obs.get('later_send') != 'TransportError':
            out.append(('session not failed after the error', 'thread exited, disconnected, later send refused',
                        [obs.get('alive_end'), obs.get('connected_end'), obs.get('later_send')]))
    else:
        if obs.get('queue_left'):
            out.append(('queue not drained within the bound', 0, obs['queue_left']))
    for (_, l1, n1), (_, l2, _) in zip(w, w[1:]):
        if progress(l1, n1) and n1 < l1 and l2 != l1 - n1:
            out.append(('write call does not resubmit the unsent tail', l1 - n1, l2)); break
    acc = sum(n for _, l, n in w if progress(l, n))
    slack = w[refusals[0]][1] if refusals else 0        # a call that raised may have handed part of its data to the transport (TLS records)
    if not (acc <= len(wire) <= acc + slack) and not (errs and len(wire) <= acc):
        out.append(('octets received by the peer do not match the counts the transport returned', [acc, acc + slack], len(wire)))
    if obs['worker_alive_after_close']:
        out.append(('session thread alive after close()', False, True))
    return out

def check_peer(ctx, case):
    from harness import c01_peers as q
    from harness import fakesession_wire as fs
    fs.uninstall()                  # the real transports need the real selectors / TICK in ncclient.transport.session
    c = dict(case, base=11 if case['base'] == 1 else 10, msgs=case_msgs(case))
    last = None
    for _ in range(4):              # wall-clock rig: report only what fails every time
        def done(wire, base=case['base'], n=len(case['msgs'])):
            d = strict_decode(base, wire)
            return d is not None and len(d) >= n
        if case.get('stall_ms'):
            obs = q.run_outbound_stalled(c, sum(len(rfc_frame(case['base'], m.encode())) for m in c['msgs']))
        else:
            obs = q.run_outbound(c, done)
        probs = oracle_peer(case, obs)
        last = (obs, probs, None)
        if not probs: break
    return last

def peers_level(ctx):
    from harness import c01_peers as q
    rng, quick = ctx.rng, ctx.tier == 'quick'
    res0 = q.resources()
    per = {'tls': 5, 'ssh': 5, 'unix': 2} if quick else {'tls': 60, 'ssh': 60, 'unix': 20}
    n = 0
    for transport in ('tls', 'ssh', 'unix'):
        for k in range(per[transport]):
            if too_many(ctx): break
            case = gen_peer(rng, transport, force=(k < 2))        # the first two of each transport: a large message, and on SSH a small window
            if k == 1: case['base'] = 0; case['client_drop11'] = True      # ... the second one on a session the application pinned to base:1.0
            obs, probs, _ = check_peer(ctx, case)
            n += 1
            ctx.count({k: case.get(k) for k in ('kind', 'transport', 'base', 'msgs', 'reader_delay_ms', 'ssh_window', 'client_drop11')}, nontrivial=True)
            ctx.hist('peer_transport', '%s/%s' % (transport, '1.1' if case['base'] else '1.0'))
            w = obs.get('writes', [])
            ctx.hist('peer_short_writes', 'none' if not any(x < l for _, l, x in w) else ('1-9' if sum(1 for _, l, x in w if x < l) < 10 else '10+'))
            ctx.hist('peer_wire_octets', '<1k' if len(obs['wire']) < 1000 else ('<64k' if len(obs['wire']) < 65536 else '>=64k'))
            if not probs: ctx.traces += 1
            report(ctx, case, dict(obs, wire=''), probs, None)
    # peers that stop reading for longer than the socket timeout while more than the transport buffers is queued
    per = {'unix': 3, 'tls': 2, 'ssh': 1} if quick else {'unix': 14, 'tls': 8, 'ssh': 4}
    for transport in ('unix', 'tls', 'ssh'):
        for k in range(per[transport]):
            if too_many(ctx): break
            case = gen_peer_stalled(rng, transport)
            obs, probs, _ = check_peer(ctx, case)
            n += 1
            ctx.count(case, nontrivial=True)
            ctx.hist('peer_transport', '%s/%s' % (transport, '1.1' if case['base'] else '1.0'))
            w = obs.get('writes', [])
            refused = any(not progress(l, x) for _, l, x in w)
            ctx.hist('peer_stalled', '%s: %s' % (transport, 'open failed' if obs.get('open_error') else
                     ('write refused (%s), error reported, prefix at the peer' % ','.join(sorted(set(str(x) for _, l, x in w if not progress(l, x)))) if refused and obs['errors_before_close']
                      else ('everything delivered' if not refused else 'refused write, no error'))))
            if not probs: ctx.traces += 1
            report(ctx, case, dict(obs, wire=''), probs, None)
    dfd, extra = q.settle_resources(res0)
    ctx.extra['peer_cases'] = n
    ctx.extra['peer_fd_delta_after_all_cases'] = dfd
    ctx.extra['peer_threads_left_after_all_cases'] = extra
    if dfd > 0 or extra:
        ctx.note('peer level left %d file descriptors / threads %r behind' % (dfd, extra))


def search(ctx, seeds):
    rng = ctx.rng
    if any(c.get('kind') == 'wsched' for c in seeds):
        from harness import wr_check
        f = wr_check.search(ctx, seeds)
        if f: return f
    tries = [c for c in seeds if c.get('kind') not in ('decoder', 'peer', 'wsched')]
    for _ in range(1500): tries.append(gen_case(rng))
    for base in (0, 1): tries.extend(failure_cases(base, ['ab', 'naïve'], 3))
    for _ in range(30): tries.append(gen_concurrent(rng))
    for case in tries:
        if case.get('kind') == 'concurrent':
            obs, probs, _ = check_concurrent(ctx, case)
        else:
            obs, probs, _ = confirmed(ctx, case, None)
        if probs:
            msgs = case.get('msgs') or [m for p in case.get('progs', []) for m in p]
            what, exp, act = probs[0]
            return dict(case=case, what=what, sig=sig_of(case['base'], msgs), expected=exp, actual=act)
    return None

class _NoModel:
    model = None

def reproduce(finding):
    case = finding['witness']
    obs, probs, _ = run_any(_NoModel, case)
    return bool(probs) and sig_of(case['base'], case_msgs(case)) == finding.get('sig')

def replay(doc):
    case = doc['case']
    if case.get('kind') == 'wsched':
        from harness import wr_check
        return wr_check.replay(doc)
    if case.get('kind') == 'decoder':
        print('decoder cross-check case', case); return False
    obs, probs, _ = run_any(_NoModel, case)
    print('case     :', {k: (v if k != 'msgs' else [m if len(m) < 80 else m[:60] + '...(%d chars)' % len(m) for m in v]) for k, v in case.items() if k != 'answers'},
          'answers:', case.get('answers', [])[:12])
    if probs:
        for what, exp, act in probs:
            print('FAILS    :', what); print('expected :', exp); print('actual   :', act)
    else:
        print('holds    : wire', obs['wire'][:120])
    return not probs
