"""C01 - inbound framing is independent of stream segmentation and (1.1) chunking.
Code: ncclient/transport/parser.py DefaultXMLParser.parse/_parse10/_parse11, session.py Session.run, the three
_transport_read primitives.  Model: coq/Model/Framing10.v, Framing11.v, Utf8.v; reference automata and encoders:
coq/Spec/RefFraming.v; the Junos use_filter driver coq/Model/JunosParse.v (+ JunosSax.v) with coq/Proofs/HandoverProofs.v;
theorems: coq/Props/C01.v; runner protocol: coq/Glue/FramingGlue.v, coq/Glue/C01_glue.v (function 20).
Harness: tools/harness/framing.py (ParserRig, oracle10/oracle11, generators, SessionRig); tools/harness/c01_dispatch.py (real
session object without transport, default and Junos use_filter profiles, XML document generator); tools/harness/c01_peers.py
(scripted servers behind the real TLS / SSH / Unix transports, recording session subclasses)."""
import os, json, glob, itertools

ID = 'C01'
COQ_ROOTS = ['Props/C01.v', 'GenProps/Framing_consts.v', 'GenProps/Writer_consts.v']
RULE = ('Parser level: (message list, chunking (1.1), segmentation) triples, both framing versions. Messages: XML-ish ASCII, '
        '2/3/4-byte characters inside and at both ends (incl. U+00A0/U+3000/U+2028), blank-after-strip, multi-read (5-12 kB), '
        'ending in a proper prefix of the 1.0 delimiter, lone ]]> (1.0) / the full ]]>]]> (1.1) inside, chunk-header and '
        'end-of-chunks look-alikes as payload (1.1), a special FIRST character (kind first: U+FEFF byte order mark with / without an XML '
        'declaration after it, doubled, alone; zero-width / format characters, non-characters, U+FFFD, line feeds) - the first-character '
        'lists are sent under BOTH framings (1.1 chunk boundaries at every offset inside the first character) and the two deliveries '
        'compared with the octets sent and with each other (1.0 = str.strip of 1.1). Chunkings: single, all size-1, uniform k, random, adversarial (a boundary '
        'inside every multi-byte character and every delimiter look-alike). Segmentations: whole, all size-1, fixed 4096, '
        'random cut sets, adversarial (every offset within 7 octets of each delimiter/header and inside every multi-byte '
        'character; all at once and random subsets), ALL single cuts and ALL double cuts of short streams. Each case is run '
        'on the real DefaultXMLParser (ParserRig) and on the extracted model segment by segment (events, buffer, scan '
        'position / pending chunk octets), on the reference automaton (streams <= 3000 octets), and judged by the property '
        'oracle: delivered == sent (1.0: stripped), once, in order, each during the segment that carries the last octet of '
        'its terminator (not earlier, not later), no exception. Session level: the real UnixSocketSession worker thread over a '
        'socketpair, oracle only (messages incl. replies whose root start tag - a hundred xmlns:* attributes, long non-ASCII attribute '
        'values - or whose prolog - XML declaration, a long comment, white space - ends beyond 4096 / 8192 / 16384 / 32768 characters). '
        'Dispatch level (harness/c01_dispatch.py; quick ~3 300 runs, thorough ~60 000): the message path transport read -> Session.run -> '
        'session.parser.parse -> _dispatch_message (parse_root) -> listeners of a REAL, never connected SSHSession whose parser was '
        'installed as SSHSession.connect does (device_handler.get_xml_parser), the real run loop executed synchronously on prepared '
        'reads; profiles: default and Junos with use_filter=True (streaming JunosXMLParser: every message that is not a reply to a '
        'request with filter takes the SAX -> DOM hand-over, the octets after its terminator go to a new streaming parser) x both '
        'framings. Messages are well-formed XML documents: notifications, replies to outstanding requests without filter (Get, '
        'GetConfig, ExecuteRpc, Command; with and without nc: prefix), other roots (default profile only), with XML declaration / '
        'comments / processing instruction / white space before the root, comment / white space after it, white space between the '
        'terminator and the next message, 2/3/4-byte characters in text, attribute values and comments; the END of the root start '
        'tag is placed at chosen character offsets: small, exactly / +-1 / +-2 / around 4096, 8192, 16384, 32768, 65536 and far '
        'beyond (by xmlns:* declarations, one long attribute, both, a long comment, or white space before the root). Segmentations: '
        'ALL single cuts + all size-1 reads of short streams (thorough: also double cuts), whole, fixed 4096, random, adversarial, '
        'size 1, around the end of every root start tag and every multiple of 4096. Oracle: the registered listener gets exactly the '
        'sent texts (1.0: stripped), once, in order, each during the read carrying the last octet of its terminator; the (tag, '
        'attributes) handed over with it equal the root an independent reader (xml.etree/expat) finds in the sent text; every request '
        'holds exactly its reply text; the notification queue holds the notifications; no errback. The Junos 1.0 runs of streams '
        '<= 3000 octets are also compared read by read (parser kind, held-back octets, head, buffer, messages dispatched, octets given '
        'to expat) with the extracted driver model JunosParse.run (runner function 20 = the C18 driver; theorems C01_handover_*). '
        'Peer level (all three transports; quick 20+26+12 connections, thorough 300+400+80; on SSH also connections opened with '
        'device_params {name: junos, use_filter: True}: notifications back to back, pieces ending just after a terminator): a scripted server '
        'behind the REAL transport - TLSSession.connect to an ssl server on 127.0.0.1 (own CA), SSHSession.connect(sock=) to an '
        'in-process paramiko server over a socketpair, UnixSocketSession over a socketpair - real hello exchange (server hello '
        'advertising base:1.1 for 1.1 cases), then the stream of 1-5 XML messages (tiny, ASCII, 2/3/4-byte characters, white space '
        'around the document element, chunk-header/delimiter look-alikes, multi-read up to 40 kB; 1.1: single/size-1/uniform/random/'
        'adversarial chunkings) is written in generated pieces (whole, random, size 1, 4096, > 4096 = several reads per TLS record / '
        'SSH packet, adversarial around delimiters and inside characters, around every terminator) with a pause, nothing, or a wait '
        'until the client has read everything after each piece; before the last octet of about half of the terminators the server '
        'waits until everything written was read, then 30 ms, and notes how many messages the listener has. The session class is '
        'subclassed to record the octets of every _transport_read (histograms peer_read_octets_*), the parser state at the entry of '
        'the next read and the read during which each message was dispatched. Oracle: listener got exactly the sent texts (1.0: '
        'stripped), once, in order, with the right root; nothing delivered at a hold; every written octet read within 2 s (no stall); '
        'octets read == octets written; each dispatch during the read that carried the last octet of its terminator; no errback; '
        'thread gone after close(). The recorded reads are then fed to the extracted model (feed10/feed11): same deliveries read '
        'by read and same parser state (1.0 streams above ~8 kB only within a time budget: the extracted 1.0 model is cubic). A '
        'failing peer case is re-executed 3 times and reported only if it fails every time. Also: constant/shape tie read from the source files with ast, and the model of '
        'str.strip / strict UTF-8 validity against CPython. A case is (base, segment list); distinct = distinct (base, '
        'segments); non-trivial = at least one message and (>= 2 segments or a message in >= 2 chunks).')
ASSUMES = ['CPython bytes.find/partition/strip, str.strip, bytes.decode("utf-8") and re.match/fullmatch on the two literal patterns '
           'behave as modelled in Model/Utf8.v, Framing10.v, Framing11.v; validated by every case and by the strip/validity micro-suite',
           'the transport delivers the octets in order (select, kernel / paramiko / OpenSSL) - exercised, not proved, by the peer level; '
           'a read returns at most BUF_SIZE octets on SSH/Unix and at most one TLS record (16384) on TLS since the repair of F24 - '
           'the theorems hold for every segment size',
           'which read boundaries TLS/SSH produce cannot be forced from outside: the peer level records the boundaries that occurred '
           '(evidence: peer_read_octets_*), the theorems and the parser level cover all of them',
           'listeners are reached through Session._dispatch_message: that every correctly framed well-formed message reaches them is checked '
           'by the session, dispatch and peer levels (root start tags / prologs of any length); what it does with a malformed text is C14/C03',
           'Junos use_filter sessions: expat and the SAX handler of one reply are an arbitrary machine in the C01_handover theorems (hypotheses: '
           'its root, once set, stays set; a new parser has none; the message signals the switch before root and output; dispatch reinstalls '
           'the streaming parser) - the instance run against the code is Model/JunosSax.v with real expat as the oracle of SAX events per octet; '
           'replies to requests WITH a filter are C18 (the listener gets the projection, not the text)',
           'after the <hello> a server sends well-formed <rpc-reply> and <notification> documents; a Junos session (perform_qualify_check False) '
           'treats any other document element as a reply']
TRUSTED = ['modelled, not verified: CPython bytes/str/re built-ins used by parser.py',
           'tools/harness/framing.py: ParserRig stands in for Session (same attributes the parser touches: _buffer, _message_list, _base, parser, _dispatch_message)',
           'tools/harness/c01_peers.py (scripted TLS/SSH/Unix servers, recording subclasses wrapping _transport_read/_dispatch_message/_transport_write), '
           'tools/harness/c12_peers.py (openssl-CLI certificates, paramiko host key); OpenSSL, paramiko 5.0.0 and the loopback stack are the peers, not verified',
           'tools/harness/c01_dispatch.py: SSHSession subclass handing prepared reads out of _transport_read (always-readable pipe in the real selector, '
           'real Session.run in the calling thread), deterministic message-ids (uuid4 of ncclient.operations.rpc rebound while requests are issued), '
           'xml.etree/expat as the independent reader of roots; harness/saxseg.py (world_for, compare) and props/c18.py (env_val, events_val) for the driver model',
           'peer-level timing: "not delivered before the terminator" is asserted after the client has read every written octet plus 30 ms; '
           'stall = a written octet unread after 2 s; deliveries awaited up to 5 s']
ALLOWED_AXIOMS = []

RE_DELIM = b'\\n(?:#([0-9]+)|(##))\\n'
RE_PREFIX = b'\\n(?:#(?:[0-9]+|#)?)?'
# tls.py after the repair of F24: one recv(BUF_SIZE), then whatever OpenSSL still holds of the record it has decrypted
# (select() does not see those octets); a read is then a whole TLS record, at most 16384 octets (the theorems hold for every size)
TLS_READ = ('data = self._socket.recv(BUF_SIZE)\n'
            'while data and self._socket.pending() > 0:\n'
            '    data += self._socket.recv(BUF_SIZE)\n'
            'return data')
REF_MAX = 3000          # reference automaton is quadratic in the extracted model: only streams up to this size


def F():
    from harness import framing
    return framing


# ---------------------------------------------------------------- 1. constants / shapes
def constants(ctx):
    f = F()
    from vlib import paths
    sc = f.source_constants(paths.REPO)
    mc = ctx.model.call([9]) if ctx.model else [f.DELIM10, 6, f.END11]
    delim, dlen, end = mc
    items = [
        ('parser.MSG_DELIM', sc['parser.MSG_DELIM'], delim.decode('ascii')),
        ('parser.MSG_DELIM == RFC 4742 ]]>]]>', sc['parser.MSG_DELIM'], ']]>]]>'),
        ('parser.MSG_DELIM_LEN is len(MSG_DELIM)', sc['parser.MSG_DELIM_LEN_expr'],
         "Call(func=Name(id='len', ctx=Load()), args=[Name(id='MSG_DELIM', ctx=Load())], keywords=[])"),
        ('len(parser.MSG_DELIM)', len(sc['parser.MSG_DELIM']) if isinstance(sc['parser.MSG_DELIM'], str) else None, dlen),
        ('model DELIM10_LEN', dlen, 6),
        ('parser.END_DELIM', sc['parser.END_DELIM'], end.decode('ascii')),
        ('parser.END_DELIM == RFC 6242 LF##LF', sc['parser.END_DELIM'], '\n##\n'),
        ('parser.RE_NC11_DELIM', sc['parser.RE_NC11_DELIM'], RE_DELIM),
        ('parser.RE_NC11_DELIM_PREFIX', sc['parser.RE_NC11_DELIM_PREFIX'], RE_PREFIX),
        ('session.MSG_DELIM', sc['session.MSG_DELIM'], delim),
        ('session.END_DELIM', sc['session.END_DELIM'], end),
    ]
    for fn, attr in (('ssh.py', 'self._channel'), ('tls.py', 'self._socket'), ('unixSocket.py', 'self._socket')):
        items.append((fn + ' BUF_SIZE', sc[fn + '.BUF_SIZE'], 4096))
        items.append((fn + ' _transport_read body', sc.get(fn + '._transport_read'), TLS_READ if fn == 'tls.py' else 'return %s.recv(BUF_SIZE)' % attr))
        items.append((fn + ' overrides run', sc.get(fn + '.overrides_run'), False))
        items.append((fn + ' bases', sc.get(fn + '.bases'), ["Name(id='Session', ctx=Load())"]))
    for name, actual, expected in items:
        case = {'const': name}
        ctx.count(case, nontrivial=True)
        ctx.hist('level', 'constant')
        if actual != expected:
            ctx.disagree(case, expected, actual, 'source constant / shape differs from the model: ' + name, theorem='C01_transports / model constants')


# ---------------------------------------------------------------- 2. strip / validity micro-suite
INVALID = [b'\xc0\x80', b'\xc1\xbf', b'\xe0\x80\x80', b'\xe0\x9f\xbf', b'\xed\xa0\x80', b'\xed\xbf\xbf', b'\xf0\x80\x80\x80', b'\xf0\x8f\xbf\xbf',
           b'\xf4\x90\x80\x80', b'\xf5\x80\x80\x80', b'\xf8\x88\x80\x80\x80', b'\xff', b'\xfe', b'\xc3', b'\xe2\x82', b'\xf0\x9f\x98', b'\x80', b'\xbf',
           b'a\x80', b'\xc3\x28', b'\xe2\x28\xa1', b'\xe2\x82\x28', b'\xf0\x28\x8c\xbc', b'\xf0\x90\x28\xbc', b'\xf0\x28\x8c\x28', b'\xc3\xa9\xc3', b'ab\xe2\x82']
NEIGHBOURS = ['\u200b', '\u0084', '\u00a1', '\u180e', '\ufeff', '\u0086', '\u009f', '\u167f', '\u1681', '\u1fff', '\u200c', '\u2027', '\u202a',
              '\u202e', '\u2030', '\u205e', '\u2060', '\u2fff', '\u3001', '\x1b', '\x20', '\x21', '\x08', '\x0e', '\x7f', '\x80']

def micro(ctx):
    rng = ctx.rng
    ws = [c for c in map(chr, range(0x110000)) if c.isspace()]
    if ctx.model:
        menc = ctx.model.call([8])
        case = {'micro': 'ws_encodings'}
        ctx.count(case)
        pe = [c.encode('utf-8') for c in ws]
        if sorted(menc) != sorted(pe):
            ctx.disagree(case, sorted(menc), sorted(pe), 'white-space code points of the model differ from str.isspace of CPython', theorem='Utf8.strip')
    strs = set()
    others = [c for c in NEIGHBOURS if not c.isspace()] + ['a', '<', '\u00e9', '\u20ac', '\U0001F600', '\U0010FFFF', '\u0800', '\uffff', '\U00010000', '\x00']
    for w in ws:
        for o in ('a', '\u00e9', '\U0001F600', ''):
            strs.update([w + o, o + w, w + o + w, o + w + o, w + w + o + w])
    for o in others:
        strs.update([o, ' ' + o + '\u00a0', o + '\u00a0' + o, ' ' + o + '\u3000', o + '\n'])
    pool = ws + others
    for _ in range(600 if ctx.tier == 'quick' else 6000):
        strs.add(''.join(rng.choice(pool) for _ in range(rng.randint(0, 7))))
    strs = sorted(strs)
    blobs = [s.encode('utf-8') for s in strs] + INVALID
    alpha = [0x41, 0x80, 0x9f, 0xa0, 0xbf, 0xc0, 0xc2, 0xe0, 0xed, 0xf0, 0xf4, 0xf5]
    for n in range(1, 5):
        for t in itertools.product(alpha, repeat=n):
            blobs.append(bytes(t))
    for b in INVALID:
        blobs.extend([b'<a>' + b + b'</a>', b + b'x', b' ' + b])
    if not ctx.model:
        ctx.note('model runner missing: strip/validity micro-suite skipped')
        return
    outs = ctx.model.batch([[5, b] for b in blobs])
    for b, mo in zip(blobs, outs):
        try:
            py = [1, b.decode('utf-8').strip().encode('utf-8')]
        except UnicodeDecodeError:
            py = [0, None]
        case = {'micro': b.hex()}
        ctx.count(case, nontrivial=len(b) > 0)
        ctx.hist('level', 'micro_strip_valid')
        ctx.hist('micro_valid', py[0])
        bad = (not isinstance(mo, list)) or mo[0] != py[0] or (py[0] == 1 and mo[1] != py[1])
        if bad:
            ctx.disagree(case, mo, py, 'model utf8_valid/strip differs from CPython decode("utf-8")/str.strip', theorem='Utf8 (valid, strip)')
    # the decoder _parse11 uses for a complete message (parser.textify, when the module has it) against Utf8.decode_strict:
    # the text has exactly the octets decoded (C01_decode_keeps_bom: nothing is dropped in front), invalid octets raise
    from ncclient.transport import parser as P
    tx = getattr(P, 'textify', None)
    if callable(tx):
        firsts = [c.encode('utf-8') for c in F().FIRSTS_ZW + F().FIRSTS_LF]
        more = [a + b for a in firsts for b in (b'', b'<a/>', b'\xef\xbb\xbf', b'<?xml version="1.0"?><a/>')]
        for b, mo in list(zip(blobs, outs)) + [(b, [1, None]) for b in more]:
            try:
                t = tx(b); got = [1, t.encode('utf-8', 'surrogatepass') if isinstance(t, str) else bytes(t)]
            except UnicodeDecodeError:
                got = [0, None]
            want = [1, b] if isinstance(mo, list) and mo[0] == 1 else [0, None]
            case = {'micro_decode': b.hex()}
            ctx.count(case, nontrivial=len(b) > 0)
            ctx.hist('level', 'micro_decode')
            if got != want:
                ctx.disagree(case, want, got, 'parser.textify differs from Utf8.decode_strict (the decoded text has exactly the octets decoded)',
                             theorem='C01_decode_keeps_bom')


# ---------------------------------------------------------------- 3. parser level
class Jobs:
    """Collects (stream, cut sets) jobs, evaluates model calls in batches, the implementation case by case."""
    def __init__(self, ctx, flush_at=4000):
        self.ctx, self.jobs, self.n, self.flush_at = ctx, [], 0, flush_at

    def add(self, base, cutsets, msgs=None, kinds=(), chunked=None, chunk_kind='-', stream=None, origin='gen'):
        f = F()
        job = dict(base=base, msgs=msgs, kinds=list(kinds), chunked=chunked, chunk_kind=chunk_kind, cutsets=cutsets, origin=origin)
        if stream is None:
            if base == 10:
                stream = f.encode10([m.encode('utf-8') for m in msgs])
            else:
                stream = f.encode11(chunked)
        job['stream'] = stream
        self.jobs.append(job); self.n += len(cutsets)
        if self.n >= self.flush_at:
            self.flush()

    def flush(self):
        ctx, f = self.ctx, F()
        jobs, self.jobs, self.n = self.jobs, [], 0
        calls, idx = [], []
        if ctx.model:
            for j, job in enumerate(jobs):
                base, stream = job['base'], job['stream']
                if job['msgs'] is not None:
                    idx.append((j, 'enc', None))
                    calls.append([6, [m.encode('utf-8') for m in job['msgs']]] if base == 10 else [7, job['chunked']])
                if len(stream) <= REF_MAX:
                    idx.append((j, 'ref', None)); calls.append([3 if base == 10 else 4, stream])
                for k, (sk, cuts) in enumerate(job['cutsets']):
                    idx.append((j, 'feed', k)); calls.append([1 if base == 10 else 2, f.segment(stream, cuts)])
            outs = ctx.model.batch(calls)
            for (j, what, k), o in zip(idx, outs):
                jobs[j].setdefault('m_' + what, {})[k] = o
        for job in jobs:
            self.evaluate(job)

    def evaluate(self, job):
        ctx, f = self.ctx, F()
        base, stream, msgs = job['base'], job['stream'], job['msgs']
        sent = None
        if msgs is not None:
            if base == 10:
                sent = [('msg', m.strip().encode('utf-8'), e) for m, e in zip(msgs, f.ends10([m.encode('utf-8') for m in msgs]))]
            else:
                sent = [('msg', m.encode('utf-8'), e) for m, e in zip(msgs, f.ends11(job['chunked']))]
            orc = f.oracle(base, stream)
            if orc != sent:                     # the two independent statements must agree on generated (valid) streams
                raise AssertionError('harness: oracle%d %r != sent %r on %s' % (base, orc[:3], sent[:3], stream[:200].hex()))
            if 'm_enc' in job and job['m_enc'][None] != stream:
                c = {'base': base, 'msgs': msgs, 'chunks': [[c.hex() for c in cs] for cs in (job['chunked'] or [])]}
                ctx.disagree(c, job['m_enc'][None], stream, 'model encoder differs from the independent RFC encoder', theorem='C01_roundtrip%d' % base)
        ref = job.get('m_ref', {}).get(None)
        multi_chunk = bool(job['chunked']) and any(len(cs) >= 2 for cs in job['chunked'])
        for k, (sk, cuts) in enumerate(job['cutsets']):
            segs = f.segment(stream, cuts)
            case = {'base': base, 'segs': [s.hex() for s in segs]}
            recs = f.run_parser(base, segs)
            ctx.count(case, nontrivial=bool(sent or (msgs is None and stream)) and (len(segs) >= 2 or multi_chunk))
            ctx.hist('level', 'parser'); ctx.hist('base', base); ctx.hist('segmentation', sk); ctx.hist('chunking', job['chunk_kind'])
            ctx.hist('n_segments', len(segs) if len(segs) < 4 else ('4-9' if len(segs) < 10 else ('10-99' if len(segs) < 100 else '100+')))
            ctx.hist('n_messages', len(msgs) if msgs is not None else 'corpus')
            ctx.hist('stream_octets', '<64' if len(stream) < 64 else ('<512' if len(stream) < 512 else ('<4096' if len(stream) < 4096 else '>=4096')))
            for kd in job['kinds']: ctx.hist('message_kind', kd)
            if ctx.evaluations % 1499 == 7 and len(stream) < 200:
                ctx.sample({'case': case, 'msgs': msgs, 'impl_events': [[i, e] for i, e in f.flat_events(recs)]})
            mo = job.get('m_feed', {}).get(k)
            if mo is not None:
                ok, why = f.records_equal(mo, recs)
                if not ok:
                    ctx.disagree(case, mo, recs, 'model feed%d vs DefaultXMLParser.parse: %s' % (base, why), theorem='C01_sim%d' % base)
            if ref is not None:
                imp = [e for _, e in f.flat_events(recs)]
                if not isinstance(ref, list) or ref[0] != imp:
                    ctx.disagree(case, ref, imp, 'reference automaton ref%d on the concatenated stream vs events of DefaultXMLParser' % base, theorem='C01_sim%d' % base)
            ok, what, sig, exp, act = f.judge(base, segs, recs, oevents=sent)
            if not ok:
                ctx.fail(dict(case, msgs=msgs), 'base 1.%d, %d segments: %s' % (base - 10, len(segs), what), sig=None, expected=exp, actual=act)


def short_stream_job(rng, base, maxlen, minlen=12):
    f = F()
    while True:
        msgs, kinds = f.gen_messages(rng, base, short=True)
        msgs, kinds = msgs[:3], kinds[:3]
        if base == 11:
            chunked = [f.gen_chunking(rng, m.encode('utf-8'), rng.choice(['single', 'random', 'adversarial', 'uniform'])) for m in msgs]
            stream = f.encode11(chunked)
        else:
            chunked, stream = None, f.encode10([m.encode('utf-8') for m in msgs])
        if minlen <= len(stream) <= maxlen and any(k != 'blank' for k in kinds):
            return msgs, kinds, chunked, stream


def first_chars(ctx, J):
    """Messages whose FIRST character is one a decoder or a reader might treat specially - U+FEFF (byte order mark) alone, in
    front of a document, in front of an XML declaration, doubled; zero-width / format characters; non-characters; line feeds -
    under BOTH framings: the same message list is sent as a 1.0 stream and as a 1.1 stream (chunk boundaries at every offset
    of the first character's octets, inside and just after them), every single cut, all size-1 reads and (short streams) every
    double cut; the property oracle and the model judge each run as usual, and the two deliveries of the same message are
    compared with each other and with the octets sent: 1.0 delivery == str.strip of the 1.1 delivery, 1.1 delivery == sent."""
    f, rng, quick = F(), ctx.rng, ctx.tier == 'quick'
    e = '\u00e9'
    fixed = [f.BOM + '<a/>', f.BOM + '<?xml version="1.0"?><a>%s</a>' % e, f.BOM, f.BOM + f.BOM + '<a/>', '\n<a/>', '\u200b<a/>',
             '\uffff<a/>', '\n' + f.BOM + '<a/>', f.BOM + '\n<a/>\n']
    pool = [c + '<a/>' for c in f.FIRSTS_ZW + f.FIRSTS_LF] + f.TINY_FIRST
    extra = rng.sample(pool, 6 if quick else len(pool)) + [f.gen_message(rng, 11, 'first', 1) for _ in range(4 if quick else 60)]
    n = 0
    for j, m in enumerate(fixed + extra):
        if f.DELIM10.decode() in m: continue
        for msgs in ([m], ['<z/>', m, m]):
            if msgs[0] != m and j % 3: continue
            mb = [x.encode('utf-8') for x in msgs]
            k = len(m[0].encode('utf-8'))                    # octets of the first character
            chunkings = [[[b] for b in mb]]
            for c in range(1, min(k + 2, len(mb[-1]))):      # a chunk boundary inside / right after the first character
                chunkings.append([[b] for b in mb[:-1]] + [[mb[-1][:c], mb[-1][c:]]])
            if k >= 3 and len(mb[-1]) > 3:
                chunkings.append([[b] for b in mb[:-1]] + [[mb[-1][:1], mb[-1][1:2], mb[-1][2:3], mb[-1][3:]]])
            streams = [(10, None, f.encode10(mb))] + [(11, ch, f.encode11(ch)) for ch in chunkings]
            delivered = {}
            for base, ch, stream in streams:
                cs = [('whole', []), ('size1', list(range(1, len(stream))))]
                if j < len(fixed) or not quick: cs += [('single_all', c) for c in f.all_single_cuts(len(stream))]
                else: cs += [('adversarial_all', f.gen_cuts(rng, base, stream, 'adversarial_all'))]
                if len(stream) <= (24 if quick else 40) and ch in (None, chunkings[-1]):
                    cs += [('double_all', c) for c in f.all_double_cuts(len(stream))]
                J.add(base, cs, msgs=msgs, kinds=['first'] * len(msgs), chunked=ch, chunk_kind='first_char' if ch else '-')
                # the deliveries of the two framings against each other (whole stream and a cut inside the first character)
                for cuts in ([], [stream.find(mb[-1][:k]) + 1] if k > 1 else []):
                    recs = f.run_parser(base, f.segment(stream, cuts))
                    delivered.setdefault(base, []).append([ev[1] for _, ev in f.flat_events(recs) if ev[0] == 0])
            n += 1
            case = {'level': 'both_framings', 'msgs': msgs}
            ctx.count(case, nontrivial=True); ctx.hist('level', 'parser_both_framings'); ctx.hist('first_character', 'U+%04X' % ord(m[0]))
            want11 = mb
            want10 = [x.decode('utf-8').strip().encode('utf-8') for x in mb]
            for base, want in ((10, want10), (11, want11)):
                for got in delivered[base]:
                    if got != want:
                        ctx.fail(dict(case, base=base, segs=[(f.encode10(mb) if base == 10 else f.encode11(chunkings[0])).hex()]),
                                 'base 1.%d delivers %r for the messages %r (octets sent %r); the same messages under base 1.%d are delivered as %r' % (
                                     base - 10, got, msgs, mb, 21 - base - 10, delivered[21 - base][0]), sig=None,
                                 expected=[[0, [0, w]] for w in want], actual=[[0, [0, g]] for g in got])
                        break
    ctx.extra['first_character_message_lists'] = n


def parser_level(ctx):
    f, rng, quick = F(), ctx.rng, ctx.tier == 'quick'
    J = Jobs(ctx)
    # corpus first
    from vlib import paths
    ncorp = 0
    for p in sorted(glob.glob(os.path.join(paths.CORPUS, ID, '*.json'))):
        d = json.load(open(p))
        segs = [bytes.fromhex(h) for h in d['segs']]
        cuts = list(itertools.accumulate(len(s) for s in segs))[:-1]
        J.add(d['base'], [('corpus', cuts)], stream=b''.join(segs), origin='corpus'); ncorp += 1
    J.flush()
    ctx.extra['corpus_cases'] = ncorp
    # fixed witnesses of the repaired defects (F1, F2) and the non-vacuity examples
    e = '\u00e9'
    J.add(10, [('single_all', c) for c in f.all_single_cuts(len(('<a>%s</a>' % e).encode()) + 6)], msgs=['<a>%s</a>' % e], kinds=['tiny'])
    J.add(11, [('whole', [])], msgs=['<a>%s</a>' % e], kinds=['tiny'], chunked=[[b'<a>\xc3', b'\xa9</a>']], chunk_kind='adversarial')
    first_chars(ctx, J)
    # ALL single cuts of short streams; ALL double cuts of shorter ones
    n_single = 24 if quick else 100
    n_double = 3 if quick else 100
    singles = doubles = 0
    for base in (10, 11):
        for i in range(n_single):
            msgs, kinds, chunked, stream = short_stream_job(rng, base, 60 if base == 10 else 72)
            cs = [('single_all', c) for c in f.all_single_cuts(len(stream))]
            if i < 6: cs += [('size1', list(range(1, len(stream)))), ('whole', [])]
            J.add(base, cs, msgs=msgs, kinds=kinds, chunked=chunked, chunk_kind='mixed' if base == 11 else '-')
            singles += 1
        for i in range(n_double):
            msgs, kinds, chunked, stream = short_stream_job(rng, base, 34 if quick else 60, minlen=10 if quick else 28)
            J.add(base, [('double_all', c) for c in f.all_double_cuts(len(stream))], msgs=msgs, kinds=kinds, chunked=chunked,
                  chunk_kind='mixed' if base == 11 else '-')
            doubles += 1
    ctx.extra['single_cut_streams'] = singles
    ctx.extra['double_cut_streams'] = doubles
    # random structured sweep: every segmentation kind of each (messages, chunking)
    n_jobs = 330 if quick else 3400
    for i in range(n_jobs):
        base = 10 if i % 2 == 0 else 11
        msgs, kinds = f.gen_messages(rng, base)
        chunked, ck = None, '-'
        if base == 11:
            ck = rng.choice(f.CHUNKINGS)
            chunked = [f.gen_chunking(rng, m.encode('utf-8'), ck) for m in msgs]
        stream = f.encode10([m.encode('utf-8') for m in msgs]) if base == 10 else f.encode11(chunked)
        cs, seen = [], set()
        for sk in f.SEGMENTATIONS:
            cuts = f.gen_cuts(rng, base, stream, sk)
            if tuple(cuts) in seen: continue
            seen.add(tuple(cuts)); cs.append((sk, cuts))
        J.add(base, cs, msgs=msgs, kinds=kinds, chunked=chunked, chunk_kind=ck)
    # multi-read messages (> 4096 octets)
    lr = (4400, 6500) if quick else (5000, 12000)
    for i in range(4 if quick else 24):
        base = 10 if i % 2 == 0 else 11
        msgs = [f.gen_message(rng, base, 'long', 1, long_range=lr)]
        kinds = ['long']
        if rng.random() < 0.7:
            msgs.append(f.gen_message(rng, base, 'mb', 2)); kinds.append('mb')
        if rng.random() < 0.3:
            msgs.insert(0, f.gen_message(rng, base, 'tiny', 0)); kinds.insert(0, 'tiny')
        chunked, ck = None, '-'
        if base == 11:
            ck = rng.choice(['single', 'uniform', 'random', 'adversarial'])
            chunked = [f.gen_chunking(rng, m.encode('utf-8'), ck) for m in msgs]
        stream = f.encode10([m.encode('utf-8') for m in msgs]) if base == 10 else f.encode11(chunked)
        cs = [(sk, f.gen_cuts(rng, base, stream, sk)) for sk in ('whole', 'fixed4096', 'random', 'adversarial_some')]
        # a read boundary inside the final delimiter and inside a character next to the 4096 boundary
        cs.append(('fixed4096+delim', sorted(set(f.gen_cuts(rng, base, stream, 'fixed4096') + [len(stream) - 3, len(stream) - 1]))))
        J.add(base, cs, msgs=msgs, kinds=kinds, chunked=chunked, chunk_kind=ck)
    J.flush()


# ---------------------------------------------------------------- 4. session level
def session_case(rng, base):
    f = F()
    n = rng.choice([1, 2, 3, 5])
    msgs = [f.gen_xml_message(rng, base, i + 1) for i in range(n)]
    if base == 11:
        chunked = [f.gen_chunking(rng, m.encode('utf-8'), rng.choice(f.CHUNKINGS)) for m in msgs]
        stream = f.encode11(chunked)
    else:
        stream = f.encode10([m.encode('utf-8') for m in msgs])
    sk = rng.choice(['whole', 'random', 'adversarial_some', 'fixed4096', 'size1' if len(stream) < 300 else 'random', 'adversarial_all'])
    cuts = f.gen_cuts(rng, base, stream, sk)
    if len(cuts) > 120: cuts = sorted(rng.sample(cuts, 120))
    segs = f.segment(stream, cuts)
    settle = rng.random() < 0.7
    expected = [m.strip() if base == 10 else m for m in msgs]
    return {'level': 'session', 'base': base, 'segs': [s.hex() for s in segs], 'settle': settle, 'expected': expected}, sk


def session_judge(case):
    f = F()
    raws, errs, alive = f.run_session_case(case['base'], [bytes.fromhex(h) for h in case['segs']], len(case['expected']), settle=case.get('settle', True))
    actual = {'callbacks': raws, 'errors_before_close': errs, 'worker_alive_after_close': alive}
    if raws != case['expected']:
        return False, 'listener received %d messages, %d were sent (first difference at %s)' % (
            len(raws), len(case['expected']), next((i for i, (a, b) in enumerate(zip(raws, case['expected'])) if a != b), min(len(raws), len(case['expected'])))), actual
    if errs:
        return False, 'errback %r on a valid stream' % errs, actual
    if alive:
        return False, 'worker thread still alive after close()', actual
    return True, '', actual


def burst_case(base, n=2500):
    """A burst of very small messages already waiting when the session thread reads: however many complete messages one
    transport read brings (at most the transport's read size), all are delivered, in order."""
    f = F()
    msgs = ['<m i="%d"/>' % i for i in range(n)]
    stream = f.encode10([m.encode() for m in msgs]) if base == 10 else f.encode11([[m.encode()] for m in msgs])
    return {'level': 'session', 'base': base, 'segs': [stream.hex()], 'settle': True, 'expected': msgs}, 'burst'


MAX_FAILURES = 6
def enough_failures(ctx, level):
    """wall-clock levels wait seconds for every message that never arrives: once the property is shown false on several
    cases the remaining ones of the level are not run (the first failure is the one reported)"""
    if len([x for x in ctx.failures if x.get('sig') is None]) >= MAX_FAILURES:
        ctx.note('%s: stopped early, %d failing cases already recorded' % (level, len(ctx.failures)))
        return True
    return False


def session_level(ctx):
    rng = ctx.rng
    n = 100 if ctx.tier == 'quick' else 600
    for i in range(n + 2):
        if enough_failures(ctx, 'session level'): break
        case, sk = session_case(rng, 10 if i % 2 == 0 else 11) if i < n else burst_case(10 if i % 2 == 0 else 11)
        ok, what, actual = session_judge(case)
        tries = 1
        while not ok and tries < 3:              # wall-clock rig: report only what fails every time
            ok2, what2, actual2 = session_judge(case); tries += 1
            if ok2: ok = True; ctx.note('session-level case failed once and passed on re-execution: ' + what)
        ctx.count({'level': 'session', 'base': case['base'], 'segs': case['segs']}, nontrivial=True)
        ctx.hist('level', 'session'); ctx.hist('session_base', case['base']); ctx.hist('session_segmentation', sk)
        if ok:
            ctx.traces += 1
        else:
            ctx.fail(case, 'session level (UnixSocketSession over socketpair), base 1.%d: %s' % (case['base'] - 10, what), sig=None,
                     expected={'callbacks': case['expected'], 'errors_before_close': [], 'worker_alive_after_close': False}, actual=actual)


# ---------------------------------------------------------------- 4b. dispatch level (real session object, no transport)
def D():
    from harness import c01_dispatch
    return c01_dispatch


def dispatch_witnesses():
    """fixed cases run first: (a) back-to-back messages on a Junos use_filter session, the octets after a terminator are the
    beginning of the next message (two reads, every kind of cut is covered by the generated cases); (b) a reply whose root
    start tag ends beyond character 4096 (RFC 6241 4.2: the attributes of the <rpc> are echoed) between two small ones."""
    d, f, out = D(), F(), []
    import random
    rng = random.Random(20240501)
    for profile in d.PROFILES:
        for base in (10, 11):
            a = d.make_doc(rng, base, 'note', 0, body_len=12, lead=f.BOM)           # (c) a byte order mark is the first character,
            b = d.make_doc(rng, base, 'reply', 0, prolog='decl+nl', start_end=4300, how='xmlns', epilog='\n', lead=f.BOM)   # also before an XML declaration
            c = d.make_doc(rng, base, 'note', 2, prolog='comment', start_end=5000, how='prolog_comment')
            e = d.make_doc(rng, base, 'reply', 1, body_len=5)
            msgs, kinds = [a, b, c, e], ['note', 'reply', 'note', 'reply']
            stream, ends, expected, cks = d.encode(rng, base, msgs, 'uniform')
            for sk, cuts in (('whole', []), ('uniform613', list(range(613, len(stream), 613))), ('after_term', [x + 9 for x in ends[:-1]]),
                             ('in_first_char', [1, 2] if base == 10 else [stream.find(b'\xef\xbb\xbf') + 1, stream.find(b'\xef\xbb\xbf') + 2])):
                out.append((profile, base, msgs, kinds, 2, stream, expected, [(sk, cuts)], dict(size='witness', start_end='witness')))
    return out


def dispatch_level(ctx):
    """C01's message / chunking / segmentation families through the message path of a real session object (see
    harness/c01_dispatch.py), for the default profile and for a Junos use_filter session (streaming parser, SAX -> DOM
    hand-over), both framings; the Junos 1.0 runs of short streams also against the extracted driver model read by read."""
    import time
    d, f, rng, quick = D(), F(), ctx.rng, ctx.tier == 'quick'
    t_start = time.time()
    jobs = dispatch_witnesses()
    combos = [('junos_sax', 10), ('default', 10), ('default', 11), ('junos_sax', 11)]
    # ALL single cuts (and all size-1 reads) of short streams
    n_all = {('junos_sax', 10): 5 if quick else 60, ('default', 10): 2 if quick else 20, ('default', 11): 2 if quick else 20,
             ('junos_sax', 11): 1 if quick else 10}
    for (profile, base), n in n_all.items():
        for i in range(n):
            while True:
                msgs, kinds, nreq, tags = d.gen_docs(rng, base, profile, 'tiny')
                stream, ends, expected, cks = d.encode(rng, base, msgs, rng.choice(['single', 'random', 'adversarial']) if base == 11 else None)
                if len(stream) <= (420 if quick else 600): break
            cs = [('single_all', c) for c in f.all_single_cuts(len(stream))] + [('size1', list(range(1, len(stream)))), ('whole', [])]
            if not quick and i % 4 == 0:                 # double cuts: all of them up to ~2000 per stream, else every k-th
                dc = f.all_double_cuts(len(stream))
                cs += [('double', c) for c in dc[::max(1, len(dc) // 2000)]]
            jobs.append((profile, base, msgs, kinds, nreq, stream, expected, cs, tags))
    # structured sweep: every segmentation kind of each (messages, chunking); the end of a root start tag at and beyond
    # the sizes a reader might cut a document at
    n_jobs = 100 if quick else 1400
    for i in range(n_jobs):
        profile, base = combos[i % 4]
        size = ['small', 'edge', 'small', 'far', 'edge'][i % 5]
        msgs, kinds, nreq, tags = d.gen_docs(rng, base, profile, size)
        stream, ends, expected, cks = d.encode(rng, base, msgs)
        cs, seen = [], set()
        for sk in ('whole', 'fixed4096', 'random', 'adversarial_some', 'size1', 'special') + (('adversarial_all',) if len(stream) < 3000 else ()):
            cuts = d.special_cuts(rng, base, stream, msgs, ends) if sk == 'special' else f.gen_cuts(rng, base, stream, sk)
            if sk == 'special' and len(cuts) > 12: cuts = sorted(rng.sample(cuts, 12))
            if tuple(cuts) in seen: continue
            seen.add(tuple(cuts)); cs.append((sk, cuts))
        jobs.append((profile, base, msgs, kinds, nreq, stream, expected, cs, dict(tags, chunkings=cks)))
    S = c18 = None
    if ctx.model:
        from harness import saxseg as S
        from props import c18
    n_model = n_runs = 0
    for profile, base, msgs, kinds, nreq, stream, expected, cs, tags in jobs:
        tie = ctx.model is not None and profile == 'junos_sax' and base == 10 and len(stream) <= REF_MAX
        mres = None
        if tie:
            world = S.world_for(stream, [d.msg_id(k) for k in range(nreq)], [None] * nreq, c18.env_val, c18.events_val)
            mres = ctx.model.call([20, world, stream, [S.lens_of(stream, c) for _, c in cs]])
        se = max((d.start_tag_end(m) or 0) for m in msgs)
        for k, (sk, cuts) in enumerate(cs):
            segs = f.segment(stream, cuts)
            obs = d.run_case(profile, base, segs, nreq, observe=tie)
            case = {'level': 'dispatch', 'profile': profile, 'base': base, 'segs': [x.hex() for x in segs], 'n_requests': nreq,
                    'expected': expected, 'kinds': kinds}
            n_runs += 1
            ctx.count(case, nontrivial=True, key=[profile, base, case['segs'], kinds])
            ctx.hist('level', 'dispatch_' + profile); ctx.hist('dispatch_base', '%s/1.%d' % (profile, base - 10))
            ctx.hist('dispatch_segmentation', sk); ctx.hist('dispatch_n_messages', len(msgs)); ctx.hist('dispatch_size_class', tags['size'])
            for kd in kinds: ctx.hist('dispatch_message_kind', kd)
            for ck in tags.get('chunkings', []): ctx.hist('dispatch_chunking', ck)
            ctx.hist('dispatch_root_start_tag_ends_at_char', '<256' if se < 256 else '<4096' if se < 4096 else '4096' if se == 4096 else
                     '<8192' if se < 8192 else '<16384' if se < 16384 else '<32768' if se < 32768 else '<65536' if se < 65536 else '>=65536')
            ctx.hist('dispatch_stream_octets', '<512' if len(stream) < 512 else '<4096' if len(stream) < 4096 else '<16384' if len(stream) < 16384 else '>=16384')
            ok, what, exp, act = d.judge(base, segs, expected, kinds, obs)
            if ok:
                ctx.traces += 1
            else:
                ctx.fail(case, 'dispatch level (%s session, parser installed as SSHSession.connect does, real Session.run and _dispatch_message), '
                         'base 1.%d, %d read(s): %s' % ('Junos use_filter' if profile == 'junos_sax' else 'default-profile', base - 10, len(segs), what),
                         sig=None, expected=_short(exp), actual=_short(act))
            if mres is not None:
                n_model += 1
                ctx.hist('level', 'dispatch_junos_model')
                badm = S.compare(mres[k], obs['log'])
                ctx.hist('dispatch_junos_model', 'outside the model (expat rejects)' if any(r[0] == 3 for r in mres[k][0]) else 'compared')
                if badm:
                    ctx.disagree(case, repr(badm[1])[:600], repr(badm[2])[:600], 'JunosParse.run (extracted, instance JunosSax) vs the Junos use_filter '
                                 'session read by read: ' + badm[0], theorem='C01_handover_delivery / C01_handover_next')
    ctx.extra['dispatch_cases'] = n_runs
    ctx.extra['dispatch_cases_against_driver_model'] = n_model
    ctx.extra['dispatch_wall_s'] = round(time.time() - t_start, 1)


def _short(d):
    def sh(x):
        if isinstance(x, (bytes, str)) and len(x) > 160: return x[:100] + type(x)(b'...' if isinstance(x, bytes) else '...') + x[-40:] + (b' (%d)' % len(x) if isinstance(x, bytes) else ' (%d)' % len(x))
        if isinstance(x, (list, tuple)): return [sh(y) for y in x]
        if isinstance(x, dict): return {k: sh(v) for k, v in x.items()}
        return x
    return sh(d)


def dispatch_replay(c):
    ok, what, exp, act, obs = D().execute(c)
    n = sum(len(h) for h in c['segs']) // 2
    print('case     : dispatch level, %s profile, base 1.%d, %d octets in %d read(s), %d outstanding request(s), messages %s' % (
        c['profile'], c['base'] - 10, n, len(c['segs']), c.get('n_requests', 0), c['kinds']))
    print('expected :', _short(exp))
    print('actual   :', _short(act))
    if not ok: print('FAILS    :', what)
    return ok


# ---------------------------------------------------------------- 5. real TLS / SSH / Unix peers
def Q():
    from harness import c01_peers
    return c01_peers


PEER_WITNESSES = [       # fixed cases run first on every transport: F24 (a piece longer than BUF_SIZE, one TLS record), a hold in both versions
    dict(base=10, msgs=['<rpc-reply message-id="1"><data>%s</data></rpc-reply>' % ('x\u00e9' * 2100), '<ok/>'], chunks=None, cut='whole', actions='s'),
    dict(base=11, msgs=['<a>\u00e9\U0001F600</a>', '<rpc-reply message-id="2"><data>%s</data></rpc-reply>' % ('\u20acy' * 1800)],
         chunks=[[b'<a>\xc3', b'\xa9\xf0\x9f', b'\x98\x80</a>'], None], cut='holds', actions=None),
    # 1.1 text is delivered intact, white space around the document element included; 1.0 modulo str.strip
    dict(base=11, msgs=['\n<rpc-reply message-id="1"><ok/></rpc-reply> \n', ' <b>y\u00a0</b>\n\n'], chunks=[[b'\n', b'<rpc-reply message-id="1"><ok/></rpc-reply>', b' \n'], None],
         cut='holds', actions=None),
    dict(base=10, msgs=['\n<rpc-reply message-id="1"><ok/></rpc-reply> \n', ' <b>y\u00a0</b>\n\n'], chunks=None, cut='holds', actions=None),
    # a reply that echoes a hundred xmlns:* attributes of its <rpc> (RFC 6241 4.2): the root's start tag ends beyond character
    # 4096 (beyond octet 4096 + 220); a long comment before the root of a notification; small messages around them
    dict(base=10, msgs=['<ok/>', '<rpc-reply message-id="2" %s><data><p005:v>ok-\u00e4</p005:v></data></rpc-reply>' % ' '.join(
             'xmlns:p%03d="urn:example:module:%03d" a%03d="\u00f6\u2603"' % (i, i, i) for i in range(110)), '<r>3</r>',
             '<?xml version="1.0" encoding="UTF-8"?>\n<!--%s-->\n<notification xmlns="urn:ietf:params:xml:ns:netconf:notification:1.0"><eventTime>2024-01-01T00:00:00Z</eventTime></notification>' % ('\u00e9 c ' * 2100),
             '<a>\u00e9</a>'], chunks=None, cut='holds', actions=None),
    dict(base=11, msgs=['<ok/>', '<rpc-reply message-id="2" %s><data><p005:v>ok-\u00e4</p005:v></data></rpc-reply>' % ' '.join(
             'xmlns:p%03d="urn:example:module:%03d" a%03d="\u00f6\u2603"' % (i, i, i) for i in range(110)), '<r>3</r>'],
         chunks=[None, None, None], cut='whole', actions='s'),
    # the FIRST character of a message is U+FEFF (byte order mark; in front of an XML declaration, in front of the document element) or a
    # line feed: text intact under both framings; 1.1: chunk boundaries inside the three octets EF BB BF
    dict(base=11, msgs=['\ufeff<?xml version="1.0" encoding="UTF-8"?>\n<rpc-reply message-id="1"><data>\ufeff\u00e9</data></rpc-reply>', '\ufeff<ok/>', '\n<r>3</r>'],
         chunks=[[b'\xef', b'\xbb', b'\xbf<?xml version="1.0" encoding="UTF-8"?>\n<rpc-reply message-id="1"><data>\xef\xbb', b'\xbf\xc3\xa9</data></rpc-reply>'],
                 [b'\xef\xbb', b'\xbf<ok/>'], None], cut='holds', actions=None),
    dict(base=10, msgs=['\ufeff<?xml version="1.0" encoding="UTF-8"?>\n<rpc-reply message-id="1"><data>\ufeff\u00e9</data></rpc-reply>', '\ufeff<ok/>', '\n<r>3</r>'],
         chunks=None, cut='holds', actions=None),
]
JUNOS_SAX = {'name': 'junos', 'use_filter': True}

def peer_witness_case(w, kind):
    f = F()
    base = w['base']
    mb = [m.encode('utf-8') for m in w['msgs']]
    if base == 11:
        chunked = [c if c is not None else [b] for c, b in zip(w['chunks'], mb)]
        stream, ends = f.encode11(chunked), f.ends11(chunked)
    else:
        stream, ends = f.encode10(mb), f.ends10(mb)
    if w['cut'] == 'whole':
        pieces, actions = [stream], w['actions']
    elif w['cut'] == 'after':
        pieces = f.segment(stream, sorted(set([e - 1 for e in ends] + [e + 9 for e in ends[:-1]])))
        actions = ''.join('h' if i % 2 == 0 else 's' for i in range(len(pieces)))
    else:
        pieces = f.segment(stream, sorted(set([e - 1 for e in ends] + [e for e in ends[:-1]])))
        actions = ''.join('h' if i % 2 == 0 else 's' for i in range(len(pieces)))
    case = {'level': 'peer', 'transport': kind, 'base': base, 'pieces': [p.hex() for p in pieces], 'actions': actions, 'pause_ms': 1,
            'expected': [m.strip() if base == 10 else m for m in w['msgs']], 'n_expected': len(mb)}
    if w.get('device_params'): case['device_params'] = dict(w['device_params'])
    return case


def junos_peer_msg(rng, base, i, size, big):
    """messages of a Junos use_filter connection: notifications (no request is outstanding: each takes the SAX -> DOM
    hand-over), prolog / root start tag / body of any length"""
    d = D()
    se = None
    if big and size == 'multi': se = rng.choice([4097, 4300, 8193, 9000, 16500])
    elif size != 'tiny' and rng.random() < 0.3: se = rng.randint(150, 3000)
    return d.make_doc(rng, base, 'note', i, prolog=rng.choice(['', '', 'decl', 'decl+nl', 'ws', 'pi']), start_end=se,
                      how=rng.choice(['xmlns', 'attr', 'mixed', 'prolog_ws']), epilog=rng.choice(['', '\n', ' \n']),
                      body_len=rng.choice([0, 3, 30, 30, 400]) if not (big and size == 'multi' and se is None) else rng.randint(4200, 12000),
                      lead=rng.choice(['', '', '\n']))


def junos_peer_witness(base):
    """three notifications back to back, written so that every transport read that carries a terminator also carries the
    beginning of the next message (pieces end 9 octets after each terminator and one octet before it)"""
    d = D()
    import random
    rng = random.Random(7)
    msgs = [d.make_doc(rng, base, 'note', i, body_len=20, prolog=['', 'decl+nl', 'ws'][i]) for i in range(3)]
    return dict(base=base, msgs=msgs, chunks=[None] * 3, cut='after', actions=None, device_params=JUNOS_SAX)


def peer_exec(case, tries=3):
    """run + judge; a failing case is re-executed `tries` times and reported only if it fails every time"""
    q = Q()
    obs = q.run_inbound(case)
    ok, what, exp, act = q.judge_inbound(case, obs)
    flaky = None
    if not ok:
        for _ in range(tries):
            obs2 = q.run_inbound(case)
            ok2, what2, exp2, act2 = q.judge_inbound(case, obs2)
            if ok2:
                flaky = what; ok, obs, exp, act, what = True, obs2, exp2, act2, ''
                break
    return ok, what, exp, act, obs, flaky


def peers_level(ctx):
    import time
    q, f, rng, quick = Q(), F(), ctx.rng, ctx.tier == 'quick'
    res0 = q.resources()
    t_start = time.time()
    plan = []                                   # (case, tags)
    kinds = ('tls', 'ssh', 'unix')
    for kind in kinds:
        for w in PEER_WITNESSES:
            plan.append((peer_witness_case(w, kind), dict(size='witness', piece_kind=w['cut'], mode='witness', holds=0)))
    # the vendor parser is installed by SSHSession.connect only: a Junos use_filter connection (streaming parser, hand-over)
    for base in (10, 11):
        plan.append((peer_witness_case(junos_peer_witness(base), 'ssh'), dict(size='witness', piece_kind='after', mode='witness', holds=0, profile='junos_sax')))
    per = {'tls': 14, 'ssh': 14, 'unix': 6} if quick else {'tls': 300, 'ssh': 300, 'unix': 80}
    for kind in kinds:
        for i in range(per[kind]):
            size = ['tiny', 'small', 'multi', 'small', 'multi', None][i % 6]
            plan.append(q.gen_inbound_case(rng, kind, 10 if i % 2 == 0 else 11, size))
    for i in range(4 if quick else 100):
        case, tags = q.gen_inbound_case(rng, 'ssh', 10 if i % 4 != 3 else 11, ['small', 'multi', 'tiny', 'small'][i % 4], msg_gen=junos_peer_msg)
        case['device_params'] = dict(JUNOS_SAX)
        plan.append((case, dict(tags, profile='junos_sax')))
    done = []
    for case, tags in plan:
        if enough_failures(ctx, 'peer level'): break
        ok, what, exp, act, obs, flaky = peer_exec(case)
        kind, base = case['transport'], case['base']
        if flaky:
            ctx.note('peer-level case (%s, 1.%d) failed once and passed on re-execution: %s' % (kind, base - 10, flaky))
        ctx.count({'level': 'peer', 'transport': kind, 'base': base, 'pieces': case['pieces'], 'actions': case['actions']}, nontrivial=True)
        ctx.hist('level', 'peer_' + kind); ctx.hist('peer_base', '%s/1.%d' % (kind, base - 10))
        ctx.hist('peer_piece_kind', tags['piece_kind']); ctx.hist('peer_write_mode', tags['mode']); ctx.hist('peer_size_class', tags['size'])
        ctx.hist('peer_holds_per_case', len(obs['holds']))
        for ck in tags.get('chunkings', []): ctx.hist('peer_chunking', ck)
        for r in obs['reads']: ctx.hist('peer_read_octets_' + kind, q.size_bucket(len(r)))
        ctx.hist('peer_reads_per_case', len(obs['reads']) if len(obs['reads']) < 4 else ('4-9' if len(obs['reads']) < 10 else ('10-99' if len(obs['reads']) < 100 else '100+')))
        n = sum(len(p) for p in case['pieces']) // 2
        ctx.hist('peer_stream_octets', '<64' if n < 64 else ('<512' if n < 512 else ('<4096' if n < 4096 else '>=4096')))
        ctx.hist('peer_profile', tags.get('profile', 'default'))
        if ok:
            ctx.traces += 1
            if not case.get('device_params'):       # Framing10/11 model the default parser; the Junos driver is compared at the dispatch level
                done.append((case, obs))
        else:
            ctx.fail(case, 'peer level (%s session%s against a scripted server behind the real transport), base 1.%d: %s' % (
                     {'tls': 'TLSSession', 'ssh': 'SSHSession', 'unix': 'UnixSocketSession'}[kind],
                     ' opened with device_params %r' % (case['device_params'],) if case.get('device_params') else '', base - 10, what),
                     sig=None, expected=_short(exp), actual=_short(act))
    # the reads the session really made, fed to the extracted model: same deliveries read by read, same parser state
    # (the extracted 1.0 model is cubic in the message length - 0.6 s at 8 kB, 4 s at 16 kB, 26 s at 32 kB: long 1.0 streams are fed
    # to it only up to a budget; every case is still judged by the oracle above)
    if ctx.model and done:
        budget, fed = (4.0 if quick else 150.0), []
        def cost(co):
            n = sum(len(r) for r in co[1]['reads'])
            return 0.0 if co[0]['base'] == 11 or n < 3000 else (n / 8000.0) ** 3 * 0.7
        for co in sorted(done, key=cost):           # cheapest first: as many cases as the budget allows
            if cost(co) > budget: break
            budget -= cost(co); fed.append(co)
        ctx.extra['peer_cases_not_fed_to_model'] = len(done) - len(fed)
        done = fed
        outs = ctx.model.batch([[1 if c['base'] == 10 else 2, o['reads']] for c, o in done])
        for (case, obs), mo in zip(done, outs):
            recs = q.impl_records(case, obs)
            mcase = {'base': case['base'], 'segs': [r.hex() for r in obs['reads']], 'via': case['transport']}
            ctx.count(dict(mcase, level='peer_model'), nontrivial=len(obs['reads']) >= 2)
            ctx.hist('level', 'peer_model')
            if recs is None: continue
            same, why = f.records_equal(mo, recs)
            if not same:
                ctx.disagree(mcase, mo, recs, 'model feed%d on the reads made by %s vs the session: %s' % (case['base'], case['transport'], why),
                             theorem='C01_sim%d' % case['base'])
    dfd, extra = q.settle_resources(res0)
    ctx.extra['peer_cases'] = len(plan)
    ctx.extra['peer_wall_s'] = round(time.time() - t_start, 1)
    ctx.extra['peer_fd_delta_after_all_cases'] = dfd
    ctx.extra['peer_threads_left_after_all_cases'] = extra
    if dfd > 0 or extra:
        ctx.note('peer level left %d file descriptors / threads %r behind' % (dfd, extra))


def run(ctx):
    import time
    ctx.exhaustive = False
    walls = ctx.extra['level_wall_s'] = {}
    for level in (parser_level,          # corpus first (inside)
                  constants, micro, session_level, dispatch_level, peers_level):
        t = time.time()
        level(ctx)
        walls[level.__name__] = round(time.time() - t, 1)
    if not ctx.model:
        ctx.note('model runner missing: model comparisons skipped, oracles still ran')


# ---------------------------------------------------------------- search / reproduce / replay
def _judge_hex(base, segs_hex, msgs=None):
    f = F()
    segs = [bytes.fromhex(h) for h in segs_hex]
    return f.judge(base, segs)


def search(ctx, seeds):
    """Tie broke: look for a stream+segmentation on which the PROPERTY fails on the implementation - all single cuts
    (and the given segmentation) of every disagreeing case first, then a random sweep of valid streams."""
    f, rng = F(), ctx.rng
    def bad(base, segs):
        ok, what, sig, exp, act = f.judge(base, segs)
        if not ok:
            return dict(case={'base': base, 'segs': [s.hex() for s in segs]}, what='base 1.%d: %s' % (base - 10, what), sig=None, expected=exp, actual=act)
    for c in seeds:
        if c.get('level') == 'dispatch':           # the driver tie broke: the property oracle on this stream, as recorded and under all single cuts
            d = D()
            stream = b''.join(bytes.fromhex(h) for h in c['segs'])
            for segs in [[bytes.fromhex(h) for h in c['segs']]] + [f.segment(stream, cu) for cu in f.all_single_cuts(len(stream))][:3000]:
                cc = dict(c, segs=[x.hex() for x in segs])
                ok, what, exp, act, obs = d.execute(cc)
                if not ok:
                    return dict(case=cc, what='dispatch level (%s, base 1.%d): %s' % (c['profile'], c['base'] - 10, what), sig=None, expected=_short(exp), actual=_short(act))
            continue
        if 'segs' not in c: continue
        segs = [bytes.fromhex(h) for h in c['segs']]
        stream = b''.join(segs)
        for cand in [segs, [stream]] + [f.segment(stream, cu) for cu in f.all_single_cuts(len(stream))][:5000]:
            r = bad(c['base'], cand)
            if r: return r
    for i in range(4000):
        base = 10 if i % 2 == 0 else 11
        if i % 4 < 2:
            msgs, kinds, chunked, stream = short_stream_job(rng, base, 72)
            cutsets = f.all_single_cuts(len(stream)) + [list(range(1, len(stream)))]
        else:
            msgs, kinds = f.gen_messages(rng, base)
            chunked = [f.gen_chunking(rng, m.encode('utf-8'), rng.choice(f.CHUNKINGS)) for m in msgs] if base == 11 else None
            stream = f.encode10([m.encode('utf-8') for m in msgs]) if base == 10 else f.encode11(chunked)
            cutsets = [f.gen_cuts(rng, base, stream, sk) for sk in f.SEGMENTATIONS]
        for cu in cutsets:
            r = bad(base, f.segment(stream, cu))
            if r: return r
    return None


def reproduce(finding):
    w = finding['witness']
    from vlib import paths; paths.use_repo()
    if w.get('level') == 'peer':
        return not peer_exec(w)[0]
    if w.get('level') == 'dispatch':
        return not D().execute(w)[0]
    ok = F().judge(w['base'], [bytes.fromhex(h) for h in w['segs']])[0]
    return not ok


def replay(doc):
    if 'case' not in doc:
        return F().replay_obligation(doc, ID)
    c = doc['case']
    if c.get('level') == 'peer':
        from vlib import paths; paths.use_repo()
        ok, what, exp, act, obs, flaky = peer_exec(c)
        n = sum(len(p) for p in c['pieces']) // 2
        print('case     : %s peer, base 1.%d, %d octets written in %d pieces, actions %s' % (c['transport'], c['base'] - 10, n, len(c['pieces']), c['actions']))
        def short(d): return {k: ([x if len(x) < 90 else x[:60] + '...(%d chars)' % len(x) for x in v] if k == 'callbacks' else v) for k, v in d.items()}
        print('expected :', short(exp))
        print('actual   :', short(act))
        if not ok: print('FAILS    :', what)
        return ok
    if c.get('level') == 'dispatch':
        from vlib import paths; paths.use_repo()
        return dispatch_replay(c)
    if c.get('level') == 'session':
        ok, what, actual = session_judge(c)
        print('case     : session level, base 1.%d, %d segments' % (c['base'] - 10, len(c['segs'])))
        print('expected :', {'callbacks': c['expected'], 'errors_before_close': [], 'worker_alive_after_close': False})
        print('actual   :', actual)
        if not ok: print('FAILS    :', what)
        return ok
    if 'segs' not in c:
        print('case     :', c); print('expected :', doc.get('expected')); print('actual   :', doc.get('actual'))
        print('(constant / micro-suite tie: re-run ./check %s)' % ID)
        return False
    f = F()
    segs = [bytes.fromhex(h) for h in c['segs']]
    sent = None
    ok, what, sig, exp, act = f.judge(c['base'], segs)
    if ok and c.get('msgs') is not None:
        want = [m.strip().encode() if c['base'] == 10 else m.encode() for m in c['msgs']]
        got = [e[1] for _, e in act if e[0] == 0]
        if want != got:
            ok, what = False, 'delivered %r, sent %r' % (got, want)
    print('case     : base 1.%d segments %r' % (c['base'] - 10, segs if len(segs) < 20 else segs[:20] + ['...']))
    print('expected : [segment, event] ', exp)
    print('actual   : [segment, event] ', act)
    if not ok: print('FAILS    :', what)
    return ok
