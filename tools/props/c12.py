"""C12 — closing a session releases it completely on every transport.
Model: coq/Model/Close.v (LTS of one session's life-cycle); theorems: coq/Props/C12.v.
Harness: tools/harness/c12_peers.py (real Unix socketpair / TLS on loopback / in-process paramiko server).

Every case opens a REAL session against a scripted peer, drives one close path, and
  (1) maps the recorded order of flag changes and worker-loop events to the model's label sequence and asks the
      extracted model whether it accepts it and which final observables it predicts   -> ctx.disagree
  (2) evaluates the property sentence on the observations only (independent of log and model)  -> ctx.fail
"""
import os, sys, time, threading, socket, ssl, gc, json

ID = 'C12'
COQ_ROOTS = ['Props/C12.v']
RULE = ('case = (transport, close path, number of requests in flight 0..3, peer behaviour, race option). Close paths: direct '
        'close(), close() twice, close_session() and `with manager:` exit (with / without exception) against a peer that '
        'answers close-session and closes / answers and stays / stays silent (time-out) / answers rpc-error / drops the '
        'connection, close() racing with replies of the in-flight requests, close() racing with a thread that keeps submitting '
        'requests, close() after the peer dropped the connection, close() from inside a listener callback, failed hello '
        '(silent / garbage+EOF / EOF) and failed connect through manager.connect_uds/_tls/_ssh (thorough: wrong password, '
        'rejected subsystem, TLS handshake never answered / untrusted CA), and open/close cycles counting threads and '
        'descriptors; SSH only (ssh_buffered): k = 0..3 (thorough: up to 6) chunks of BUF_SIZE octets sit in paramiko\'s channel '
        'buffer when close() closes the transport, the worker being caught inside a listener callback / between select and '
        'recv / in select - loop iterations after the close are counted against 1 + k. Every transport (blocked_read): the '
        'worker is ASLEEP INSIDE _transport_read when the session is closed by close() / close() twice / close_session() / with-exit '
        '(with, without exception), 0..3 requests in flight - TLS: the peer (driven through ssl.MemoryBIO) put a truncated '
        'record on the wire (all but the last 40 octets / half / 3 octets of the header / 1 octet; record of 100..15000 octets) and stays '
        'silent; Unix, SSH: spurious readiness (the octets that made the handle readable are taken away between select and recv). '
        'Every transport (callers): WHO enters the close path - the main thread of the process, an application thread (daemon / non-daemon; '
        'every other scenario is driven by one), the session\'s own thread (close_in_callback), the thread of ANOTHER session: two sessions A, B '
        'in one process, a listener of A (listeners run on A\'s session thread) closes B by close() / close_session() / with-exit (with, '
        'without exception) when A receives a notification (callback) or when A\'s peer goes away (errback: cascade close); B has 0..3 requests '
        'in flight and 1..3 listeners whose errback takes 0.1..0.3 s, so that B\'s last error broadcast is still under way if close() does not '
        'wait for B\'s thread; A (Unix or the same transport as B) is closed afterwards and checked as a session of its own; the caller kind '
        'is measured inside close() (histogram close_called_by). '
        'quick = Unix socketpair (5 callers cases: 3 foreign, main, app) + 15 SSH cases (the 8 ssh_buffered ones, 1 foreign close included) + 11 TLS cases (4 blocked_read, 1 failed hello with the worker asleep in recv behind the session tickets, 1 foreign close); thorough adds '
        'TLS over loopback TCP and SSH over a socketpair in full. distinct = '
        'distinct case tuples; non-trivial = a handle was opened (all but the pre-handle connect failures).')
ASSUMES = ['O1 (TLS/Unix): a read begun after the local close of the socket returns no data (EOF or error) - validated by every trace',
           'O4 (SSH): a chunk enters the channel buffer only while the transport is open: after Transport.close() returned / is_active() '
           'was false nothing more is fed - validated: the chunks read after the close never exceed ceil(len(channel.in_buffer)/BUF_SIZE) measured at the close',
           'O5 (SSH): channel.recv(BUF_SIZE) hands out the buffer oldest first, one chunk per call, and returns b\'\' only when it is empty - validated by every SSH trace',
           'O2: closing the socket / paramiko transport (or an inactive transport) closes the connection towards the peer - observed as EOF at the peer within 2 s in every case',
           'O3: Thread.join/is_alive report "not alive" only after run() ended',
           'O6: a read sleeping inside the transport is woken by the local shutdown/close of the handle and returns without data; with the '
           'handle open it returns only when the peer sends / the socket time-out expires - validated by every blocked_read trace (the model '
           'accepts Read after Block only behind the CloseHandle label or an Unblock) and by the bound on close() (<= 2 s) measured there',
           'listener callbacks return (a callback that blocks forever blocks the worker and so close()); in particular two sessions whose '
           'listeners close EACH OTHER wait for each other for ever (Props/C12.v C12_ex_mutual_close_waits_for_ever): not exercised']
TRUSTED = ['modelled, not verified: kernel socket/epoll semantics, OpenSSL shutdown, paramiko transport/channel teardown, threading.Thread',
           'oracle hypotheses O1-O6 are built into Model/Close.v step (no Axiom/Parameter): O4 = Arrive is enabled only while socket_open, '
           'O5 = Read (RData n) pops the head of chan and Read REof needs chan = [] on SSH; C12_ssh_bound, C12_ssh_bound_from_closing, '
           'C12_ssh_worker_terminates and C12_ssh_close_returns hold under them; O6 = in WBlocked no worker label is enabled while socket_open, '
           'Read REof/RErr (never RData) once it is closed, Block/Unblock only while it is open; C12_close_returns, C12_close_wakes_blocked_read, '
           'C12_worker_progress_closed hold under it',
           'blocked_read: "asleep" = the last entry the worker logged is ReadBegin and it is >= 0.2 s old when the close path is entered '
           '(evidence histogram blocked_read_worker_asleep_at_close); a read counts as having slept when it took >= 0.15 s',
           'SSH chunk accounting of the harness: len(paramiko Channel.in_buffer) read under the log lock right after Transport.close() returned',
           'harness logging discipline (flag writes/reads logged under one lock; blocking calls as Begin/result pairs)',
           'caller kind of a close(): computed by the harness inside close() from threading.current_thread() (is the session itself -> own, '
           'an instance of ncclient.transport.session.Session -> foreign, threading.main_thread() -> main, else app) and handed to the model as the '
           'actor code of the CStep / CloseRet labels (Model/CloseCallers.v caller_of_code, actor_of); the two sessions of a foreign-close case are '
           'checked against the one-session model separately (justified by C12_two_sessions_project), the pair model step2 itself is not run']
ALLOWED_AXIOMS = []

BOUND = 2.0           # seconds: peer EOF / thread exit after the close path returned (expected <= 0.2 s)
HELLO_TIMEOUT = 0.4
TR = {'ssh': 0, 'tls': 1, 'unix': 2}
CSTEP = {'SetClosing': 0, 'ClearConn': 1, 'CloseHandle': 2, 'JoinW': 3, 'ChanDrop': 4}
PROG = {'ssh': ['SetClosing', 'ClearConn', 'CloseHandle', 'JoinW', 'ChanDrop', 'ClearConn'],
        'tls': ['SetClosing', 'CloseHandle', 'ClearConn', 'JoinW'],
        'unix': ['SetClosing', 'CloseHandle', 'ClearConn', 'JoinW']}

def P():
    from harness import c12_peers
    return c12_peers

def SB():
    from harness import c12_sshbuf
    return c12_sshbuf

def BL():
    from harness import c12_blocked
    return c12_blocked

def CL():
    from harness import c12_callers
    return c12_callers

# the caller of a close() as the glue knows it (Model/CloseCallers.v: caller_of_code): only `own` is the actor Worker
ACODE = {'main': 0, 'own': 1, 'app': 2, 'foreign': 3}

def rundir():
    from vlib import paths
    os.makedirs(paths.RUN, exist_ok=True)
    return paths.RUN

# =====================================================================================
# log -> model labels
# =====================================================================================
def to_labels(kind, plog, connect_failed=None, ptimes=None):
    """plog: list of (lab, arg, is_worker). Returns list of encoded labels for Glue/C12_glue.v.
    connect_failed: None | 'pre' (nothing opened) | 'cleanup' (tls/unix connect closed its own socket) | 'late'
    ptimes: the time of every log entry; a read that took >= 0.15 s (or never returned) SLEPT inside the transport:
    label Block after its ReadBegin, Unblock before its result when the handle was still open then (Model/Close.v O6)"""
    out = []
    slept = set(BL().slept_reads(plog, ptimes)) if ptimes is not None else set()
    handle_closed = [False]            # a CloseHandle / inactive transport has been emitted
    shut_done = {0: False, 1: False}   # this actor's close() already performed its CloseHandle at the shutdown
    asleep = [False]
    prog = {0: None, 1: None}          # remaining close program per actor (None: not inside close)
    ckind = ['main']                   # who called the close() a non-worker thread is inside of (log entry CloseCall)
    def ac(a): return 1 if a == 1 else ACODE.get(ckind[0], 0)
    connected_once = False
    hello_skipped = False
    up = False
    msg_rid, next_rid = {}, [1]
    accepted, answered = set(), set()
    last_w = [None]                    # last worker label emitted (name)
    todo = [0]                         # messages of the current read not yet dispatched
    failed_emitted = [False]
    def emit(l, w=False):
        out.append(l)
        if w: last_w[0] = l
    def rid_of(mid):
        if mid not in msg_rid:
            msg_rid[mid] = next_rid[0]; next_rid[0] += 1
        return msg_rid[mid]
    def cstep(a, name):
        p = prog[a]
        if p is None:
            emit([8, ac(a), CSTEP[name], 1], a == 1); return     # outside close(): the model will reject
        while p and p[0] != name:
            c = p.pop(0)
            if c in ('CloseHandle', 'JoinW'): emit([8, ac(a), CSTEP[c], 0], a == 1)      # guarded statement skipped
            else: emit([8, ac(a), CSTEP[c], 1], a == 1)                                   # not observed: let the model judge
        if p: p.pop(0)
        emit([8, ac(a), CSTEP[name], 1], a == 1)
    def flush(a):
        p = prog[a] or []
        while p:
            c = p.pop(0)
            emit([8, ac(a), CSTEP[c], 0 if c in ('CloseHandle', 'JoinW') else 1], a == 1)
    n = len(plog)
    for i, (lab, arg, w) in enumerate(plog):
        a = 1 if w else 0
        if lab == 'OpenHandle':
            emit([0])
        elif lab == 'SetConnected':
            if arg == 1:
                emit([3]); connected_once = True
            elif prog[a] is not None:
                cstep(a, 'ClearConn')
            # else: initialisation in __init__
        elif lab == 'ClearClosing':
            pass                                   # part of SetConn (ssh)
        elif lab == 'WorkerStart':
            emit([4])
        elif lab == 'HelloOk':
            emit([5]); up = True
        elif lab == 'Send':
            ok, mid = arg
            if not hello_skipped and mid is None and not up:
                hello_skipped = True; continue     # the client hello
            if mid is None: continue
            r = rid_of(mid)
            if ok: accepted.add(r)
            emit([6, r, 1 if ok else 0])
        elif lab == 'MgrExit': emit([12, arg])
        elif lab == 'CsBegin': emit([10])
        elif lab == 'CsRet': emit([11])
        elif lab == 'CloseCall':
            if not w:
                ckind[0] = arg if arg in ACODE and arg != 'own' else 'main'
                if not up and not failed_emitted[0]:
                    emit([2]); failed_emitted[0] = True        # the manager's cleanup branch: connect raised
                emit([7])
            else:
                if last_w[0] is not None and last_w[0][0] == 22: emit([23], True)     # after the error broadcast
                # else: close() from inside a callback, already emitted as CbClose at the Dispatch entry
            prog[a] = list(PROG[kind]); shut_done[a] = False
        elif lab == 'SetClosing': cstep(a, 'SetClosing')
        elif lab == 'SockShutdown':
            # TLS/Unix close(): shutdown(SHUT_RDWR) + close() are ONE CloseHandle statement of the model; the handle is
            # closed towards the worker and the peer from the (successful) shutdown on
            if prog[a] is not None and 'CloseHandle' in prog[a]:
                cstep(a, 'CloseHandle'); shut_done[a] = True; handle_closed[0] = True
        elif lab in ('SockClose', 'TransportClose'):
            if lab == 'SockClose' and shut_done[a]: shut_done[a] = False
            elif prog[a] is not None: cstep(a, 'CloseHandle'); handle_closed[0] = True
            if lab == 'TransportClose' and arg is not None: out.append([SB().MARK, arg])     # octets buffered in the channel
        elif lab == 'TransportInactive':
            # ssh close(): `if self._transport.is_active()` was false - the guarded statement is skipped here
            if prog[a] and 'CloseHandle' in prog[a]:
                while prog[a][0] != 'CloseHandle':
                    c = prog[a].pop(0); emit([8, ac(a), CSTEP[c], 0 if c == 'JoinW' else 1], a == 1)
                prog[a].pop(0); emit([8, ac(a), CSTEP['CloseHandle'], 0], a == 1); handle_closed[0] = True
                out.append([SB().MARK, arg])
        elif lab == 'DropChannelClose':
            if prog[a] is not None: cstep(a, 'ChanDrop')
        elif lab == 'Join':
            if arg == 1 and prog[0] is not None: cstep(0, 'JoinW')
        elif lab == 'CloseRet':
            flush(a); prog[a] = None
            emit([9, ac(a)], a == 1)
        elif lab == 'CloseRaise':
            emit([99])                             # no such label: the model rejects
        elif lab == 'SelectBegin': emit([14], True)
        elif lab == 'Select': emit([15, arg], True)
        elif lab == 'ReadBegin':
            emit([16], True)
            if i in slept and not handle_closed[0]:
                out.append([26]); asleep[0] = True                       # Block: environment label
        elif lab == 'Read':
            if asleep[0]:
                if not handle_closed[0]: out.append([27])                # Unblock: the peer / a time-out, handle still open
                asleep[0] = False
            if arg == 1:
                k = 0
                for (l2, a2, w2) in plog[i + 1:]:
                    if not w2: continue
                    if l2 == 'Dispatch': k += 1
                    elif l2 in ('SelectBegin', 'ErrBroadcast', 'Exit'): break
                todo[0] = k
                emit([17, 1, k], True)
            else:
                emit([17, 0 if arg == 0 else 2, 0], True)
        elif lab == 'ChkClosing':
            # the loop's test follows a select time-out or a read that returned b''; the other read of the flag is
            # run()'s exception handler choosing the error class handed to the listeners (not a label of the model)
            pw = None
            for (l2, a2, w2) in reversed(plog[:i]):
                if w2 and l2 not in ('Cb', 'Eb', 'Deliver', 'FailReq'): pw = (l2, a2); break
            if pw in (('Select', 0), ('Read', 0)): emit([18, arg], True)
        elif lab == 'Dispatch':
            # does this callback round call close() on the worker thread?
            cbclose = False
            for (l2, a2, w2) in plog[i + 1:]:
                if not w2: continue
                if l2 == 'CloseCall': cbclose = True; break
                if l2 in ('Dispatch', 'SelectBegin', 'ErrBroadcast', 'Exit'): break
            todo[0] = max(0, todo[0] - 1)
            code = 21 if cbclose else 19
            r = msg_rid.get(arg)
            if r is not None and r in accepted and r not in answered:
                answered.add(r); emit([code, [r]], True)
            else:
                emit([code, []], True)
        elif lab == 'ErrBroadcast':
            lw = last_w[0]
            clean = lw is not None and ((lw[0] == 18 and lw[1] == 1) or (lw[0] == 17 and lw[1] == 2))
            after_eof_unexpected = lw is not None and lw[0] == 18 and lw[1] == 0 and _prev_read_eof(out)
            if not clean and not after_eof_unexpected:
                emit([20] if todo[0] > 0 else [13], True)       # a callback/parser raised | the loop head raised
            emit([22], True)
        elif lab == 'Exit': emit([24], True)
        # Cb, Eb, Deliver, FailReq, JoinBegin, ChannelClose, Drop*: not labels of the model
    if connect_failed == 'pre': out.append([2])
    elif connect_failed == 'cleanup': out.extend([[0], [1]])
    elif connect_failed == 'late' and not failed_emitted[0]: out.append([2])
    if kind == 'ssh': out = SB().ssh_arrivals(out)       # the channel buffer: Arrive labels (Model/Close.v O4, O5)
    return out, msg_rid

def _prev_read_eof(out):
    """the ChkClosing(0) just emitted followed a Read eof (not a select time-out)"""
    for l in reversed(out[:-1]):
        if l[0] == 17: return l[1] == 0
        if l[0] == 15: return False
    return False

def model_obs(v, nlabels):
    if isinstance(v, str) or v[0] == 999: return {'accepted': False, 'at': -1, 'raw': repr(v)[:80]}
    k, st = v
    d = dict(accepted=(k == nlabels), at=k, connected=bool(st[0]), closing=bool(st[1]), socket_open=bool(st[2]),
             peer_saw_eof=bool(st[3]), worker=st[4], phase=st[5], pending=sorted(st[6]), failed=sorted(st[7]),
             answered=sorted(st[8]), late=sorted(st[9]), client_closed=bool(st[10]), cb_after=st[11], sel_after=st[12], cs=st[13])
    return d

# =====================================================================================
# scenarios on the implementation
# =====================================================================================
class Run(object):
    """result of one scenario"""
    def __init__(self):
        self.s = None; self.peer = None; self.rpcs = []; self.t_ret = None; self.raised = None
        self.connect_failed = None; self.handle_opened = True; self.extra = {}; self.server = None
        self.other = None          # (case, Run) of a second session that took part (path callers, caller foreign)

def opener(kind, files):
    p = P()
    if kind == 'unix': return lambda **kw: p.open_unix(hello_timeout=HELLO_TIMEOUT * 5, **kw)
    if kind == 'tls': return lambda **kw: p.open_tls(files, hello_timeout=HELLO_TIMEOUT * 5, **kw)
    return lambda **kw: p.open_ssh(hello_timeout=HELLO_TIMEOUT * 5, **kw)

def submit(r, n):
    p = P(); R = p.probe_rpc_class(); dh = p.device_handler()
    for i in range(n):
        q = R(r.s, dh, async_mode=True, timeout=5); q.rid = q._id
        q.request(); r.rpcs.append(q)
    # let the worker write them so that the peer holds them
    t0 = p.now()
    while r.peer is not None and len(r.peer.held) < n and p.now() - t0 < 2: time.sleep(0.005)

def scenario(case, files):
    """drive one case on the real implementation; returns Run"""
    p = P()
    kind, path, npend = case['transport'], case['path'], case.get('pending', 0)
    opn = opener(kind, files)
    r = Run()
    from ncclient.manager import Manager
    dh = p.device_handler()
    if path in ('close', 'close_twice', 'race_reply', 'race_read', 'race_submit', 'peer_drop', 'close_in_callback', 'slow_listener', 'peer_drop_slow_errback'):
        r.s, r.peer, err = opn(rpc='hold')
        assert err is None, err
        r.s._plog_add('HelloOk')
        if path == 'close_in_callback':
            from ncclient.transport.session import SessionListener
            sess = r.s
            class Closer(SessionListener):
                def callback(self, root, raw):
                    if 'rpc-reply' in root[0]: sess.close()
                def errback(self, ex): pass
            r.s.add_listener(Closer())
        if path == 'peer_drop_slow_errback':
            # the peer drops the connection; three application listeners are slow in errback; the application closes
            # while the error is still being delivered: nothing may still be running once close() has returned
            from ncclient.transport.session import SessionListener
            sess = r.s
            class SlowErr(SessionListener):
                def callback(self, root, raw): pass
                def errback(self, ex):
                    time.sleep(case.get('sleep', 0.4)); sess.probe.calls.append(('slow-errback-end', p.now()))
            for _ in range(3): r.s.add_listener(SlowErr())
        if path == 'slow_listener':
            # an application listener that is slow on the first message: close() is called while the worker is busy in it
            from ncclient.transport.session import SessionListener
            class Slow(SessionListener):
                def __init__(self): self.n = 0
                def callback(self, root, raw):
                    self.n += 1
                    if self.n == 1: time.sleep(case.get('sleep', 1.4))
                def errback(self, ex): pass
            r.s.add_listener(Slow())
        submit(r, npend if path not in ('close_in_callback', 'slow_listener') else max(npend, 1 if path == 'close_in_callback' else 2))
        if path == 'slow_listener':
            r.peer.release()                      # every held reply at once: the second is dispatched after the slow callback
            time.sleep(0.15)
            r.s.close(); r.t_ret = p.now()
        elif path == 'race_reply':
            th = threading.Thread(target=r.peer.release); th.start()
            if case.get('delay'): time.sleep(case['delay'])
            r.s.close(); r.t_ret = p.now(); th.join()
        elif path == 'race_read':
            # the worker is between select (ready) and recv when close() closes the handle under it
            r.s.at_gate.clear(); gate = threading.Event(); r.s.read_gate = gate
            r.peer.release(1)
            r.s.at_gate.wait(2)
            th = threading.Thread(target=r.s.close); th.start()
            t0 = p.now()
            while p.now() - t0 < 2:
                with r.s._plock:
                    if any(l[0] in ('SockClose', 'TransportClose') and not l[2] for l in r.s._plog): break
                time.sleep(0.002)
            time.sleep(case.get('delay', 0.01))
            r.s.read_gate = None; gate.set()
            th.join(); r.t_ret = p.now()
        elif path == 'race_submit':
            stop = threading.Event(); R = p.probe_rpc_class()
            from ncclient.transport.errors import TransportError
            def spam():
                while not stop.is_set() and len(r.rpcs) < 5000:
                    q = R(r.s, dh, async_mode=True, timeout=5); q.rid = q._id
                    try: q.request(); r.rpcs.append(q)
                    except TransportError: break
                    time.sleep(0.0005)
            r.s.join_pause = 0.03                 # the submitter gets time between the end of the worker and the end of close()
            th = threading.Thread(target=spam); th.start(); time.sleep(0.02)
            r.s.close(); r.t_ret = p.now(); stop.set(); th.join()
        elif path == 'peer_drop_slow_errback':
            r.peer._close_own()
            time.sleep(0.2)
            r.s.close(); r.t_ret = p.now()
        elif path == 'peer_drop':
            r.peer._close_own()
            r.s.join(BOUND)                       # the worker sees EOF, broadcasts, closes the session itself
            r.extra['alive_after_peer_drop'] = r.s.is_alive()
            r.s.close(); r.t_ret = p.now()
        elif path == 'close_in_callback':
            r.peer.release(1)                     # one reply -> the listener closes the session on the worker thread
            r.s.join(BOUND)
            r.t_ret = p.now()
            r.extra['worker_closed_itself'] = True
        else:
            r.s.close(); r.t_ret = p.now()
            if path == 'close_twice':
                try: r.s.close()
                except Exception as e: r.raised = 'second close: ' + type(e).__name__
                r.t_ret = p.now()
    elif path in ('close_session', 'with_ok', 'with_exc'):
        r.s, r.peer, err = opn(rpc='hold', close_rpc=case['close_rpc'])
        assert err is None, err
        r.s._plog_add('HelloOk')
        submit(r, npend)
        m = Manager(r.s, dh, timeout=case.get('rpc_timeout', 0.5))
        if case.get('async_mode'):
            m.async_mode = True                          # close_session must release the session in asynchronous mode too
        if case.get('stream'):
            r.peer.start_stream(); time.sleep(0.1)       # the peer keeps sending while the session is being closed
        try:
            if path == 'close_session':
                r.s._plog_add('CsBegin'); m.close_session()
            elif path == 'with_ok':
                with m:
                    r.s._plog_add('MgrExit', 0); r.s._plog_add('CsBegin')
            else:
                with m:
                    r.s._plog_add('MgrExit', 1); r.s._plog_add('CsBegin')
                    if case.get('body_exc') == 'transport':
                        from ncclient.transport.errors import TransportError
                        raise TransportError('another device dropped its connection')   # not this session's failure
                    raise KeyError('body failed')
        except Exception as e:
            r.raised = type(e).__name__
        r.t_ret = p.now()
        r.s._plog_add('CsRet')
    elif path == 'ssh_buffered':
        SB().scenario_buffered(case, r, opn, submit, p)
    elif path == 'blocked_read':
        BL().scenario_blocked(case, r, opn, submit, files)
    elif path == 'callers':
        CL().scenario_callers(case, r, lambda k: opener(k, files), submit, Run)
    elif path == 'failed_hello':
        r.s, r.peer, err = manager_connect(kind, files, r, hello=case['hello'])
        r.raised = type(err).__name__ if err else None
        r.connect_failed = 'late'
        r.t_ret = p.now()
    elif path == 'failed_connect':
        r.s, r.peer, err = manager_connect(kind, files, r, fault=case['fault'])
        r.raised = type(err).__name__ if err else None
        r.connect_failed = {'nolistener': 'cleanup', 'nohandshake': 'cleanup', 'badca': 'cleanup'}.get(case['fault'], 'late')
        r.t_ret = p.now()
    else:
        raise ValueError(path)
    return r

_created = []
def manager_connect(kind, files, r, hello='ok', fault=None):
    """open through manager.connect_uds/_tls/_ssh with the session classes replaced by the observing subclasses"""
    p = P()
    from ncclient import manager
    ns = {}
    for k, nm in (('ssh', 'SSHSession'), ('tls', 'TLSSession'), ('unix', 'UnixSocketSession')):
        base = p.probe_class(k)
        ns[nm] = type('M' + base.__name__, (base,), {'HELLO_TIMEOUT': HELLO_TIMEOUT,
                      '__init__': (lambda b: lambda self, dh: (b.__init__(self, dh), _created.append(self))[0])(base)})
    saved = manager.transport
    manager.transport = type('NS', (), ns)
    del _created[:]
    peer = None; err = None; held = None
    try:
        if kind == 'unix':
            path = os.path.join(rundir(), 'c12-%d.sock' % os.getpid())
            if os.path.exists(path): os.unlink(path)
            if fault != 'nolistener':
                ls = socket.socket(socket.AF_UNIX); ls.bind(path); ls.listen(1)
                box = []
                def acc():
                    try:
                        ls.settimeout(5); c, _ = ls.accept(); c.settimeout(30)
                        pe = p.Peer(c, hello=hello); box.append(pe); pe.start()
                    except Exception: pass
                at = threading.Thread(target=acc, daemon=True); at.start()
            try: manager.connect_uds(path=path)
            except Exception as e: err = e
            if fault != 'nolistener':
                at.join(5); ls.close(); os.unlink(path)
                peer = box[0] if box else None
            else:
                r.handle_opened = False
        elif kind == 'tls':
            srv = p.TlsServer(files, hello=hello, handshake=(fault != 'nohandshake'))
            r.server = srv
            try:
                manager.connect_tls(host='127.0.0.1', port=srv.port, certfile=files['cli'],
                                    ca_certs=files['badca' if fault == 'badca' else 'ca'],
                                    protocol=ssl.PROTOCOL_TLS_CLIENT, timeout=1.0 if fault == 'nohandshake' else 10)
            except Exception as e: err = e
            r.extra['exception_held'] = err is not None      # the exception object stays referenced while we observe
            srv.ready.wait(10)
            peer = srv.peer
        else:
            a, b = socket.socketpair()
            srv = p.SshServer(b, hello=hello, subsystem_ok=(fault != 'nosubsys'))
            r.server = srv
            try:
                manager.connect_ssh(host='c12', sock=a, hostkey_verify=False, username='u',
                                    password='bad' if fault == 'badpw' else 'pw', allow_agent=False, look_for_keys=False,
                                    timeout=HELLO_TIMEOUT)
            except Exception as e: err = e
            t0 = p.now()
            while srv.peer is None and fault is None and p.now() - t0 < 1: time.sleep(0.005)
            peer = srv.peer
    finally:
        manager.transport = saved
    r.extra['held_exception'] = err
    return (_created[-1] if _created else None), peer, err

# =====================================================================================
# observation + oracle
# =====================================================================================
def observe(case, r):
    """wait (bounded) for the asynchronous consequences, then read the observables"""
    p = P()
    s, peer = r.s, r.peer
    o = {}
    t_end = r.t_ret + BOUND
    if s is not None:
        while s.is_alive() and p.now() < t_end: time.sleep(0.005)
        o['alive'] = s.is_alive()
        o['exit_delay'] = round(p.now() - r.t_ret, 3)
    if peer is not None:
        while peer.eof_at is None and not peer.closed_own and not peer.done.is_set() and p.now() < t_end: time.sleep(0.005)
        o['peer_eof'] = peer.eof_kind if peer.eof_at is not None else ('peer-closed-first' if peer.closed_own else None)
    srv = r.server
    if srv is not None and hasattr(srv, 'transport_eof_at'):          # ssh: the server transport went down
        while srv.transport_eof_at is None and srv.t.is_active() and p.now() < t_end: time.sleep(0.005)
        o['server_transport_down'] = not srv.t.is_active()
    if srv is not None and hasattr(srv, 'raw_eof_at') and case.get('fault') in ('nohandshake', 'badca'):
        srv.t.join(max(0.0, t_end - p.now()) + 0.2)
        o['raw_eof'] = srv.raw_eof_at is not None
    # let a late callback show up: listeners are invoked by the session thread only, so once that thread has ended a
    # short pause is enough (round 4: the 0.05 s pause of every case cost 5 s of the quick tier)
    time.sleep(0.05 if (s is not None and s.is_alive()) else 0.01)
    if s is not None:
        o['connected'] = bool(s.connected)
        from ncclient.transport.errors import TransportError
        try:
            s.send('<late/>'); o['send_after'] = 'accepted'
        except TransportError: o['send_after'] = 'TransportError'
        except Exception as e: o['send_after'] = type(e).__name__
        tcl = s.close_returned_at[0] if s.close_returned_at else None
        o['client_close_returned'] = tcl is not None
        o['late_calls'] = len([c for c in s.probe.calls if tcl is not None and c[1] > tcl])
        o['close_raised'] = list(s.close_raised)
        o['close_max_s'] = round(max(s.close_durations), 2) if s.close_durations else None
        o['close_callers'] = sorted(set(s.close_callers))
        # the session's thread still running at the moment a close() handed control back to another thread
        o['alive_at_close_return'] = sorted({who for (who, alive) in s.alive_at_return if alive})
        if 'alive_at_path_return' in r.extra:
            o['alive_at_path_return'] = r.extra['alive_at_path_return']; o['caller'] = r.extra.get('caller')
        st = {'replied': [], 'failed': [], 'open': [], 'bad_error': []}
        from ncclient.transport.errors import TransportError as TE
        for q in r.rpcs:
            if q.reply is not None: st['replied'].append(q._id)
            elif q.error is not None:
                st['failed'].append(q._id)
                if not isinstance(q.error, TE): st['bad_error'].append(type(q.error).__name__)
            else: st['open'].append(q._id)
        o['reqs'] = st
    return o

def oracle(case, r, o):
    """the property sentence on the observations; returns list of (what, sig)"""
    bad = []
    s = r.s
    closing_paths = s is not None and (o.get('client_close_returned') or r.extra.get('worker_closed_itself'))
    if s is None:
        return bad
    if not closing_paths and r.handle_opened and case['path'] != 'failed_connect':
        bad.append(('the close path returned without close() having returned', None))
    if o.get('connected'): bad.append(('session still reports connected', None))
    if o.get('alive'): bad.append(('worker thread still alive %.1f s after the close path returned' % BOUND, None))
    if r.peer is not None and o.get('peer_eof') is None:
        bad.append(('peer did not see the connection close within %.1f s' % BOUND, None))
    if 'server_transport_down' in o and not o['server_transport_down'] and r.peer is None:
        bad.append(('SSH server transport still active after the failed connect', None))
    if o.get('raw_eof') is False:
        bad.append(('TCP connection still open towards the peer after the failed TLS connect (exception still referenced)', None))
    if o.get('late_calls'): bad.append(('%d listener invocation(s) after close() returned' % o['late_calls'], None))
    if o.get('alive_at_close_return'):
        bad.append(('session thread still running when close() returned to its caller (%s thread): its listeners can still be invoked'
                    % '/'.join(o['alive_at_close_return']), None))
    elif o.get('alive_at_path_return'):
        bad.append(('session thread still running when the close path returned to its caller (%s thread)' % o.get('caller'), None))
    if case.get('path') == 'callers' and o.get('caller') is not None:
        want = {'app_nondaemon': 'app'}.get(case['caller'], case['caller'])
        if o['caller'] != want and not (want == 'main' and o['caller'] == 'app'):
            raise AssertionError('harness: the close path was entered by a %s thread, the case asks for %s' % (o['caller'], want))
    if o.get('send_after') != 'TransportError' and (o.get('client_close_returned') or r.extra.get('worker_closed_itself')):
        bad.append(('send after close: %s' % o.get('send_after'), None))
    if o.get('close_raised'): bad.append(('close() raised %s' % o['close_raised'], None))
    if o.get('close_max_s') is not None and o['close_max_s'] > BOUND:
        bad.append(('close() took %.1f s (worker did not end within %.1f s of the close call)' % (o['close_max_s'], BOUND), None))
    if r.raised and r.raised.startswith('second close'): bad.append((r.raised, None))
    st = o.get('reqs', {})
    if st.get('open'): bad.append(('%d request(s) in flight at close neither answered nor failed' % len(st['open']), None))
    if st.get('bad_error'): bad.append(('pending request failed with a non-transport error %s' % st['bad_error'][:2], None))
    if case['transport'] == 'ssh':
        with s._plock: plog = list(s._plog)
        o['ssh_iter'] = SB().iterations(plog)
        bad.extend(SB().iteration_oracle(plog))
        if o.get('client_close_returned'): bad.extend(SB().release_oracle(s))
    return bad

def correspond(case, r, o, model):
    """trace acceptance and predicted observables; returns (labels, model_obs, impl_obs, list of differences)"""
    s = r.s
    if s is None:
        labels = [[0], [1]] if r.connect_failed == 'cleanup' and r.handle_opened else [[2]]
        plog = []
        msg_rid = {}
    else:
        with s._plock: plog = list(s._plog)
        with s._plock: ptimes = list(s._ptimes)[:len(plog)]
        labels, msg_rid = to_labels(case['transport'], plog, r.connect_failed if not any(l[0] == 'CloseCall' for l in plog) else None, ptimes)
    if model is None: return labels, None, None, []
    mo = model_obs(model.call([1, TR[case['transport']], labels]), len(labels))
    diffs = []
    if not mo['accepted']:
        diffs.append('model rejects the recorded trace at label %d: %s' % (mo['at'], labels[mo['at']] if 0 <= mo['at'] < len(labels) else mo.get('raw')))
        return labels, mo, None, diffs
    if s is None:
        im = dict(connected=False, phase=5)
        if mo['phase'] != 5 or mo['connected'] or mo['socket_open']: diffs.append('failed connect: model state not closed')
        return labels, mo, im, diffs
    probe = {msg_rid[q._id] for q in r.rpcs if q._id in msg_rid}
    byid = {q._id: q for q in r.rpcs}
    def rset(f): return sorted(msg_rid[i] for i in byid if i in msg_rid and f(byid[i]))
    started = any(l[0] == 'WorkerStart' for l in plog)
    handle_closed = True
    try:
        if case['transport'] == 'ssh':
            t = s._transport
            handle_closed = (t is None) or (not t.is_active())
        else:
            sk = s._socket
            handle_closed = (sk is None) or sk.fileno() == -1
    except Exception:
        pass
    im = dict(connected=o['connected'], socket_open=not handle_closed,
              worker=(12 if (started and not o['alive']) else (0 if not started else -1)),
              failed=rset(lambda q: q.error is not None), answered=rset(lambda q: q.reply is not None),
              unsettled=rset(lambda q: q.error is None and q.reply is None),
              client_closed=o['client_close_returned'], cb_after=o['late_calls'])
    mm = dict(connected=mo['connected'], socket_open=mo['socket_open'], worker=mo['worker'] if mo['worker'] in (0, 12) else -1,
              failed=[x for x in mo['failed'] if x in probe], answered=[x for x in mo['answered'] if x in probe],
              unsettled=[x for x in sorted(mo['pending'] + mo['late']) if x in probe],
              client_closed=mo['client_closed'], cb_after=mo['cb_after'])
    for k in mm:
        if mm[k] != im[k]: diffs.append('%s: model %r, implementation %r' % (k, mm[k], im[k]))
    if case['transport'] == 'ssh':
        info, d2 = SB().iteration_tie(labels, mo, model)
        if info: mo['ssh_iter'] = info
        diffs.extend(d2)
    return labels, mo, im, diffs

def cleanup(r):
    if r.other is not None: cleanup(r.other[1])
    try:
        if r.s is not None and (r.s.is_alive() or r.s.connected): r.s.close()
    except Exception: pass
    try:
        if r.peer is not None: r.peer._close_own()
    except Exception: pass
    try:
        if r.server is not None and hasattr(r.server, 'stop'): r.server.stop()
    except Exception: pass

WATCHDOG = 12.0
def run_case(case, files, model):
    box = {}
    def go():
        try: box['r'] = scenario(case, files)
        except BaseException as e: box['e'] = e
        finally: CL().scenario_done()
    th = threading.Thread(target=go, daemon=True, name='c12-scenario'); th.start()
    if not CL().serve_main(th, WATCHDOG):      # (the main thread executes the close paths that must run on it meanwhile)
        what = 'the close path did not return within %.0f s (close() blocked: the worker thread never ends)' % WATCHDOG
        return dict(obs={'hung': True}, bad=[(what, None)], labels=[], model=None, impl=None, diffs=[])
    if isinstance(box.get('e'), CL().ClosePathHung):
        return dict(obs={'hung': True}, bad=[(str(box['e']), None)], labels=[], model=None, impl=None, diffs=[])
    if 'e' in box: raise box['e']
    r = box['r']
    try:
        o = observe(case, r)
        bad = oracle(case, r, o)
        labels, mo, im, diffs = correspond(case, r, o, model)
        o2 = dict(o); o2['raised'] = r.raised
        if 'asleep' in r.extra: o2['asleep'] = r.extra['asleep']
        res = dict(obs=o2, bad=bad, labels=labels, model=mo, impl=im, diffs=diffs)
        if r.other is not None:
            # the other session that took part (its listener asked for the close) is a session of its own: same sentence, same model
            case_a, ra = r.other
            oa = observe(case_a, ra)
            res['bad'] = bad + [('other session (%s/%s): %s' % (case_a['transport'], case_a['path'], w), sg) for (w, sg) in oracle(case_a, ra, oa)]
            la, moa, ima, da = correspond(case_a, ra, oa, model)
            res['diffs'] = diffs + ['other session (%s/%s): %s' % (case_a['transport'], case_a['path'], d) for d in da]
            res['obs']['other'] = {k: v for k, v in oa.items() if k != 'reqs'}
            res['other_labels'] = la; res['other_model'] = moa
        return res
    finally:
        cleanup(r)

# =====================================================================================
# case generation
# =====================================================================================
def gen_cases(kind, rng, thorough):
    cs = []
    pend = [0, 1, 2, 3]
    for n in pend:
        cs.append(dict(transport=kind, path='close', pending=n))
        cs.append(dict(transport=kind, path='peer_drop', pending=n))
        if n: cs.append(dict(transport=kind, path='race_reply', pending=n, delay=rng.choice([0, 0, 0.001, 0.003])))
    for n in (1, 2, 3):
        cs.append(dict(transport=kind, path='race_read', pending=n))
    cs.append(dict(transport=kind, path='close_twice', pending=1))
    cs.append(dict(transport=kind, path='slow_listener', pending=2, sleep=1.4))
    cs.append(dict(transport=kind, path='peer_drop_slow_errback', pending=1, sleep=0.4))
    cs.append(dict(transport=kind, path='race_submit', pending=1))
    for n in (1, 2):
        cs.append(dict(transport=kind, path='close_in_callback', pending=n))
    for cr in ('ok_close', 'ok_open', 'silent', 'error', 'eof'):
        for path in ('close_session', 'with_ok', 'with_exc'):
            for n in ((0, 2) if not thorough else (0, 1, 3)):
                cs.append(dict(transport=kind, path=path, close_rpc=cr, pending=n, rpc_timeout=0.3))
    cs.append(dict(transport=kind, path='with_exc', close_rpc='ok_close', pending=0, rpc_timeout=0.3, body_exc='transport'))
    for cr in ('silent', 'ok_open', 'ok_close'):
        cs.append(dict(transport=kind, path='close_session', close_rpc=cr, pending=1, rpc_timeout=0.3, async_mode=True))
    cs.append(dict(transport=kind, path='with_ok', close_rpc='silent', pending=0, rpc_timeout=0.3, async_mode=True))
    cs.append(dict(transport=kind, path='close_session', close_rpc='ok_open', pending=0, rpc_timeout=1.0, stream=True))
    for h in ('silent', 'garbage_eof', 'eof', 'garbage', 'badbody', 'nocaptext'):
        cs.append(dict(transport=kind, path='failed_hello', hello=h))
    if kind == 'unix': cs.append(dict(transport=kind, path='failed_connect', fault='nolistener'))
    if kind == 'tls':
        cs.append(dict(transport=kind, path='failed_connect', fault='nohandshake'))
        cs.append(dict(transport=kind, path='failed_connect', fault='badca'))
    if kind == 'ssh':
        cs.append(dict(transport=kind, path='failed_connect', fault='badpw'))
        cs.append(dict(transport=kind, path='failed_connect', fault='nosubsys'))
        cs.extend(SB().quick_cases(rng))                    # k = 0..3 chunks buffered in the channel at close
        if thorough:
            for _ in range(8):
                cs.append(dict(transport=kind, path='ssh_buffered', mode=rng.choice(['callback', 'gate']), k=rng.randint(1, 6),
                               pending=rng.randint(0, 2), msg=rng.choice([300, 700, 1000, 1500, 4096, 5000])))
    if thorough: cs.extend(BL().thorough_cases(kind, rng))      # the worker asleep inside a read when the session is closed
    # who asks for the close: main thread, application thread, the thread of ANOTHER session (a listener of session A closes B)
    cs.extend(CL().thorough_cases(kind, rng) if thorough else CL().quick_cases(kind, rng))
    # extra random races
    for _ in range(6 if not thorough else 20):
        cs.append(dict(transport=kind, path='race_reply', pending=rng.randint(1, 3), delay=rng.choice([0, 0.0005, 0.002, 0.005])))
    return cs

def cycles(kind, files, n, ctx):
    """n open/close cycles; threads and descriptors must return to the baseline"""
    p = P()
    def once(i):
        case = dict(transport=kind, path=['close', 'close_session', 'with_exc', 'failed_hello'][i % 4], pending=i % 3,
                    close_rpc=['ok_close', 'silent'][(i // 4) % 2], rpc_timeout=0.2, hello='garbage_eof')
        r = scenario(case, files)
        try: observe(case, r)
        finally: cleanup(r)
        r.extra.clear()
    once(0); once(1); gc.collect(); time.sleep(0.3)
    base_fd, base_th = p.fd_count(), sorted(p.live_threads())
    for i in range(n): once(i)
    gc.collect()
    t0 = p.now()
    while p.now() - t0 < BOUND and (p.fd_count() > base_fd or len(p.live_threads()) > len(base_th)):
        time.sleep(0.05); gc.collect()
    return dict(fd_delta=p.fd_count() - base_fd, threads_delta=len(p.live_threads()) - len(base_th),
                threads=[t for t in p.live_threads() if t not in base_th][:5])

# =====================================================================================
# plugin interface
# =====================================================================================
def _files(kinds):
    return P().tls_material(rundir()) if 'tls' in kinds else None

def check_case(ctx, case, files, model, retries=3):
    res = run_case(case, files, model)
    if res['bad'] or res['diffs']:
        # wall-clock sensitive: must fail every time to be reported
        again = []
        for _ in range(retries):
            r2 = run_case(case, files, model)
            again.append(r2)
            if not r2['bad'] and not r2['diffs']:
                ctx.note('flaky once (not reported): %s -> %s %s' % (json.dumps(case, sort_keys=True), res['bad'][:1], res['diffs'][:1]))
                ctx.hist('flaky', case['path'])
                return r2
        if all(x['bad'] for x in again) and res['bad']:
            what, sig = res['bad'][0]
            ctx.fail(case, '%s [%s/%s]' % (what, case['transport'], case['path']), sig=sig,
                     expected='released: disconnected, peer EOF, worker ended, no later callback, send refused, in-flight requests failed',
                     actual=res['obs'])
        if all(x['diffs'] for x in again) and res['diffs']:
            ctx.disagree(case, res['model'], res['impl'], res['diffs'][0], theorem='C12_* (trace acceptance / predicted observables)')
    return res

def _ssh_iter_evidence(ctx, case, res):
    """SSH: loop iterations after the transport was closed against the chunks buffered then (C12_ssh_bound)"""
    it = (res.get('obs') or {}).get('ssh_iter')
    if not it: return
    ctx.hist('ssh_chunks_buffered_at_close', it['buffered_chunks'])
    ctx.hist('ssh_iterations_after_close minus chunks_buffered (bound: <= 1)', it['selects_after_close'] - it['buffered_chunks'])
    if case.get('path') == 'ssh_buffered':
        mi = (res.get('model') or {}).get('ssh_iter') or {}
        ctx.extra.setdefault('ssh_buffered', []).append(dict(k=case['k'], mode=case['mode'], octets=it['buffered_octets'],
            chunks=it['buffered_chunks'], iterations_after_close=it['selects_after_close'], bound=it['bound'],
            model_bound=mi.get('model_bound'), model_sel_after_close=mi.get('model_sel_after_close')))

def _secs(ctx, case, t0):
    d = ctx.extra.setdefault('seconds_by_path', {})
    k = '%s/%s' % (case['transport'], case['path'])
    d[k] = round(d.get(k, 0) + time.time() - t0, 2)

def _caller_evidence(ctx, case, res):
    """which kind of thread entered close() (measured inside close(): own / foreign = another session's thread / main / app)"""
    o = res.get('obs') or {}
    for who in o.get('close_callers') or []: ctx.hist('close_called_by', '%s/%s' % (case['transport'], who))
    if case.get('path') == 'callers':
        ctx.hist('callers_path', '%s %s%s via %s' % (case['transport'], case['caller'],
                 ('(%s of a %s session)' % (case['trigger'], case.get('a_transport'))) if case['caller'] == 'foreign' else '', case['via']))

def _blocked_evidence(ctx, case, res):
    """blocked_read: was the worker really asleep inside the read when the close path was entered; how long close() took"""
    if case.get('path') != 'blocked_read': return
    o = res.get('obs') or {}
    ctx.hist('blocked_read_worker_asleep_at_close', '%s/%s' % (case['transport'], o.get('asleep')))
    if o.get('close_max_s') is not None: ctx.hist('blocked_read_close_duration_s', '%.1f' % o['close_max_s'])
    ctx.hist('blocked_read_block_labels_in_trace', sum(1 for l in res.get('labels') or [] if l[0] == 26))

def run(ctx):
    thorough = ctx.tier == 'thorough'
    kinds = ['unix'] + (['tls', 'ssh'] if thorough else [])
    files = _files(kinds if thorough else kinds + ['ssh', 'tls'])
    from vlib import paths
    cdir = os.path.join(paths.CORPUS, ID)
    corpus = []
    if os.path.isdir(cdir):
        for f in sorted(os.listdir(cdir)):
            if f.endswith('.json'): corpus.append(json.load(open(os.path.join(cdir, f))).get('case'))
    for kind in kinds:
        cases = [c for c in corpus if c and c.get('transport') == kind] + gen_cases(kind, ctx.rng, thorough)
        for case in cases:
            if ctx.failures or len(ctx.disagreements) >= 3:
                break                              # a confirmed violation / broken tie: report it, do not pile up time-outs
            t_case = time.time()
            res = check_case(ctx, case, files, ctx.model)
            _secs(ctx, case, t_case)
            ctx.count(case, nontrivial=(case.get('fault') not in ('nolistener',)))
            ctx.traces += 1 if res['model'] is not None and res['model'].get('accepted') else 0
            ctx.hist('transport', kind); ctx.hist('path', case['path']); ctx.hist('pending', case.get('pending', 0))
            ctx.hist('labels_per_trace', min(200, 10 * (len(res['labels']) // 10)))
            if res['obs'].get('exit_delay') is not None: ctx.hist('worker_exit_delay_s', '%.1f' % res['obs']['exit_delay'])
            if kind == 'ssh': _ssh_iter_evidence(ctx, case, res)
            _blocked_evidence(ctx, case, res); _caller_evidence(ctx, case, res)
            if ctx.evaluations % 17 == 1:
                ctx.sample({'case': case, 'obs': {k: v for k, v in res['obs'].items() if k != 'reqs'}, 'n_labels': len(res['labels'])})
        if ctx.failures or len(ctx.disagreements) >= 3:
            break
        n = 20 if not thorough else 50
        t_case = time.time()
        lk = cycles(kind, files, n, ctx)
        _secs(ctx, dict(transport=kind, path='cycles'), t_case)
        ctx.extra.setdefault('cycles', {})[kind] = dict(n=n, **lk)
        ctx.count(dict(transport=kind, path='cycles', n=n))
        if lk['fd_delta'] > 0 or lk['threads_delta'] > 0:
            lk2 = cycles(kind, files, n, ctx); lk3 = cycles(kind, files, n, ctx)
            if all(x['fd_delta'] > 0 or x['threads_delta'] > 0 for x in (lk2, lk3)):
                ctx.fail(dict(transport=kind, path='cycles', n=n), 'open/close cycles leak: %r' % lk, sig=None,
                         expected='no growth of live threads / open descriptors', actual=lk)
    if not thorough and not (ctx.failures or len(ctx.disagreements) >= 3):
        # quick tier: the SSH transport is represented by its three most distinctive paths
        for case in [dict(transport='ssh', path='failed_connect', fault='badpw'), dict(transport='ssh', path='close', pending=1),
                     dict(transport='ssh', path='close_session', close_rpc='ok_close', pending=0, rpc_timeout=0.3),
                     dict(transport='ssh', path='close_session', close_rpc='ok_open', pending=0, rpc_timeout=1.0, stream=True)
                     , dict(transport='ssh', path='failed_hello', hello='badbody'),
                     # ... and TLS by its connect failures (each connect_* function of manager.py has its own clean-up) and one close
                     dict(transport='tls', path='failed_hello', hello='badbody'), dict(transport='tls', path='failed_hello', hello='nocaptext'),
                     dict(transport='tls', path='failed_hello', hello='eof'), dict(transport='tls', path='failed_connect', fault='badca'),
                     dict(transport='tls', path='close', pending=1),
                     # failed hello with the worker asleep in recv (select reported the TLS 1.3 session tickets: records without
                     # application data) when the manager's clean-up closes the session
                     dict(transport='tls', path='failed_hello', hello='silent'),
                     # a listener of another session (it runs on that session's thread) closes the session
                     dict(transport='tls', path='callers', caller='foreign', a_transport='unix', trigger='callback', via='close', pending=1, slow=0.15),
                     dict(transport='ssh', path='callers', caller='foreign', a_transport='unix', trigger='errback', via='close_session', pending=1, slow=0.15),
                     ] + SB().quick_cases(ctx.rng) + BL().quick_cases(ctx.rng):
            if ctx.failures or len(ctx.disagreements) >= 3: break
            t_case = time.time()
            res = check_case(ctx, case, files, ctx.model)
            _secs(ctx, case, t_case)
            ctx.count(case); ctx.hist('transport', case['transport']); ctx.hist('path', case['path'])
            ctx.traces += 1 if res['model'] is not None and res['model'].get('accepted') else 0
            if case['transport'] == 'ssh': _ssh_iter_evidence(ctx, case, res)
            _blocked_evidence(ctx, case, res); _caller_evidence(ctx, case, res)
    ctx.exhaustive = False

def search(ctx, seeds):
    kinds = ['unix'] + (['tls', 'ssh'] if ctx.tier == 'thorough' else [])
    files = _files(kinds + ['tls'])
    tries = list(seeds) + CL().quick_cases('unix', ctx.rng) + BL().quick_cases(ctx.rng)
    for k in kinds: tries += gen_cases(k, ctx.rng, False)
    for case in tries:
        try:
            rs = [run_case(case, files, None) for _ in range(3)]
        except Exception:
            continue
        if all(r['bad'] for r in rs):
            what, sig = rs[0]['bad'][0]
            return dict(case=case, what=what, sig=sig, expected='session released', actual=rs[0]['obs'])
    return None

def reproduce(finding):
    case = finding['witness']
    files = _files([case['transport']])
    return all(bool(run_case(case, files, None)['bad']) for _ in range(3))

def replay(doc):
    case = doc['case']
    files = _files([case['transport']])
    from vlib.model import Model
    try: model = Model(ID); model.call([1, 2, []])
    except Exception: model = None
    res = run_case(case, files, model)
    print('case     :', case)
    print('expected : released (disconnected, peer sees close, worker ended, no later callback, send refused, in-flight requests failed); model accepts the trace')
    print('actual   :', res['obs'])
    print('oracle   :', res['bad'] or 'ok')
    print('model    :', res['diffs'] or 'trace accepted, observables agree')
    return not res['bad'] and not res['diffs']
