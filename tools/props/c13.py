"""C13 — the lock context manager pairs lock and unlock.
Model: coq/Model/LockCtx.v (on coq/Model/RpcErrors.v); spec: coq/Spec/LockCtxSpec.v; theorems: coq/Props/C13.v.
Programs of the model's `prog` language are compiled to Python source with real `with m.locked(t):` blocks and run on a
real Manager over the fake session of tools/harness/fakesession_rpc.py whose scripted server answers the n-th request with
the n-th entry of an answer script.  Compared: the server-side request log (operation + datastore read from the request
XML with xml.etree) and the caller-visible outcome against the extracted model; and, independently, the property
sentence evaluated on the interleaved log of requests and body start/end marks."""
import json, itertools, os

ID = 'C13'
COQ_ROOTS = ['Props/C13.v', 'GenProps/RpcErrors_consts.v', 'GenProps/LockCtx_consts.v']
RULE = ('programs over Ret | Raise | Req(lock/unlock/get-config, datastore) | Seq | Locked(datastore, body) | Try, compiled to '
        'real with-blocks; every program of size <= N over the alphabet {pass, raise, get-config} x {locked(running), '
        'locked(candidate), try} x Seq (Seq right-nested, the semantics being associative) is run against every answer '
        'script over {ok, error, warning} for the requests it makes: all scripts for N <= 3 (quick) / 4 (thorough), scripts with '
        'at most 2 (quick) / 3 (thorough) non-ok answers for N <= 5, at most 2 for N = 6 (thorough: all programs; quick: 250 '
        'sampled) and 2000 sampled programs of size 7 (thorough); manager mode ALL; plus random '
        'programs up to size 14 with explicit lock/unlock requests, four datastore names, modes NONE/ERRORS/ALL, answers '
        'incl. warning+error and exempt messages with a user exempt pattern. A case is (program, answer script, mode, '
        'patterns); non-trivial = contains a Locked.')
ASSUMES = ['the n-th request of a session is answered from the n-th script entry (the server oracle of the model is a function of the '
           'request history; a script is one such function)',
           '"the lock request is answered with an error" is read through C06: the reply makes Lock raise under RaiseMode.ERRORS']
TRUSTED = ['modelled, not verified: the with-statement protocol of CPython (__enter__/__exit__, exception propagation), lxml']

DATASTORES = ['running', 'candidate', 'startup', 'x-store']
KINDS = {0: 'lock', 1: 'unlock', 2: 'get-config'}
ANS = {'ok': [], 'err': [('error', 'e')], 'warn': [('warning', 'w')], 'we': [('warning', 'w'), ('error', 'e')],
       'ex': [('error', 'Exempt me')], 'ew': [('error', 'e'), ('warning', 'w')], 'abs': [(None, 'nosev')]}

# ------------------------------------------------------------------ programs
def size(p):
    k = p[0]
    if k in ('ret', 'raise', 'req'): return 1
    if k == 'seq': return 1 + size(p[1]) + size(p[2])
    if k == 'locked': return 1 + size(p[2])
    return 1 + size(p[1])

def has_req(p):
    k = p[0]
    if k == 'req': return True
    if k in ('seq',): return has_req(p[1]) or has_req(p[2])
    if k == 'try': return has_req(p[1])
    if k in ('ret', 'raise'): return False
    return has_req(p[2])

def has_locked(p):
    k = p[0]
    if k == 'locked': return True
    if k == 'seq': return has_locked(p[1]) or has_locked(p[2])
    if k == 'try': return has_locked(p[1])
    return False

def lock_depth(p):
    k = p[0]
    if k == 'locked': return 1 + lock_depth(p[2])
    if k == 'seq': return max(lock_depth(p[1]), lock_depth(p[2]))
    if k == 'try': return lock_depth(p[1])
    return 0

_BY_SIZE = {}
def progs_of_size(n):
    """All programs of exactly size n over the exhaustive alphabet; Seq right-nested."""
    if n in _BY_SIZE: return _BY_SIZE[n]
    if n == 1:
        out = [('ret',), ('raise', 1), ('req', 2, 'running')]
    else:
        out = []
        for q in progs_of_size(n - 1):
            out += [('locked', 'running', q), ('locked', 'candidate', q), ('try', q)]
        for a in range(1, n - 1):
            for p in progs_of_size(a):
                if p[0] == 'seq': continue
                for q in progs_of_size(n - 1 - a):
                    out.append(('seq', p, q))
    _BY_SIZE[n] = out
    return out

def random_prog(rng, n):
    if n <= 1:
        r = rng.random()
        if r < 0.25: return ('ret',)
        if r < 0.5: return ('raise', rng.randrange(1, 4))
        return ('req', rng.choice([0, 1, 2, 2]), rng.choice(DATASTORES))
    r = rng.random()
    if r < 0.45: return ('locked', rng.choice(DATASTORES), random_prog(rng, n - 1))
    if r < 0.6: return ('try', random_prog(rng, n - 1))
    if n < 3: return random_prog(rng, 1)
    a = rng.randrange(1, n - 1)
    return ('seq', random_prog(rng, a), random_prog(rng, n - 1 - a))

def enc_prog(p):
    k = p[0]
    if k == 'ret': return [0]
    if k == 'raise': return [1, p[1]]
    if k == 'req': return [2, p[1], p[2].encode()]
    if k == 'seq': return [3, enc_prog(p[1]), enc_prog(p[2])]
    if k == 'locked': return [4, p[1].encode(), enc_prog(p[2])]
    return [5, enc_prog(p[1])]

def tup(p):
    return tuple(tup(x) if isinstance(x, list) else x for x in p) if isinstance(p, (list, tuple)) else p

# ------------------------------------------------------------------ compile to Python source
def compile_prog(p):
    """Source of `def main(m, L, BodyErr)`; each Locked becomes a real `with m.locked(t):` block inside its own
    function (CPython allows only 20 statically nested blocks), instrumented with marks in the log L."""
    funcs, counter = [], [0]
    def stmts(p, ind, out):
        pad = '    ' * ind
        k = p[0]
        if k == 'ret': out.append(pad + 'pass')
        elif k == 'raise': out.append(pad + 'raise BodyErr.pick(%d)(%d)' % (p[1], p[1]))
        elif k == 'req':
            if p[1] == 0: out.append(pad + 'm.lock(target=%r)' % p[2])
            elif p[1] == 1: out.append(pad + 'm.unlock(target=%r)' % p[2])
            else: out.append(pad + 'm.get_config(source=%r)' % p[2])
        elif k == 'seq':
            stmts(p[1], ind, out); stmts(p[2], ind, out)
        elif k == 'try':
            out.append(pad + 'try:'); stmts(p[1], ind + 1, out)
            out.append(pad + 'except Exception:'); out.append(pad + '    pass')
        else:
            counter[0] += 1; cid = counter[0]
            f = ['def ctx_%d():' % cid,
                 '    L.append(("attempt", %d, %r))' % (cid, p[1]),
                 '    try:',
                 '        with m.locked(%r):' % p[1],
                 '            L.append(("body_start", %d))' % cid,
                 '            try:']
            stmts(p[2], 4, f)
            f += ['            except BaseException as _e:',
                  '                L.append(("body_end", %d, _e)); raise' % cid,
                  '            else:',
                  '                L.append(("body_end", %d, None))' % cid,
                  '    except BaseException as _e:',
                  '        L.append(("left", %d, _e)); raise' % cid,
                  '    else:',
                  '        L.append(("left", %d, None))' % cid]
            funcs.append('\n'.join('    ' + l for l in f))
            out.append(pad + 'ctx_%d()' % cid)
    body = []
    stmts(p, 1, body)
    return 'def main(m, L, BodyErr):\n' + '\n'.join(funcs) + ('\n' if funcs else '') + '\n'.join(body) + '\n'

_CODE = {}
def compiled(p):
    key = tup(p)
    if key not in _CODE:
        ns = {}
        exec(compile(compile_prog(p), '<prog>', 'exec'), ns)
        _CODE[key] = ns['main']
        if len(_CODE) > 200000: _CODE.clear()
    return _CODE[key]

# ------------------------------------------------------------------ implementation run
def _transport_error():
    from ncclient.transport.errors import TransportError
    return TransportError

class BodyErr(Exception):
    """The body's own exception. Exceptions built WITHOUT arguments (`raise Boom()`) are as legal as ones with: odd
    codes carry no args, even codes carry one."""
    def __init__(self, code):
        Exception.__init__(self, *(() if code % 2 else (code,)))
        self.code = code

_BTE = []
def body_exc_class(code):
    """Every third body exception is (also) a TransportError that has nothing to do with the locking session - e.g. another
    device's connection dropped inside the with-block: the datastore must still be unlocked."""
    if code % 3 != 2: return BodyErr
    if not _BTE:
        TE = _transport_error()
        class BodyTransportErr(BodyErr, TE):
            def __init__(self, code):
                BodyErr.__init__(self, code)
        _BTE.append(BodyTransportErr)
    return _BTE[0]
BodyErr.pick = staticmethod(body_exc_class)

def answer_errors(a, i):
    """entry of an answer script -> list of (severity, message); messages carry the request index"""
    return [(s, '%s%d' % (m, i)) for s, m in ANS[a]]

def o_exempt(pats, msg):
    import re
    t = 'no error given' if msg is None else msg.lower().strip()
    for p in pats:
        p = p.lower(); lead = p.startswith('*'); p = p[1:] if lead else p
        trail = p.endswith('*'); p = p[:-1] if trail else p
        if re.fullmatch(('.*' if lead else '') + re.escape(p) + ('.*' if trail else ''), t, re.S): return True
    return False

def refusing(errs, pats):
    """C06 reading of 'answered with an error' under RaiseMode.ERRORS"""
    return bool(errs) and any(s == 'error' for s, _ in errs) and not o_exempt(pats, errs[0][1])

INFO = ['', '<error-info><session-id>0</session-id></error-info>', '<error-info><session-id>12</session-id></error-info>',
        '<error-info><session-id> 0 </session-id></error-info>', '<error-info><session-id>00</session-id><bad-element>x</bad-element></error-info>']
_ENV = {}
def _env(mode, pats):
    """One Manager over one fake session per (mode, patterns); the scripted server reads its per-run state from `st`."""
    key = (mode, tuple(pats))
    if key in _ENV: return _ENV[key]
    from ncclient import manager
    from harness.fakesession_rpc import make_session, parse_request, BASE
    st = dict(L=None, n=0, script=[])
    def server(msg):
        mid, op, tgt = parse_request(msg)
        i = st['n']; st['n'] += 1
        script = st['script']
        errs = answer_errors(script[i], i) if i < len(script) else []
        st['L'].append(('req', op, tgt, refusing(errs, pats)))
        if errs:
            # RFC 6241 7.5: a lock-denied error names the holder's session, 0 for a holder that is no NETCONF session
            info = INFO[(i + len(script)) % len(INFO)]
            body = ''.join('<rpc-error><error-type>protocol</error-type><error-tag>lock-denied</error-tag>%s<error-message>%s</error-message>%s</rpc-error>'
                           % ('' if s is None else '<error-severity>%s</error-severity>' % s, m, info) for s, m in errs)
        else:
            body = '<data/>' if op == 'get-config' else '<ok/>'
        return ['<rpc-reply xmlns="%s" message-id="%s">%s</rpc-reply>' % (BASE, mid, body)]
    dh = manager.make_device_handler(None, list(pats))
    s = make_session(dh, server)
    m = manager.Manager(s, dh, raise_mode=mode)
    _ENV[key] = (m, st)
    return _ENV[key]

def impl_run(case):
    from ncclient.operations import RPCError
    p, script, mode, pats = case['prog'], case['answers'], case['mode'], case['pats']
    m, st = _env(mode, pats)
    L = []
    st['L'] = L; st['n'] = 0; st['script'] = script
    # an application that switched the manager to asynchronous mode earlier (to pipeline requests) and then enters a
    # with-block: lock and unlock are synchronous whatever the manager's mode (only for programs that make no request of their own)
    m.async_mode = bool(case.get('async')) and not has_req(p)
    try:
        compiled(p)(m, L, BodyErr)
        res = ['normal']; exc = None
    except BodyErr as e:
        res = ['body', e.code]; exc = e
    except RPCError as e:
        res = ['rpc', 1 if e.errlist is None else 2, e.severity or '', e.message or '', 1 if e.errlist is None else len(e.errlist)]; exc = e
    except BaseException as e:
        res = ['other', type(e).__name__, str(e)[:200]]; exc = e
    finally:
        m.async_mode = False
    wire = [[op, tgt] for tag, op, tgt, *_ in [x for x in L if x[0] == 'req']]
    return dict(wire=wire, result=res, log=L, exc=exc, n_requests=st['n'])

# ------------------------------------------------------------------ the property sentence on the log
def check_property(case, im):
    from ncclient.operations import RPCError
    L = im['log']
    fails = []
    for i, ent in enumerate(L):
        if ent[0] != 'attempt': continue
        cid, t = ent[1], ent[2]
        js = [j for j in range(i + 1, len(L)) if L[j][0] == 'left' and L[j][1] == cid]
        if not js:
            fails.append('context %d on %s never left' % (cid, t)); continue
        j = js[0]; X = L[j][2]; seg = L[i + 1:j]
        if not seg or seg[0][:3] != ('req', 'lock', t):
            fails.append('context %d: first event is not <lock> of %s: %r' % (cid, t, seg[:1])); continue
        if seg[0][3]:          # lock answered with an error
            if len(seg) != 1:
                fails.append('context %d: lock of %s was refused but events follow: %r' % (cid, t, [x[:3] for x in seg[1:]]))
            if not isinstance(X, RPCError):
                fails.append('context %d: lock of %s was refused but the caller saw %r' % (cid, t, X))
            continue
        if len(seg) < 2 or seg[1] != ('body_start', cid):
            fails.append('context %d: body did not start right after the accepted lock of %s' % (cid, t)); continue
        ks = [k for k in range(2, len(seg)) if seg[k][0] == 'body_end' and seg[k][1] == cid]
        if not ks:
            fails.append('context %d: body never ended' % cid); continue
        k = ks[0]; E = seg[k][2]; after = seg[k + 1:]
        if len(after) != 1 or after[0][:3] != ('req', 'unlock', t):
            fails.append('context %d: after the body, expected exactly one <unlock> of %s, saw %r' % (cid, t, [x[:3] for x in after]))
            continue
        if E is not None:
            if X is not E:
                fails.append('context %d: body raised %r but the caller saw %r' % (cid, E, X))
        else:
            if X is not None and not (isinstance(X, RPCError) and after[0][3]):
                fails.append('context %d: body ended normally, unlock accepted, but the caller saw %r' % (cid, X))
            if X is None and after[0][3]:
                pass   # property silent: an unlock failure after a normal body (the model says: raised)
    if im['result'][0] == 'other':
        fails.append('program ended in unexpected %s: %s' % (im['result'][1], im['result'][2]))
    return fails

# ------------------------------------------------------------------ model
def model_call(case):
    return [1, enc_prog(case['prog']), case['mode'], [x.encode() for x in case['pats']],
            [[[[s.encode()] if s is not None else [], [m.encode()]] for s, m in answer_errors(a, i)] for i, a in enumerate(case['answers'])]]

def dec_model(v):
    wire = [[KINDS.get(k, str(k)), t.decode()] for k, t in v[0]]
    r = v[1]
    if r[0] == 0: res = ['normal']
    elif r[0] == 1: res = ['body', r[1]]
    elif r[0] == 2: res = ['rpc', r[3], r[4].decode(), r[5].decode(), r[6]]
    else: res = ['model-unreachable']
    return wire, res

def record(ctx, c, im, label):
    """Property oracle now (needs the live log), keep only what the model comparison needs."""
    ctx.count(c, nontrivial=has_locked(c['prog']))
    ctx.traces += 1
    ctx.hist('block', label); ctx.hist('impl_result', im['result'][0]); ctx.hist('n_requests', im['n_requests'])
    ctx.hist('lock_depth', lock_depth(c['prog'])); ctx.hist('faults', sum(1 for a in c['answers'] if a != 'ok'))
    if ctx.evaluations % 9973 == 1: ctx.sample({'case': c, 'wire': im['wire'], 'result': im['result']})
    for what in check_property(c, im):
        ctx.fail(c, what, sig=None, expected='property C13', actual=dict(wire=im['wire'], result=im['result']))
    return (c, im['wire'], im['result'])

def compare_model(ctx, recs):
    if not ctx.model: return
    for k in range(0, len(recs), 20000):
        chunk = recs[k:k + 20000]
        outs = ctx.model.batch([model_call(c) for c, _, _ in chunk])
        for (c, wire, res), mo in zip(chunk, outs):
            mw, mr = dec_model(mo)
            if mw != wire or mr != res:
                ctx.disagree(c, [mw, mr], [wire, res], 'LockCtx.exec vs real with-blocks (request log, outcome)',
                             theorem='C13_bracket/C13_lock_refused/C13_propagates')

def evaluate(ctx, cases, label):
    compare_model(ctx, [record(ctx, c, impl_run(c), label) for c in cases])

def explore(ctx, p, mode, pats, faults, max_faults, label, recs):
    """Every answer script for the requests the program actually makes, with at most `max_faults` answers other than ok
    (each taken from `faults`), every other request answered ok.  Lazy DFS: a run whose script is exhausted is the run of
    the script padded with ok; later positions are then varied.  Each script is run exactly once."""
    def rec(script, nf):
        c0 = dict(prog=p, answers=script, mode=mode, pats=pats)
        if not has_req(p) and (len(script) + size(p)) % 2: c0['async'] = True
        im = impl_run(c0)
        n = im['n_requests']
        full = script + ['ok'] * (n - len(script))
        recs.append(record(ctx, dict(c0, answers=full), im, label))
        if nf >= max_faults: return
        for j in range(len(script), n):
            for a in faults:
                rec(full[:j] + [a], nf + 1)
    rec([], 0)

def corpus_cases():
    from vlib import paths
    d = os.path.join(paths.CORPUS, ID)
    out = []
    if os.path.isdir(d):
        for f in sorted(os.listdir(d)):
            if f.endswith('.json'): out.append(json.load(open(os.path.join(d, f))))
    return out

def run(ctx):
    rng = ctx.rng
    evaluate(ctx, corpus_cases(), 'corpus')
    thorough = ctx.tier == 'thorough'
    F = ['err', 'warn']
    # (size bound, max non-ok answers, sample size or None = every program of that size)
    plan = ([(3, 99, None), (5, 2, None), (6, 2, 250)] if not thorough else
            [(4, 99, None), (5, 3, None), (6, 2, None), (7, 2, 2000)])
    done = {}
    recs = []
    for N, mf, sample in plan:
        for n in range(1, N + 1):
            if done.get(n, -1) >= mf and sample is None: continue
            ps = progs_of_size(n)
            if sample is not None:
                if n < N or done.get(n, -1) >= mf: continue
                ps = rng.sample(ps, min(sample, len(ps)))
            for p in ps:
                explore(ctx, p, 2, [], F, mf, 'exhaustive' if sample is None else 'sampled-size-%d' % n, recs)
            if sample is None: done[n] = mf
            ctx.hist('programs_explored(size,max_faults,sampled)', '%d,%s,%s' % (n, mf, 'all' if sample is None else len(ps)), len(ps))
    compare_model(ctx, recs)
    ctx.exhaustive = True
    ctx.extra['exhaustive_scope'] = ('every program of size <= %d x every answer script over {ok,error,warning}; every program of size <= %d x every '
                                     'script with <= %d non-ok answers%s' % ((3, 5, 2, '; 250 sampled programs of size 6 x <= 2 non-ok') if not thorough
                                     else (4, 5, 3, '; every program of size 6 and 2000 sampled of size 7 x <= 2 non-ok')))
    # random: bigger programs, explicit lock/unlock requests, all modes, richer answers, exempt patterns
    cases = []
    for _ in range(3000 if ctx.tier == 'quick' else 40000):
        p = random_prog(rng, rng.randrange(2, 15))
        if lock_depth(p) > 6: continue
        k = rng.randrange(0, 12)
        script = [rng.choice(['ok', 'ok', 'ok', 'err', 'warn', 'we', 'ex', 'ew', 'abs']) for _ in range(k)]
        cases.append(dict(prog=p, answers=script, mode=rng.choice([0, 1, 2]), pats=rng.choice([[], [], ['exempt*'], ['*me*', 'zz']])))
        if rng.random() < 0.5 and not has_req(p): cases[-1]['async'] = True
    evaluate(ctx, cases, 'random')

def search(ctx, seeds):
    rng = ctx.rng
    tries = [c for c in seeds if isinstance(c, dict) and 'prog' in c]
    for n in range(1, 6):
        for p in progs_of_size(n):
            if not has_locked(p): continue
            for script in itertools.product(['ok', 'err', 'warn'], repeat=min(4, n)):
                tries.append(dict(prog=p, answers=list(script), mode=2, pats=[]))
    for _ in range(5000):
        p = random_prog(rng, rng.randrange(2, 12))
        tries.append(dict(prog=p, answers=[rng.choice(list(ANS)) for _ in range(rng.randrange(0, 10))], mode=rng.choice([0, 1, 2]),
                          pats=rng.choice([[], ['exempt*']])))
    for c in tries:
        c = dict(c, prog=tup(c['prog']))
        try:
            fs = check_property(c, impl_run(c))
        except Exception as e:
            return dict(case=c, what='harness could not run the program: %r' % e, sig=None, expected=None, actual=None)
        if fs:
            return dict(case=c, what=fs[0], sig=None, expected='property C13', actual=fs)
    return None

def norm_case(c):
    return dict(prog=tup(c['prog']), answers=list(c['answers']), mode=c.get('mode', 2), pats=list(c.get('pats', [])))

def reproduce(finding):
    c = norm_case(finding['witness'])
    return bool(check_property(c, impl_run(c)))

def replay(doc):
    c = norm_case(doc['case'])
    im = impl_run(c)
    fs = check_property(c, im)
    print('program  :\n' + compile_prog(c['prog']))
    print('answers  :', c['answers'], 'mode', c['mode'], 'patterns', c['pats'])
    print('expected : property C13 (lock before body, exactly one unlock of the same datastore after it, body exception propagates, refused lock => no body, no unlock)')
    print('actual   : requests', im['wire'], 'outcome', im['result'])
    for f in fs: print('fails    :', f)
    return not fs
