"""C13 — the lock context manager pairs lock and unlock.
Model: coq/Model/LockCtx.v (on coq/Model/RpcErrors.v); spec: coq/Spec/LockCtxSpec.v; theorems: coq/Props/C13.v.
Programs of the model's `prog` language are compiled to Python source with real `with m.locked(t):` blocks and run on a
real Manager over the fake session of tools/harness/fakesession_rpc.py whose scripted server answers the n-th request with
the n-th entry of an answer script.  Compared: the server-side request log (operation + datastore read from the request
XML with xml.etree) and the caller-visible outcome against the extracted model; and, independently, the property
sentence evaluated on the interleaved log of requests and body start/end marks.
Round 6: (a) an answer-script entry may be a reply SHAPE (children of each rpc-error missing / EMPTY / white space only /
padded / unknown / reordered, pretty-printed replies, several rpc-errors, <ok/> next to a warning) - the model then gets the
reply TREES (read with xml.etree) and computes the rpc-errors itself (RpcErrors.parse_errors); (b) `areq` statements:
ASYNCHRONOUS requests whose RPC object the program drops (or keeps), run on the threaded session of
tools/harness/asyncsession_rpc.py (the library's own Session.run loop) whose in-order server holds the replies back and
delivers them later, at pump points chosen by the case, with gc.collect() before and after.
Round 8: (c) `drop` statements: the connection is lost inside a with-body (ten ways, both sessions), so that the <unlock>
fails at transport level; the body's exception must still be what leaves the with-block (property oracle only)."""
import json, itertools, os
import xml.etree.ElementTree as ET

ID = 'C13'
COQ_ROOTS = ['Props/C13.v', 'GenProps/RpcErrors_consts.v', 'GenProps/LockCtx_consts.v']
RULE = ('programs over Ret | Raise | Req(lock/unlock/get-config, datastore) | Seq | Locked(datastore, body) | Try, compiled to '
        'real with-blocks; every program of size <= N over the alphabet {pass, raise, get-config} x {locked(running), '
        'locked(candidate), try} x Seq (Seq right-nested, the semantics being associative) is run against every answer '
        'script over {ok, error, warning} for the requests it makes: all scripts for N <= 3 (quick) / 4 (thorough), scripts with '
        'at most 2 (quick) / 3 (thorough) non-ok answers for N <= 5, at most 2 for N = 6 (thorough: all programs; quick: 40 '
        'sampled) and 2000 sampled programs of size 7 (thorough); manager mode ALL; plus random '
        'programs up to size 14 with explicit lock/unlock requests, four datastore names, modes NONE/ERRORS/ALL, answers '
        'incl. warning+error and exempt messages with a user exempt pattern. A case is (program, answer script, mode, '
        'patterns); non-trivial = contains a Locked. Reply shapes: every shape of a 40-odd alphabet (warning / error / mixed x '
        'children empty, white-space-only, padded, missing, unknown, reordered, pretty-printed, two errors, <ok/>+warning) at '
        'every request position of 9 small programs, every pair (lock shape, unlock shape) for `with locked: pass`, random '
        'shapes in the random block. Asynchronous bodies: every body of <= 3 statements over {pass, raise, get-config, '
        'areq(manager async_mode, dropped), areq(RPC object, dropped), areq(kept)} inside one or two lock contexts x '
        'delivery schedules (reply held until the next synchronous request / delivered right after the request / all) x '
        'answer faults, on a threaded session with a garbage collection between statements; plus random ones. '
        'Re-entered context objects: `R = m.locked(t)` kept and entered 2 or 3 times in sequence (every combination of entry '
        'bodies over {pass, raise, get-config} and caught / not caught; alone, inside another context, with nested contexts in '
        'the entries, before / after a fresh context) x every answer script with <= 2 (thorough: 3) non-ok answers, every reply '
        'shape on the first and on the second entry\'s lock; `reuse` also in the random programs. Device profiles: every '
        'profile module of ncclient/devices (14) x {all scripts over ok/error/warning/warning+error for a body with a request '
        'and a raising body, a re-entered context object, every reply shape on the lock and on the unlock, random programs}. '
        'Connection lost inside a with-body (`drop`): 10 ways (peer closed / session closed by the application / unlock answered '
        'by EOF / transport write raises OSError on the threaded session; not connected, send() raising TimeoutExpiredError, '
        'OSError, SessionCloseError, RuntimeError, OperationError on the synchronous one) x 12 bodies (then raise - 3 classes '
        'of body exception -, then return, then a request on the dead session, after an answered request / a caught error) x 7 '
        'contexts (single, nested, caught, outer body ending normally, a later context entered on the dead session, re-entered '
        'object) x answer scripts x rotating device profiles, plus random programs with a leaf replaced by a drop; oracle only '
        '(no model): what leaves the with-block is the body\'s exception, at most one unlock reaches the peer.')
ASSUMES = ['a severity is "error" when its text is exactly `error` (C06 reading; a padded severity, which the schema does not allow, is none)',
           'the server answers in the order of the requests (RFC 6241 pipelining): the reply to an asynchronous request never '
           'arrives after the reply to a later synchronous one',
           'the n-th request of a session is answered from the n-th script entry (the server oracle of the model is a function of the '
           'request history; a script is one such function)',
           '"the lock request is answered with an error" is read through C06: the reply makes Lock raise under RaiseMode.ERRORS']
TRUSTED = ['modelled, not verified: the with-statement protocol of CPython (__enter__/__exit__, exception propagation), lxml']

DATASTORES = ['running', 'candidate', 'startup', 'x-store']
KINDS = {0: 'lock', 1: 'unlock', 2: 'get-config'}
ANS = {'ok': [], 'err': [('error', 'e')], 'warn': [('warning', 'w')], 'we': [('warning', 'w'), ('error', 'e')],
       'ex': [('error', 'Exempt me')], 'ew': [('error', 'e'), ('warning', 'w')], 'abs': [(None, 'nosev')],
       'vl': [('error', 'VLAN with the same name exists ')]}     # a message the nexus profile itself exempts

# ------------------------------------------------------------------ programs
# ('areq', kind, datastore, how): an asynchronous request; how 0 = through the manager switched to async_mode, result
# dropped; 1 = an RPC object built with async_mode=True, dropped; 2 = through the manager, the RPC object is kept
# ('reuse', datastore, [[caught, body], ...]): ONE context object `R = m.locked(datastore)` kept and entered once per
# entry, one after the other (`with R: body`); caught = 1: that with-statement stands in try / except Exception: pass
# (a retry loop).  Model: LockCtx.Reuse.
# ('drop', how, code): the CONNECTION IS LOST at this point of the program (inside a with-body: while the lock is held), then
# - code > 0 - the body raises its own exception BodyErr(code); code 0: the program goes on.  The <unlock> of every context
# that is open at that point then fails AT TRANSPORT LEVEL (it cannot be sent, is not answered, send() raises).  how:
#   threaded session: 'eof' the peer closed (the session thread noticed: Session.send raises TransportError 'Not connected'),
#     'close' the application closed the session in the body, 'eof-on-next' the peer answers the next request - the unlock -
#     by closing the connection (SessionCloseError through the listener's errback), 'wr-oserr' the next transport write
#     raises OSError (delivered through the errback);
#   synchronous session: 's-te' not connected any more (TransportError from Session.send, nothing sent), and send() itself
#     raising - after the peer got the request - 's-timeout' TimeoutExpiredError (an unlock that is never answered: the 30 s
#     of LockContext's own RPC objects are not waited for), 's-oserr' OSError, 's-sce' SessionCloseError, 's-rt' RuntimeError,
#     's-op' a bare OperationError.
# Not in the Coq model (which has no connection loss): these cases are judged by the property oracle only.
WIRE_HOWS = ['eof', 'close', 'eof-on-next', 'wr-oserr']
SYNC_HOWS = ['s-te', 's-timeout', 's-oserr', 's-sce', 's-rt', 's-op']

def drops(p):
    k = p[0]
    if k == 'drop': return [p[1]]
    if k == 'seq': return drops(p[1]) + drops(p[2])
    if k == 'try': return drops(p[1])
    if k == 'locked': return drops(p[2])
    if k == 'reuse': return [h for b in entries(p) for h in drops(b)]
    return []

def has_drop(p):
    return bool(drops(p))

def entries(p):
    return [e[1] for e in p[2]]

def size(p):
    k = p[0]
    if k in ('ret', 'raise', 'req', 'areq', 'drop'): return 1
    if k == 'reuse': return 1 + sum(1 + size(b) for b in entries(p))
    if k == 'seq': return 1 + size(p[1]) + size(p[2])
    if k == 'locked': return 1 + size(p[2])
    return 1 + size(p[1])

def has_req(p):
    k = p[0]
    if k == 'req': return True
    if k in ('seq',): return has_req(p[1]) or has_req(p[2])
    if k == 'try': return has_req(p[1])
    if k in ('ret', 'raise', 'areq', 'drop'): return False
    if k == 'reuse': return any(has_req(b) for b in entries(p))
    return has_req(p[2])

def count_areq(p):
    k = p[0]
    if k == 'areq': return 1
    if k == 'seq': return count_areq(p[1]) + count_areq(p[2])
    if k == 'try': return count_areq(p[1])
    if k == 'locked': return count_areq(p[2])
    if k == 'reuse': return sum(count_areq(b) for b in entries(p))
    return 0

def has_areq(p):
    k = p[0]
    if k == 'areq': return True
    if k == 'seq': return has_areq(p[1]) or has_areq(p[2])
    if k == 'try': return has_areq(p[1])
    if k == 'locked': return has_areq(p[2])
    if k == 'reuse': return any(has_areq(b) for b in entries(p))
    return False

def has_locked(p):
    k = p[0]
    if k in ('locked', 'reuse'): return True
    if k == 'seq': return has_locked(p[1]) or has_locked(p[2])
    if k == 'try': return has_locked(p[1])
    return False

def lock_depth(p):
    k = p[0]
    if k == 'locked': return 1 + lock_depth(p[2])
    if k == 'seq': return max(lock_depth(p[1]), lock_depth(p[2]))
    if k == 'try': return lock_depth(p[1])
    if k == 'reuse': return 1 + max([lock_depth(b) for b in entries(p)] + [0])
    return 0

def has_reuse(p):
    k = p[0]
    if k == 'reuse': return True
    if k == 'seq': return has_reuse(p[1]) or has_reuse(p[2])
    if k == 'try': return has_reuse(p[1])
    if k == 'locked': return has_reuse(p[2])
    return False

_BY_SIZE = {}
def progs_of_size(n):
    """All programs of exactly size n over the exhaustive alphabet; Seq right-nested."""
    if n in _BY_SIZE: return _BY_SIZE[n]
    if n == 1:
        out = [('ret',), ('raise', 1), ('req', 2, 'running')]
    else:
        out = []
        for q in progs_of_size(n - 1):
            out += [('locked', 'running', q), ('locked', 'candidate', q), ('try', q)]
        for a in range(1, n - 1):
            for p in progs_of_size(a):
                if p[0] == 'seq': continue
                for q in progs_of_size(n - 1 - a):
                    out.append(('seq', p, q))
    _BY_SIZE[n] = out
    return out

def random_prog(rng, n, areq=False):
    if n <= 1:
        r = rng.random()
        if areq and rng.random() < 0.4: return ('areq', rng.choice([0, 1, 2, 2]), rng.choice(DATASTORES), rng.choice([0, 0, 1, 1, 2]))
        if r < 0.25: return ('ret',)
        if r < 0.5: return ('raise', rng.randrange(1, 4))
        return ('req', rng.choice([0, 1, 2, 2]), rng.choice(DATASTORES))
    r = rng.random()
    if n >= 3 and rng.random() < 0.1:          # one context object entered 2-3 times
        k = rng.choice([2, 2, 3]); left = max(k, n - 1 - k); ent = []
        for i in range(k):
            a = max(1, left // (k - i)) if i < k - 1 else max(1, left); left -= a
            ent.append([int(rng.random() < 0.75), random_prog(rng, a, areq)])
        return ('reuse', rng.choice(DATASTORES), ent)
    if r < 0.45: return ('locked', rng.choice(DATASTORES), random_prog(rng, n - 1, areq))
    if r < 0.6: return ('try', random_prog(rng, n - 1, areq))
    if n < 3: return random_prog(rng, 1, areq)
    a = rng.randrange(1, n - 1)
    return ('seq', random_prog(rng, a, areq), random_prog(rng, n - 1 - a, areq))

def enc_prog(p):
    k = p[0]
    if k == 'ret': return [0]
    if k == 'raise': return [1, p[1]]
    if k == 'req': return [2, p[1], p[2].encode()]
    if k == 'seq': return [3, enc_prog(p[1]), enc_prog(p[2])]
    if k == 'locked': return [4, p[1].encode(), enc_prog(p[2])]
    if k == 'areq': return [6, p[1], p[2].encode()]
    if k == 'reuse': return [7, p[1].encode(), [[int(bool(c)), enc_prog(b)] for c, b in p[2]]]
    return [5, enc_prog(p[1])]

def tup(p):
    return tuple(tup(x) for x in p) if isinstance(p, (list, tuple)) else p

# ------------------------------------------------------------------ compile to Python source
def compile_prog(p):
    """Source of `def main(m, L, BodyErr, env)`; each Locked becomes a real `with m.locked(t):` block inside its own
    function (CPython allows only 20 statically nested blocks), instrumented with marks in the log L."""
    funcs, counter, slots = [], [0], [0]
    def stmts(p, ind, out):
        pad = '    ' * ind
        k = p[0]
        if k == 'ret': out.append(pad + 'pass')
        elif k == 'raise': out.append(pad + 'raise BodyErr.pick(%d)(%d)' % (p[1], p[1]))
        elif k == 'req':
            if p[1] == 0: out.append(pad + 'm.lock(target=%r)' % p[2])
            elif p[1] == 1: out.append(pad + 'm.unlock(target=%r)' % p[2])
            else: out.append(pad + 'm.get_config(source=%r)' % p[2])
        elif k == 'areq':
            arg = '%s=%r' % ('source' if p[1] == 2 else 'target', p[2])
            if p[3] == 1:      # an RPC object used directly; nothing keeps it
                call = 'env.ops[%d](env.session, env.dh, async_mode=True, raise_mode=m.raise_mode).request(%s)' % (p[1], arg)
            else:
                call = 'm.%s(%s)' % ({0: 'lock', 1: 'unlock', 2: 'get_config'}[p[1]], arg)
                if p[3] == 2: call = 'env.kept.append(%s)' % call
            if p[3] == 1:
                out += [pad + 'env.hold()', pad + 'try:', pad + '    ' + call, pad + 'finally:', pad + '    env.pump_next()']
            else:
                out += [pad + 'env.hold()', pad + '_am = m.async_mode', pad + 'm.async_mode = True',
                        pad + 'try:', pad + '    ' + call,
                        pad + 'finally:', pad + '    m.async_mode = _am', pad + '    env.pump_next()']
        elif k == 'drop':
            out.append(pad + 'L.append(("lost", %r)); env.drop(%r)' % (p[1], p[1]))
            if p[2]: out.append(pad + 'raise BodyErr.pick(%d)(%d)' % (p[2], p[2]))
        elif k == 'seq':
            stmts(p[1], ind, out); stmts(p[2], ind, out)
        elif k == 'try':
            out.append(pad + 'try:'); stmts(p[1], ind + 1, out)
            out.append(pad + 'except Exception:'); out.append(pad + '    pass')
        elif k == 'reuse':
            slots[0] += 1; slot = slots[0]
            out.append(pad + 'R[%d] = m.locked(%r)' % (slot, p[1]))        # ONE context object, kept
            for caught, b in p[2]:
                e = ('locked', p[1], b, slot)
                stmts(('try', e) if caught else e, ind, out)
        else:
            counter[0] += 1; cid = counter[0]
            f = ['def ctx_%d():' % cid,
                 '    L.append(("attempt", %d, %r))' % (cid, p[1]),
                 '    try:',
                 ('        with m.locked(%r):' % p[1]) if len(p) < 4 else ('        with R[%d]:' % p[3]),
                 '            L.append(("body_start", %d))' % cid,
                 '            try:']
            stmts(p[2], 4, f)
            f += ['            except BaseException as _e:',
                  '                L.append(("body_end", %d, _e)); raise' % cid,
                  '            else:',
                  '                L.append(("body_end", %d, None))' % cid,
                  '    except BaseException as _e:',
                  '        L.append(("left", %d, _e)); raise' % cid,
                  '    else:',
                  '        L.append(("left", %d, None))' % cid]
            funcs.append('\n'.join('    ' + l for l in f))
            out.append(pad + 'ctx_%d()' % cid)
    body = []
    stmts(p, 1, body)
    return 'def main(m, L, BodyErr, env=None):\n    R = {}\n' + '\n'.join(funcs) + ('\n' if funcs else '') + '\n'.join(body) + '\n'

_CODE = {}
def compiled(p):
    key = tup(p)
    if key not in _CODE:
        ns = {}
        exec(compile(compile_prog(p), '<prog>', 'exec'), ns)
        _CODE[key] = ns['main']
        if len(_CODE) > 200000: _CODE.clear()
    return _CODE[key]

# ------------------------------------------------------------------ implementation run
def _transport_error():
    from ncclient.transport.errors import TransportError
    return TransportError

class BodyErr(Exception):
    """The body's own exception. Exceptions built WITHOUT arguments (`raise Boom()`) are as legal as ones with: odd
    codes carry no args, even codes carry one."""
    def __init__(self, code):
        Exception.__init__(self, *(() if code % 2 else (code,)))
        self.code = code

_BTE = []
def body_exc_class(code):
    """Every third body exception is (also) a TransportError that has nothing to do with the locking session - e.g. another
    device's connection dropped inside the with-block: the datastore must still be unlocked."""
    if code % 3 != 2: return BodyErr
    if not _BTE:
        TE = _transport_error()
        class BodyTransportErr(BodyErr, TE):
            def __init__(self, code):
                BodyErr.__init__(self, code)
        _BTE.append(BodyTransportErr)
    return _BTE[0]
BodyErr.pick = staticmethod(body_exc_class)

def answer_errors(a, i):
    """entry of an answer script (a name of ANS) -> list of (severity, message); messages carry the request index"""
    return [(s, '%s%d' % (m, i)) for s, m in ANS[a]]

# ---- reply shapes.  A script entry is a name of ANS or ['sh', pp, ok, [rpc-error...]] with rpc-error = [[child, text]...]:
# child = local name (base namespace; 'v:x' = element x of a vendor namespace), text None = EMPTY element <child/>,
# '' = <child></child>, '@' in a text = the request index; the text of error-info is an XML fragment; pp = pretty-printed
# (line breaks and indentation between the elements); ok = an <ok/> child in front (only generated next to warnings).
BASE_NS = 'urn:ietf:params:xml:ns:netconf:base:1.0'
QN = lambda l: '{%s}%s' % (BASE_NS, l)

def is_shape(a):
    return not isinstance(a, str)

def xml_escape(t):
    return t.replace('&', '&amp;').replace('<', '&lt;').replace('>', '&gt;')

def render_child(name, text, i):
    ns = ''
    if name.startswith('v:'): ns = ' xmlns:v="urn:vendor:ext"'
    if text is None: return '<%s%s/>' % (name, ns)
    text = text.replace('@', str(i))
    return '<%s%s>%s</%s>' % (name, ns, text if name == 'error-info' else xml_escape(text), name)

def render_body(a, i, op, nscript=0):
    """the children of <rpc-reply> for script entry a given to the i-th request"""
    if not is_shape(a):
        errs = answer_errors(a, i)
        if not errs: return '<data/>' if op == 'get-config' else '<ok/>'
        # RFC 6241 7.5: a lock-denied error names the holder's session, 0 for a holder that is no NETCONF session
        info = INFO[(i + nscript) % len(INFO)]
        return ''.join('<rpc-error><error-type>protocol</error-type><error-tag>lock-denied</error-tag>%s<error-message>%s</error-message>%s</rpc-error>'
                       % ('' if s is None else '<error-severity>%s</error-severity>' % s, m, info) for s, m in errs)
    _, pp, ok, errs = a
    nl, nl2 = ('\n  ', '\n    ') if pp else ('', '')
    out = (nl + '<ok/>') if ok else ''
    for e in errs:
        out += nl + '<rpc-error>' + ''.join(nl2 + render_child(n, t, i) for n, t in e) + nl + '</rpc-error>'
    return out + ('\n' if pp else '')

def read_reply(xml):
    """the independent reader (xml.etree) on a reply as sent: (has <ok/>, [(severity, message) per rpc-error], tree)"""
    root = ET.fromstring(xml.encode('utf-8'))
    errs = []
    for e in root.iter(QN('rpc-error')):
        sev = msg = None
        for k in e:
            if k.tag == QN('error-severity'): sev = k.text
            elif k.tag == QN('error-message'): msg = k.text
        errs.append((sev, msg))
    return any(k.tag == QN('ok') for k in root), errs, root

def node_val(e):
    """a tree for the model runner (Glue/C13_glue.v fn 2)"""
    return [e.tag.encode(), [[k.encode(), v.encode()] for k, v in sorted(e.attrib.items())],
            [e.text.encode()] if e.text is not None else [], b'', [node_val(k) for k in e]]

def o_exempt(pats, msg):
    import re
    t = 'no error given' if msg is None else msg.lower().strip()
    for p in pats:
        p = p.lower(); lead = p.startswith('*'); p = p[1:] if lead else p
        trail = p.endswith('*'); p = p[:-1] if trail else p
        if re.fullmatch(('.*' if lead else '') + re.escape(p) + ('.*' if trail else ''), t, re.S): return True
    return False

def refusing(errs, pats):
    """C06 reading of 'answered with an error' under RaiseMode.ERRORS"""
    return bool(errs) and any(s == 'error' for s, _ in errs) and not o_exempt(pats, errs[0][1])

INFO = ['', '<error-info><session-id>0</session-id></error-info>', '<error-info><session-id>12</session-id></error-info>',
        '<error-info><session-id> 0 </session-id></error-info>', '<error-info><session-id>00</session-id><bad-element>x</bad-element></error-info>']

def make_server(st, pats):
    """The scripted peer: answers the n-th request of a run from the n-th script entry, logs (operation, datastore) read
    from the request and - from the reply it is about to send, read back with xml.etree - whether that reply is an error
    answer in the sense of the property (`refusing`)."""
    from harness.fakesession_rpc import parse_request, BASE
    def server(msg):
        mid, op, tgt = parse_request(msg)
        i = st['n']; st['n'] += 1
        script = st['script']
        a = script[i] if i < len(script) else 'ok'
        reply = '<rpc-reply xmlns="%s" message-id="%s">%s</rpc-reply>' % (BASE, mid, render_body(a, i, op, len(script)))
        if is_shape(a):
            has_ok, errs, _ = read_reply(reply)
            ref = (not has_ok) and refusing(errs, pats)
        else:
            ref = refusing(answer_errors(a, i), pats)
        st['L'].append(('req', op, tgt, ref))
        st['replies'].append(reply)
        if st.get('down'): raise send_failure(st['down'])        # synchronous session only: send() itself fails
        return [reply]
    return server

# the device profiles (`device_params={'name': ...}`): the modules of ncclient/devices.  A case names one with the key
# 'profile' (absent = default).  Profiles differ in what RPC._request RETURNS (junos, alu, sros: transform_reply() ->
# an NCElement instead of the RPCReply), in the reply filter (perform_qualify_check), in handle_raw_dispatch and in their
# own exempt messages (nexus) - none of which is mentioned by the property: the with-block behaves the same under each.
PROFILES = ['default', 'alu', 'ciena', 'csr', 'ericsson', 'h3c', 'hpcomware', 'huawei', 'huaweiyang', 'iosxe', 'iosxr',
            'junos', 'nexus', 'sros']

def profiles_present():
    """the profile modules the tree under test really has (so that a new profile is run too)"""
    import pkgutil, ncclient.devices
    found = sorted(m.name for m in pkgutil.iter_modules(ncclient.devices.__path__) if not m.name.startswith('_'))
    return ['default'] + [x for x in found if x != 'default']

def send_failure(how):
    from ncclient.transport.errors import SessionCloseError
    from ncclient.operations.errors import TimeoutExpiredError, OperationError
    return {'s-timeout': lambda: TimeoutExpiredError('ncclient timed out while waiting for an rpc reply.'),
            's-oserr': lambda: BrokenPipeError(32, 'Broken pipe'), 's-sce': lambda: SessionCloseError(b''),
            's-rt': lambda: RuntimeError('cannot schedule new futures after shutdown'),
            's-op': lambda: OperationError('operation failed')}[how]()

class SyncDrop:
    """`env` of a program with `drop` statements on the synchronous session (shared between runs: restored after the run)"""
    def __init__(self, m, st):
        self.session, self.st = m._session, st
    def drop(self, how):
        if how == 's-te': self.session._connected = False
        elif how in SYNC_HOWS: self.st['down'] = how
        else: raise ValueError('drop %r needs the threaded session' % (how,))
    def restore(self):
        self.session._connected = True
        self.st['down'] = None

_DH = {}
def device_handler(pats, profile=None):
    key = (tuple(pats), profile or 'default')
    if key not in _DH:
        from ncclient import manager
        _DH[key] = manager.make_device_handler(None if not profile or profile == 'default' else {'name': profile}, list(pats))
    return _DH[key]

def eff_pats(case):
    """the exempt patterns in force: the profile's own list (a constant of the profile, read from its class) + the user's"""
    prof = case.get('profile')
    if not prof or prof == 'default': return list(case['pats'])
    return list(type(device_handler([], prof))._EXEMPT_ERRORS) + list(case['pats'])

_ENV = {}
def _env(mode, pats, profile=None):
    """One Manager over one synchronous fake session per (mode, patterns, profile); the scripted server reads its per-run state from `st`."""
    key = (mode, tuple(pats), profile or 'default')
    if key in _ENV: return _ENV[key]
    from ncclient import manager
    from harness.fakesession_rpc import make_session
    st = dict(L=None, n=0, script=[], replies=[])
    dh = device_handler(pats, profile)
    s = make_session(dh, make_server(st, eff_pats(dict(pats=pats, profile=profile))))
    m = manager.Manager(s, dh, raise_mode=mode)
    _ENV[key] = (m, st)
    return _ENV[key]

WIRE_TIMEOUT = 3        # seconds a synchronous request waits on the threaded session (a lost reply is a failure, not a hang)
def _wire_env(mode, pats, case):
    """A fresh threaded session (tools/harness/asyncsession_rpc.py) + Manager for ONE run."""
    from ncclient import manager
    from ncclient.operations import Lock, Unlock, GetConfig
    from harness.asyncsession_rpc import AsyncEnv
    st = dict(L=None, n=0, script=[], replies=[])
    dh = device_handler(pats, case.get('profile'))
    env = AsyncEnv(dh, make_server(st, eff_pats(case)), coalesce=bool(case.get('coalesce')))
    env.ops = {0: Lock, 1: Unlock, 2: GetConfig}
    env.schedule = list(case.get('deliver') or [])
    m = manager.Manager(env.session, dh, timeout=WIRE_TIMEOUT, raise_mode=mode)
    return m, st, env

def on_wire(case):
    return bool(case.get('wire')) or has_areq(case['prog']) or any(h in WIRE_HOWS for h in drops(case['prog']))

def impl_run(case):
    from ncclient.operations import RPCError
    p, script, mode, pats = case['prog'], case['answers'], case['mode'], case['pats']
    env = None
    sync_drop = None
    if on_wire(case): m, st, env = _wire_env(mode, pats, case)
    else:
        m, st = _env(mode, pats, case.get('profile'))
        if has_drop(p): sync_drop = SyncDrop(m, st)
    L = []
    st['L'] = L; st['n'] = 0; st['script'] = script; st['replies'] = []; st['down'] = None
    # an application that switched the manager to asynchronous mode earlier (to pipeline requests) and then enters a
    # with-block: lock and unlock are synchronous whatever the manager's mode (only for programs that make no SYNCHRONOUS
    # request of their own: those would become asynchronous ones)
    m.async_mode = bool(case.get('async')) and not has_req(p)
    sess = None
    try:
        compiled(p)(m, L, BodyErr, env if env is not None else sync_drop)
        res = ['normal']; exc = None
    except BodyErr as e:
        res = ['body', e.code]; exc = e
    except RPCError as e:
        res = ['rpc', 1 if e.errlist is None else 2, e.severity or '', e.message or '', 1 if e.errlist is None else len(e.errlist)]; exc = e
    except BaseException as e:
        res = ['other', type(e).__name__, str(e)[:200]]; exc = e
    finally:
        m.async_mode = False
        if env is not None: sess = env.finish()
        if sync_drop is not None: sync_drop.restore()
    wire = [[op, tgt] for tag, op, tgt, *_ in [x for x in L if x[0] == 'req']]
    return dict(wire=wire, result=res, log=L, exc=exc, n_requests=st['n'], replies=st['replies'], session=sess)

# ------------------------------------------------------------------ the property sentence on the log
def check_property(case, im):
    from ncclient.operations import RPCError
    L = im['log']
    fails = []
    # the connection was lost at that point of the program (`drop`): from there on no request is answered any more
    lost = min([k for k, x in enumerate(L) if x[0] == 'lost'] or [len(L) + 1])
    for i, ent in enumerate(L):
        if ent[0] != 'attempt': continue
        cid, t = ent[1], ent[2]
        js = [j for j in range(i + 1, len(L)) if L[j][0] == 'left' and L[j][1] == cid]
        if not js:
            fails.append('context %d on %s never left' % (cid, t)); continue
        j = js[0]; X = L[j][2]; seg = L[i + 1:j]
        if lost < i:
            # entered on a dead connection: the <lock> cannot be granted, so the body must not run (lock BEFORE the body)
            # and the caller learns; at most the one <lock> reached the peer
            if any(x[:2] == ('body_start', cid) for x in seg):
                fails.append('context %d: the connection was lost before, no <lock> of %s was granted, but the body ran' % (cid, t))
            if X is None or isinstance(X, BodyErr):
                fails.append('context %d: the <lock> of %s could not be done (connection lost) but the caller saw %r' % (cid, t, X))
            if [x[:3] for x in seg] not in ([], [('req', 'lock', t)]):
                fails.append('context %d: connection lost before; expected at most one <lock> of %s, saw %r' % (cid, t, [x[:3] for x in seg]))
            continue
        if not seg or seg[0][:3] != ('req', 'lock', t):
            fails.append('context %d: first event is not <lock> of %s: %r' % (cid, t, seg[:1])); continue
        if seg[0][3]:          # lock answered with an error
            if len(seg) != 1:
                fails.append('context %d: lock of %s was refused but events follow: %r' % (cid, t, [x[:3] for x in seg[1:]]))
            if not isinstance(X, RPCError):
                fails.append('context %d: lock of %s was refused but the caller saw %r' % (cid, t, X))
            continue
        if len(seg) < 2 or seg[1] != ('body_start', cid):
            fails.append('context %d: body did not start right after the accepted lock of %s' % (cid, t)); continue
        ks = [k for k in range(2, len(seg)) if seg[k][0] == 'body_end' and seg[k][1] == cid]
        if not ks:
            fails.append('context %d: body never ended' % cid); continue
        k = ks[0]; E = seg[k][2]; after = seg[k + 1:]
        if i < lost < i + 1 + k:
            # the connection was lost INSIDE this body: the <unlock> fails at transport level (at most it reached the peer,
            # once).  The property's last clause is untouched by that: what leaves the with-block is the body's exception
            if [x[:3] for x in after] not in ([], [('req', 'unlock', t)]):
                fails.append('context %d: connection lost in the body; expected at most one <unlock> of %s after it, saw %r' % (cid, t, [x[:3] for x in after]))
            if E is not None:
                if X is not E:
                    fails.append('context %d: body raised %r (connection lost in the body, the unlock failed with it) but the caller saw %r' % (cid, E, X))
            elif X is None or isinstance(X, BodyErr):
                fails.append('context %d: connection lost in the body, body ended normally, the <unlock> of %s could not be done, but the caller saw %r' % (cid, t, X))
            continue
        if len(after) != 1 or after[0][:3] != ('req', 'unlock', t):
            fails.append('context %d: after the body, expected exactly one <unlock> of %s, saw %r' % (cid, t, [x[:3] for x in after]))
            continue
        if E is not None:
            if X is not E:
                fails.append('context %d: body raised %r but the caller saw %r' % (cid, E, X))
        else:
            if X is not None and not (isinstance(X, RPCError) and after[0][3]):
                fails.append('context %d: body ended normally, unlock accepted, but the caller saw %r' % (cid, X))
            if X is None and after[0][3]:
                pass   # property silent: an unlock failure after a normal body (the model says: raised)
    if im['result'][0] == 'other' and lost > len(L):
        fails.append('program ended in unexpected %s: %s' % (im['result'][1], im['result'][2]))
    se = im.get('session')
    if se is not None:
        # the threaded session: replies to the asynchronous requests of the bodies came in while / after the bodies ran
        if se['stuck']:
            fails.append('threaded session: %s' % '; '.join(se['stuck']))
        if has_locked(case['prog']) and (se['errback'] or not se['connected']) and not se.get('lost'):
            fails.append('the session did not survive the replies to the asynchronous requests of the with-bodies: connected=%s, error broadcast %r'
                         % (se['connected'], se['errback']))
        if se['kept_unanswered'] and not se.get('lost'):
            fails.append('%d of %d asynchronous requests whose RPC object was kept never got their reply' % (se['kept_unanswered'], se['kept']))
    return fails

# ------------------------------------------------------------------ model
def model_call(case, replies=None):
    """fn 1: the rpc-errors of every answer as (severity, message); fn 2 (scripts with reply shapes): the reply TREES, read
    with xml.etree from the replies as sent (requests beyond the script are answered <ok/>: no rpc-error, like a missing entry)"""
    pr, pats = enc_prog(case['prog']), [x.encode() for x in eff_pats(case)]
    if any(is_shape(a) for a in case['answers']):
        return [2, pr, case['mode'], pats, [node_val(read_reply(r)[2]) for r in replies]]
    return [1, pr, case['mode'], pats,
            [[[[s.encode()] if s is not None else [], [m.encode()]] for s, m in answer_errors(a, i)] for i, a in enumerate(case['answers'])]]

def dec_model(v):
    wire = [[KINDS.get(k, str(k)), t.decode()] for k, t in v[0]]
    r = v[1]
    if r[0] == 0: res = ['normal']
    elif r[0] == 1: res = ['body', r[1]]
    elif r[0] == 2: res = ['rpc', r[3], r[4].decode(), r[5].decode(), r[6]]
    else: res = ['model-unreachable']
    return wire, res

def record(ctx, c, im, label):
    """Property oracle now (needs the live log), keep only what the model comparison needs."""
    ctx.count(c, nontrivial=has_locked(c['prog']))
    ctx.traces += 1
    ctx.hist('block', label); ctx.hist('impl_result', im['result'][0]); ctx.hist('n_requests', im['n_requests'])
    ctx.hist('lock_depth', lock_depth(c['prog'])); ctx.hist('faults', sum(1 for a in c['answers'] if a != 'ok'))
    ctx.hist('shaped_answers', sum(1 for a in c['answers'] if is_shape(a)))
    ctx.hist('profile', c.get('profile') or 'default')
    if has_reuse(c['prog']): ctx.hist('reused_context_objects', 'yes')
    if im.get('session') is not None:
        ctx.hist('threaded_session', 'async requests=%d' % count_areq(c['prog']))
    if ctx.evaluations % 9973 == 1: ctx.sample({'case': c, 'wire': im['wire'], 'result': im['result']})
    for what in check_property(c, im):
        ctx.fail(c, what, sig=None, expected='property C13', actual=dict(wire=im['wire'], result=im['result'], session=im.get('session')))
    if has_drop(c['prog']):
        ctx.hist('connection_lost', ','.join(sorted(set(drops(c['prog'])))))
        return None                       # no connection loss in the model: property oracle only
    return (c, im['wire'], im['result'], model_call(c, im['replies']))

def compare_model(ctx, recs):
    if not ctx.model: return
    recs = [r for r in recs if r is not None]
    for k in range(0, len(recs), 20000):
        chunk = recs[k:k + 20000]
        outs = ctx.model.batch([mc for _, _, _, mc in chunk])
        for (c, wire, res, _), mo in zip(chunk, outs):
            mw, mr = dec_model(mo)
            if mw != wire or mr != res:
                ctx.disagree(c, [mw, mr], [wire, res], 'LockCtx.exec vs real with-blocks (request log, outcome)',
                             theorem='C13_bracket/C13_lock_refused/C13_propagates')

def evaluate(ctx, cases, label):
    compare_model(ctx, [record(ctx, c, impl_run(c), label) for c in cases])

def evaluate_threaded(ctx, cases, label):
    """Cases on the threaded session.  Its pumps call gc.collect() between the statements of a program: the (large,
    permanent) heap of this process is kept out of those collections with gc.freeze(), renewed after every case."""
    import gc
    recs = []
    gc.collect(); gc.freeze()
    try:
        for c in cases:
            recs.append(record(ctx, c, impl_run(c), label))
            gc.collect(); gc.freeze()
    finally:
        gc.unfreeze()
        from harness import fakesession_wire
        fakesession_wire.uninstall()
    compare_model(ctx, recs)

def explore(ctx, p, mode, pats, faults, max_faults, label, recs):
    """Every answer script for the requests the program actually makes, with at most `max_faults` answers other than ok
    (each taken from `faults`), every other request answered ok.  Lazy DFS: a run whose script is exhausted is the run of
    the script padded with ok; later positions are then varied.  Each script is run exactly once."""
    def rec(script, nf):
        c0 = dict(prog=p, answers=script, mode=mode, pats=pats)
        if not has_req(p) and (len(script) + size(p)) % 2: c0['async'] = True
        im = impl_run(c0)
        n = im['n_requests']
        full = script + ['ok'] * (n - len(script))
        recs.append(record(ctx, dict(c0, answers=full), im, label))
        if nf >= max_faults: return
        for j in range(len(script), n):
            for a in faults:
                rec(full[:j] + [a], nf + 1)
    rec([], 0)

# ------------------------------------------------------------------ reply shapes
def shape_alphabet():
    """A fixed alphabet of rpc-error reply shapes (name, entry).  Every entry is a LEGAL reply: RFC 6241 4.3 makes
    error-app-tag / error-path / error-message / error-info optional, puts no constraint on their content, allows several
    rpc-errors in one reply and unknown children inside error-info only - unknown / vendor children of rpc-error itself and
    a padded severity are included because servers send them and the client must not fall over them."""
    out = []
    def typ(sev): return [['error-type', 'application'], ['error-tag', 'operation-failed' if sev == 'warning' else 'lock-denied']]
    for sev in ('warning', 'error'):
        c = sev[0]
        S = ['error-severity', sev]; M = ['error-message', c + '@']
        def add(name, errs, pp=0, ok=0): out.append(('%s:%s' % (sev, name), ['sh', pp, ok, errs]))
        add('plain', [typ(sev) + [S, M]])
        add('empty-path', [typ(sev) + [S, ['error-path', None], M]])
        add('empty-app-tag', [typ(sev) + [S, ['error-app-tag', None], M]])
        add('empty-message', [typ(sev) + [S, ['error-message', None]]])
        add('empty-info', [typ(sev) + [S, M, ['error-info', None]]])
        add('empty-type-tag', [[['error-type', None], ['error-tag', None], S, M]])
        add('all-optional-empty', [typ(sev) + [S, ['error-app-tag', None], ['error-path', None], ['error-message', None], ['error-info', None]]])
        add('empty-strings', [typ(sev) + [S, ['error-app-tag', ''], ['error-path', ''], ['error-message', '']]])
        add('space-only', [typ(sev) + [S, ['error-app-tag', ' '], ['error-path', '\n      '], ['error-message', ' \t ']]])
        add('padded-text', [[['error-type', '\n      application\n    '], ['error-tag', ' operation-failed '], S,
                            ['error-path', '\n      /a/b\n    '], ['error-message', '\n      %s@ line one\n      line two\n    ' % c]]])
        add('no-message', [typ(sev) + [S]])
        add('severity-only', [[S]])
        add('unknown-children', [typ(sev) + [['x-note', 'n'], S, ['v:detail', 'd'], ['v:flag', None], M]])
        add('message-first', [[M] + typ(sev) + [['error-path', None], S]])
        add('info-first', [[['error-info', '<session-id>0</session-id>'], S, ['error-app-tag', None]] + typ(sev) + [M]])
        add('pretty', [typ(sev) + [S, M]], pp=1)
        add('pretty-empty', [typ(sev) + [S, ['error-app-tag', None], ['error-path', None], M, ['error-info', None]]], pp=1)
        add('markup-text', [typ(sev) + [S, ['error-path', "/a[b='<1>']"], ['error-message', c + '@ a<b & c>d']]])
        add('two', [typ(sev) + [S, ['error-path', None], M], typ(sev) + [S, ['error-message', None], ['error-app-tag', None]]])
        add('two-pretty', [[S, ['error-message', None]], typ(sev) + [S, ['error-path', None], M]], pp=1)
    W = ['error-severity', 'warning']; E = ['error-severity', 'error']
    def addm(name, errs, pp=0, ok=0): out.append(('mixed:' + name, ['sh', pp, ok, errs]))
    addm('warning-then-error', [typ('warning') + [W, ['error-path', None], ['error-message', 'w@']], typ('error') + [E, ['error-app-tag', None], ['error-message', 'e@']]])
    addm('error-then-warning', [typ('error') + [E, ['error-message', None]], typ('warning') + [W, ['error-path', None]]], pp=1)
    addm('ok-and-warning', [typ('warning') + [W, ['error-path', None], ['error-message', 'w@']]], ok=1)
    addm('ok-and-warning-pretty', [[W, ['error-message', None]]], pp=1, ok=1)
    addm('no-severity', [typ('error') + [['error-message', 'n@'], ['error-path', None]]])
    addm('empty-severity', [typ('error') + [['error-severity', None], ['error-message', 'n@']]])
    addm('padded-severity', [typ('warning') + [['error-severity', '\n      warning\n    '], ['error-message', 'w@']]], pp=1)
    addm('three-warnings', [[W], [W, ['error-message', None]], typ('warning') + [W, ['error-info', None]]])
    return out

def random_shape(rng):
    n = rng.choice([1, 1, 1, 2, 3])
    errs = []
    for _ in range(n):
        e = []
        for name in ['error-type', 'error-tag', 'error-severity', 'error-app-tag', 'error-path', 'error-message', 'error-info']:
            r = rng.random()
            if name == 'error-severity':
                if r < 0.08: continue
                e.append([name, rng.choice(['warning'] * 6 + ['error'] * 5 + [None, '', ' error', 'warning\n', 'info'])])
            elif name == 'error-message':
                if r < 0.25: continue
                e.append([name, rng.choice(['m@', 'm@', 'Exempt me @', ' m@ ', '\n    m@\n  ', None, '', '  ', 'a<b&c @'])])
            elif name == 'error-info':
                if r < 0.6: continue
                e.append([name, rng.choice([None, '', '<session-id>0</session-id>', '<bad-element>x</bad-element><v:x xmlns:v="urn:v"/>', '\n  '])])
            else:
                if r < 0.4: continue
                e.append([name, rng.choice([None, None, '', ' ', 'application', 'in-use', '\n   /a/b\n ', 'x@'])])
        if rng.random() < 0.3: rng.shuffle(e)
        if rng.random() < 0.2: e.insert(rng.randrange(len(e) + 1), [rng.choice(['x-note', 'v:detail']), rng.choice([None, 'u', ' '])])
        errs.append(e)
    warn_only = all(not any(c[0] == 'error-severity' and c[1] == 'error' for c in e) for e in errs)
    return ['sh', int(rng.random() < 0.4), int(warn_only and rng.random() < 0.1), errs]

SHAPE_PROGS = [('locked', 'running', ('ret',)), ('locked', 'candidate', ('raise', 1)), ('locked', 'running', ('req', 2, 'running')),
               ('locked', 'running', ('locked', 'candidate', ('ret',))), ('locked', 'candidate', ('locked', 'running', ('raise', 2))),
               ('try', ('locked', 'running', ('raise', 3))), ('seq', ('locked', 'running', ('ret',)), ('locked', 'candidate', ('ret',))),
               ('seq', ('try', ('locked', 'candidate', ('req', 2, 'candidate'))), ('locked', 'startup', ('ret',))),
               ('locked', 'x-store', ('try', ('req', 0, 'running')))]

def shape_cases(rng, thorough):
    al = shape_alphabet()
    rng_base = rng.randrange(2)
    cases = []
    for p in SHAPE_PROGS:
        for mode in ((0, 1, 2) if thorough else (2,)):
            n = impl_run(dict(prog=p, answers=[], mode=mode, pats=[]))['n_requests']
            for j in range(n):
                for name, sh in al:
                    cases.append(dict(prog=p, answers=['ok'] * j + [sh], mode=mode, pats=[]))
    for k, ((_, a), (_, b)) in enumerate(itertools.product(al, al)):       # lock answer x unlock answer (quick: every other pair, alternating with the seed)
        if not thorough and (k + k // len(al) + rng_base) % 2: continue
        cases.append(dict(prog=SHAPE_PROGS[0], answers=[a, b], mode=2, pats=[]))
    for _ in range(6000 if thorough else 400):             # shapes everywhere, exempt patterns
        p = rng.choice(SHAPE_PROGS)
        cases.append(dict(prog=p, answers=[rng.choice(al)[1] if rng.random() < 0.7 else rng.choice(['ok', 'err', 'warn']) for _ in range(5)],
                          mode=rng.choice([0, 1, 2]), pats=rng.choice([[], ['exempt*'], ['w*'], ['*e1*', 'zz']])))
    return cases

# ------------------------------------------------------------------ one context object entered several times
RBODIES = [('ret',), ('raise', 1), ('req', 2, 'running')]

def reuse_progs(thorough):
    """`R = m.locked(t)` entered 2 or 3 times, one after the other; every combination of entry bodies over {pass, raise,
    get-config} and of caught / not caught (3 entries: the first two caught, as in a retry loop); on its own, inside
    another context, with a nested context on another datastore in an entry, followed by a fresh context."""
    out = []
    for b1, b2 in itertools.product(RBODIES, repeat=2):
        for c1, c2 in itertools.product([1, 0], repeat=2):
            if not thorough and (c1, c2) == (0, 1) and b1 != ('ret',): continue
            out.append(('reuse', 'candidate', [[c1, b1], [c2, b2]]))
    for b1, b2, b3 in itertools.product(RBODIES, repeat=3):
        for c3 in (1, 0):
            if not thorough and (RBODIES.index(b1) + 2 * RBODIES.index(b2) + RBODIES.index(b3) + c3) % 3: continue
            out.append(('reuse', 'running', [[1, b1], [1, b2], [c3, b3]]))
    for b in RBODIES:
        out.append(('locked', 'running', ('reuse', 'candidate', [[1, b], [0, ('ret',)]])))
        out.append(('reuse', 'candidate', [[1, ('locked', 'running', b)], [1, ('locked', 'startup', ('ret',))]]))
        out.append(('seq', ('reuse', 'candidate', [[1, b], [1, b]]), ('locked', 'candidate', ('ret',))))
        out.append(('seq', ('try', ('locked', 'candidate', b)), ('reuse', 'candidate', [[1, ('ret',)], [0, b]])))
    return out

def reuse_shape_cases():
    """every reply shape as the answer to the FIRST entry's lock (refusals / grants of every layout), then to the second
    entry's lock after a refused and after a granted first entry"""
    p = ('reuse', 'candidate', [[1, ('ret',)], [0, ('req', 2, 'candidate')]])
    cases = []
    for _, sh in shape_alphabet():
        cases.append(dict(prog=p, answers=[sh], mode=2, pats=[]))
        cases.append(dict(prog=p, answers=['err', sh], mode=2, pats=[]))
        cases.append(dict(prog=p, answers=['ok', 'ok', sh], mode=2, pats=[]))
    return cases

# ------------------------------------------------------------------ device profiles
PROFILE_PROGS = [('locked', 'running', ('req', 2, 'running')), ('locked', 'candidate', ('raise', 1))]

def profile_cases(rng, thorough):
    """The with-block under every device profile of the tree under test other than the default one (which all other
    blocks use): severity scripts, every reply shape on the lock and on the unlock, a re-entered context object, random."""
    al = shape_alphabet()
    cases = []
    for prof in profiles_present():
        if prof == 'default': continue
        def add(p, answers, mode=2, pats=()):
            cases.append(dict(prog=p, answers=list(answers), mode=mode, pats=list(pats), profile=prof))
        for p, n in zip(PROFILE_PROGS, (3, 2)):
            for script in itertools.product(['ok', 'err', 'warn', 'we'], repeat=n): add(p, script)
        for script in itertools.product(['ok', 'err', 'warn'], repeat=3):
            add(('reuse', 'candidate', [[1, ('ret',)], [0, ('req', 2, 'candidate')]]), script)
        progs = SHAPE_PROGS if thorough else [SHAPE_PROGS[0]]
        for p in progs:
            for mode in (2,):          # the manager's mode only matters to the body's own requests: varied by the random cases
                n = impl_run(dict(prog=p, answers=[], mode=mode, pats=[]))['n_requests']
                for j in range(n):
                    for _, sh in al: add(p, ['ok'] * j + [sh], mode)
        for _, sh in al: add(PROFILE_PROGS[0], [sh])                 # shaped grant / refusal, then a body that makes a request
        for _ in range(1500 if thorough else 40):
            p = random_prog(rng, rng.randrange(2, 10))
            if lock_depth(p) > 6: continue
            add(p, [rng.choice(['ok', 'ok', 'err', 'warn', 'we', 'ex', 'vl', 'abs']) if rng.random() < 0.7 else rng.choice(al)[1]
                    for _ in range(rng.randrange(0, 9))], rng.choice([0, 1, 2]), rng.choice([[], [], ['exempt*']]))
    return cases

# ------------------------------------------------------------------ asynchronous bodies
ASTMTS = [('ret',), ('raise', 1), ('req', 2, 'running'), ('areq', 2, 'running', 0), ('areq', 2, 'candidate', 1), ('areq', 2, 'running', 2)]

def seq_of(stmts):
    p = stmts[-1]
    for x in reversed(stmts[:-1]): p = ('seq', x, p)
    return p

def async_bodies(maxlen):
    out = []
    for n in range(1, maxlen + 1):
        for st in itertools.product(ASTMTS, repeat=n):
            if not any(x[0] == 'areq' for x in st): continue
            if any(x[0] == 'raise' for x in st[:-1]): continue          # statements behind a raise never run
            out.append(seq_of(list(st)))
    return out

def schedules(k):
    """delivery schedules for k asynchronous requests: every request's pump releases 0 (held until the next synchronous
    request - in a body without one, until the unlock: the reply arrives after the body ended), 1, or all held replies"""
    return [list(x) for x in itertools.product([0, 1, 'all'], repeat=k)] if k <= 2 else [[0] * k, [1] * k, ['all'] * k, [0, 0, 'all'], [0, 1, 0], [0, 0, 1]]

def async_cases(rng, thorough):
    cases = []
    shp = dict(shape_alphabet())
    faults = [[], ['warn'], [shp['warning:all-optional-empty']], ['ok', 'err'], ['ok', 'ok', 'ok', 'err']]
    bodies = async_bodies(3 if thorough else 2)
    for b in bodies:
        for wrap in (lambda x: ('locked', 'running', x), lambda x: ('locked', 'running', ('locked', 'candidate', x)),
                     lambda x: ('seq', ('try', ('locked', 'candidate', x)), ('locked', 'running', ('ret',)))):
            p = wrap(b)
            for i, sc in enumerate(schedules(count_areq(b))):
                fs = faults if thorough else [faults[(i + len(cases)) % len(faults)]]
                for f in fs:
                    cases.append(dict(prog=p, answers=list(f), mode=2, pats=[], deliver=sc, coalesce=(len(cases) % 3 == 0)))
                    # the manager was switched to async_mode before the program and stays so (bodies without synchronous requests)
                    if not has_req(p) and len(cases) % 4 == 1: cases[-1]['async'] = True
    if not thorough:      # bodies of three statements: sampled
        for b in rng.sample(async_bodies(3), 60):
            k = count_areq(b)
            cases.append(dict(prog=('locked', 'candidate', b), answers=list(rng.choice(faults)), mode=2, pats=[],
                              deliver=rng.choice(schedules(k)), coalesce=rng.random() < 0.3))
    for _ in range(3000 if thorough else 250):
        p = random_prog(rng, rng.randrange(3, 12), areq=True)
        if lock_depth(p) > 6 or not has_areq(p): continue
        k = count_areq(p)
        c = dict(prog=p, answers=[rng.choice(['ok', 'ok', 'ok', 'err', 'warn', 'we', 'ex']) if rng.random() < 0.8 else random_shape(rng)
                                  for _ in range(rng.randrange(0, 10))],
                 mode=rng.choice([0, 1, 2]), pats=rng.choice([[], [], ['exempt*']]),
                 deliver=[rng.choice([0, 0, 1, 2, 'all']) for _ in range(k)], coalesce=rng.random() < 0.3)
        if rng.random() < 0.3 and not has_req(p): c['async'] = True
        cases.append(c)
    # the same (synchronous) programs on both sessions: the threaded one agrees with the one that answers inside send()
    for _ in range(2000 if thorough else 150):
        p = random_prog(rng, rng.randrange(2, 10))
        if lock_depth(p) > 6: continue
        cases.append(dict(prog=p, answers=[rng.choice(['ok', 'ok', 'err', 'warn', 'we', 'ew']) for _ in range(rng.randrange(0, 8))],
                          mode=rng.choice([0, 1, 2]), pats=[], wire=True))
    return cases

# ------------------------------------------------------------------ the connection is lost inside a with-body
def lost_bodies(how):
    """bodies that lose the connection: ... then raise (each class of body exception: plain without / with args, a
    TransportError of its own), ... then return, ... then make a request on the dead session (the body's exception is then
    the session's own transport error), after a request that was answered, after an error that was caught"""
    out = []
    for code in (1, 2, 3, 0):
        d = ('drop', how, code)
        out += [d, ('seq', ('req', 2, 'running'), d)]
    d0 = ('drop', how, 0)
    out += [('seq', d0, ('raise', 4)), ('seq', d0, ('req', 2, 'running')), ('seq', ('try', ('raise', 1)), ('drop', how, 5)),
            ('seq', d0, ('try', ('req', 2, 'candidate')))]
    return out

LOST_WRAPS = [lambda b: ('locked', 'running', b),
              lambda b: ('locked', 'running', ('locked', 'candidate', b)),
              lambda b: ('try', ('locked', 'candidate', b)),
              lambda b: ('locked', 'running', ('try', ('locked', 'candidate', b))),        # the outer body ends normally
              lambda b: ('seq', ('try', ('locked', 'candidate', b)), ('locked', 'running', ('ret',))),   # entered on the dead session
              lambda b: ('reuse', 'candidate', [[1, b], [0, ('ret',)]]),
              lambda b: ('locked', 'startup', ('seq', ('try', ('locked', 'running', b)), ('raise', 7)))]

def inject_drop(rng, p, how):
    """a random program with one of its leaves replaced by a `drop`"""
    k = p[0]
    if k in ('ret', 'raise', 'req', 'areq'): return ('drop', how, rng.choice([0, 1, 2, 3, 4, 5]))
    if k == 'seq':
        return ('seq', inject_drop(rng, p[1], how), p[2]) if rng.random() < 0.5 else ('seq', p[1], inject_drop(rng, p[2], how))
    if k == 'try': return ('try', inject_drop(rng, p[1], how))
    if k == 'locked': return ('locked', p[1], inject_drop(rng, p[2], how))
    if k == 'reuse':
        j = rng.randrange(len(p[2]))
        return ('reuse', p[1], [[c, inject_drop(rng, b, how) if i == j else b] for i, (c, b) in enumerate(p[2])])
    return p

def lost_cases(rng, thorough):
    cases = []
    profs = profiles_present()
    scripts = [[], ['warn'], ['ok', 'err'], ['ok', 'warn', 'we']]
    for hi, how in enumerate(WIRE_HOWS + SYNC_HOWS):
        for bi, b in enumerate(lost_bodies(how)):
            for wi, w in enumerate(LOST_WRAPS):
                p = w(b)
                for si, sc in enumerate(scripts):
                    if not thorough and si and (hi + bi + wi + si) % 3: continue
                    c = dict(prog=p, answers=list(sc), mode=2, pats=[])
                    # the profiles differ in what the (failing) request returns / how replies are dispatched: rotate through them
                    if thorough or (hi + bi + wi + si) % 2:
                        prof = profs[(hi * 7 + bi * 3 + wi + si) % len(profs)]
                        if prof != 'default': c['profile'] = prof
                    cases.append(c)
                    if thorough:
                        for prof in ('junos', 'nexus'):
                            if prof in profs: cases.append(dict(c, profile=prof))
    for _ in range(6000 if thorough else 500):
        how = rng.choice(WIRE_HOWS + SYNC_HOWS)
        p = inject_drop(rng, random_prog(rng, rng.randrange(2, 10)), how)
        if lock_depth(p) > 6 or not has_drop(p): continue
        c = dict(prog=p, answers=[rng.choice(['ok', 'ok', 'ok', 'err', 'warn', 'we', 'ex']) for _ in range(rng.randrange(0, 8))],
                 mode=rng.choice([0, 1, 2]), pats=rng.choice([[], [], ['exempt*']]))
        if rng.random() < 0.4: c['profile'] = rng.choice(profs)
        if c.get('profile') == 'default': del c['profile']
        cases.append(c)
    return cases

def corpus_cases():
    from vlib import paths
    d = os.path.join(paths.CORPUS, ID)
    out = []
    if os.path.isdir(d):
        for f in sorted(os.listdir(d)):
            if f.endswith('.json'): out.append(json.load(open(os.path.join(d, f))))
    return out

def run(ctx):
    rng = ctx.rng
    evaluate(ctx, corpus_cases(), 'corpus')
    thorough = ctx.tier == 'thorough'
    F = ['err', 'warn']
    # (size bound, max non-ok answers, sample size or None = every program of that size)
    plan = ([(3, 99, None), (5, 2, None), (6, 2, 40)] if not thorough else
            [(4, 99, None), (5, 3, None), (6, 2, None), (7, 2, 2000)])
    done = {}
    recs = []
    for N, mf, sample in plan:
        for n in range(1, N + 1):
            if done.get(n, -1) >= mf and sample is None: continue
            ps = progs_of_size(n)
            if sample is not None:
                if n < N or done.get(n, -1) >= mf: continue
                ps = rng.sample(ps, min(sample, len(ps)))
            for p in ps:
                explore(ctx, p, 2, [], F, mf, 'exhaustive' if sample is None else 'sampled-size-%d' % n, recs)
            if sample is None: done[n] = mf
            ctx.hist('programs_explored(size,max_faults,sampled)', '%d,%s,%s' % (n, mf, 'all' if sample is None else len(ps)), len(ps))
    compare_model(ctx, recs)
    ctx.exhaustive = True
    ctx.extra['exhaustive_scope'] = ('every program of size <= %d x every answer script over {ok,error,warning}; every program of size <= %d x every '
                                     'script with <= %d non-ok answers%s' % ((3, 5, 2, '; 40 sampled programs of size 6 x <= 2 non-ok') if not thorough
                                     else (4, 5, 3, '; every program of size 6 and 2000 sampled of size 7 x <= 2 non-ok')))
    # one context object entered 2-3 times (a retry loop): per-entry answers
    recs = []
    for p in reuse_progs(thorough):
        explore(ctx, p, 2, [], F, 3 if thorough else 2, 'reuse', recs)
    compare_model(ctx, recs)
    evaluate(ctx, reuse_shape_cases(), 'reuse')
    # reply shapes; the device profiles; asynchronous bodies on the threaded session
    evaluate(ctx, shape_cases(rng, thorough), 'shapes')
    evaluate(ctx, profile_cases(rng, thorough), 'profiles')
    ctx.extra['profiles_run'] = profiles_present()
    evaluate_threaded(ctx, async_cases(rng, thorough), 'async')
    lc = [norm_case(c) for c in lost_cases(rng, thorough)]
    evaluate(ctx, [c for c in lc if not on_wire(c)], 'connection-lost')
    evaluate_threaded(ctx, [c for c in lc if on_wire(c)], 'connection-lost')
    # random: bigger programs, explicit lock/unlock requests, all modes, richer answers, exempt patterns
    cases = []
    for _ in range(1300 if ctx.tier == 'quick' else 40000):
        p = random_prog(rng, rng.randrange(2, 15))
        if lock_depth(p) > 6: continue
        k = rng.randrange(0, 12)
        script = [rng.choice(['ok', 'ok', 'ok', 'err', 'warn', 'we', 'ex', 'ew', 'abs']) if rng.random() < 0.85 else random_shape(rng) for _ in range(k)]
        cases.append(dict(prog=p, answers=script, mode=rng.choice([0, 1, 2]), pats=rng.choice([[], [], ['exempt*'], ['*me*', 'zz']])))
        if rng.random() < 0.5 and not has_req(p): cases[-1]['async'] = True
    evaluate(ctx, cases, 'random')

def search(ctx, seeds):
    rng = ctx.rng
    tries = [c for c in seeds if isinstance(c, dict) and 'prog' in c]
    for n in range(1, 6):
        for p in progs_of_size(n):
            if not has_locked(p): continue
            for script in itertools.product(['ok', 'err', 'warn'], repeat=min(4, n)):
                tries.append(dict(prog=p, answers=list(script), mode=2, pats=[]))
    for p in reuse_progs(False):
        for script in itertools.product(['ok', 'err', 'warn'], repeat=4):
            tries.append(dict(prog=p, answers=list(script), mode=2, pats=[]))
    tries += profile_cases(rng, False) + shape_cases(rng, False)[:3000] + async_cases(rng, False) + lost_cases(rng, False)
    for _ in range(5000):
        p = random_prog(rng, rng.randrange(2, 12))
        tries.append(dict(prog=p, answers=[rng.choice(list(ANS)) for _ in range(rng.randrange(0, 10))], mode=rng.choice([0, 1, 2]),
                          pats=rng.choice([[], ['exempt*']])))
    for c in tries:
        c = norm_case(c)
        try:
            fs = check_property(c, impl_run(c))
        except Exception as e:
            return dict(case=c, what='harness could not run the program: %r' % e, sig=None, expected=None, actual=None)
        if fs:
            return dict(case=c, what=fs[0], sig=None, expected='property C13', actual=fs)
    return None

def norm_case(c):
    d = dict(prog=tup(c['prog']), answers=list(c['answers']), mode=c.get('mode', 2), pats=list(c.get('pats', [])))
    for k in ('async', 'deliver', 'coalesce', 'wire', 'profile'):
        if k in c: d[k] = c[k]
    return d

def reproduce(finding):
    c = norm_case(finding['witness'])
    return bool(check_property(c, impl_run(c)))

def replay(doc):
    c = norm_case(doc['case'])
    im = impl_run(c)
    fs = check_property(c, im)
    print('program  :\n' + compile_prog(c['prog']))
    print('answers  :', c['answers'], 'mode', c['mode'], 'patterns', c['pats'], 'device profile', c.get('profile') or 'default')
    for i, r in enumerate(im['replies']):
        if i < len(c['answers']) and is_shape(c['answers'][i]): print('reply %-3d:' % i, repr(r))
    if im.get('session') is not None:
        print('session  : threaded; delivery schedule', c.get('deliver'), 'coalesce', bool(c.get('coalesce')), '->', im['session'])
    if c.get('async'): print('manager  : async_mode = True during the whole program')
    print('expected : property C13 (lock before body, exactly one unlock of the same datastore after it, body exception propagates, refused lock => no body, no unlock)')
    print('actual   : requests', im['wire'], 'outcome', im['result'])
    for f in fs: print('fails    :', f)
    return not fs
