"""C15 — peer authentication precedes credentials and NETCONF traffic.
Model: coq/Model/Auth.v; theorems: coq/Props/C15.v; spec: coq/Spec/AuthSpec.v; peers: tools/harness/authpeers.py.
PARTIAL: kex/signature/X.509 verification are paramiko's and OpenSSL's (oracle in the model; exercised for real in the
thorough tier)."""
import os, json, itertools, glob
from vlib import paths

ID = 'C15'
COQ_ROOTS = ['Props/C15.v', 'GenProps/Connect_consts.v']
RULE = ('SSH (quick, exhaustive grid on a recording paramiko.Transport reached through manager.connect_ssh): '
        'hostkey_verify x known_hosts file layout (no file, empty, match under host, match under [host]:port, different key of '
        'the same/another type, other host only, both names with conflicting keys, duplicates) x pinned key (absent, unusable, '
        'matching, different same type, different type) x callback (default, caller True, caller False) x all 13 device '
        'profiles x credentials; callback-argument grid: callbacks whose verdict DEPENDS on what they are called with (accept only '
        'the fingerprint of the presented key / of a key stored in known_hosts / of another stored key / of a key seen nowhere; accept '
        'only when called with the dialled host name / the [host]:port name / another name; both) x known_hosts layouts in which the '
        'host is known under a DIFFERENT key of the same type (bare-host entry, [host]:port entry, both, two different ones) or of '
        'another type, or not at all x pins x presented key, the arguments of every callback invocation and the .fingerprint of '
        'SSHUnknownHostError recorded and required to be (dialled host, fingerprint of the presented key); credential grid: key_filename lists (good/unreadable) x agent keys x default key files '
        'x password x every position of the first accepted request (and none) x subsystem/open/hello/kex verdicts. '
        'histories (several NEW sessions of one process on ONE known_hosts path whose content changes between them): 2-4 connects x '
        'the path (default ~/.ssh/known_hosts under a temporary HOME, a file handed to load_known_hosts(filename), a file named by '
        'UserKnownHostsFile of ssh_config) x how the file was changed (rewritten; a prepared file with an OLDER / the SAME / a newer mtime and '
        'the same size moved over it; rewritten through the same inode with the new or the restored mtime; symbolic link switched; removed; '
        'created; left alone) x contents before/after (trust revoked, trust added, [host]:port, swapped entries, emptied) x what the earlier '
        'session had as its reason to trust (file, accepting callback, pin, overriding profile, verification off) x random steps; every '
        'connect is judged by the oracle and by the model (Auth.ssh_history) on the content of the file AT THE TIME OF THAT connect, as for a '
        'fresh process; the same histories against the real paramiko server over a socketpair (66 in quick, 200+ in thorough). '
        'ONE SSHSession OBJECT connected 2-4 times (connect() again after a connect() that raised: refused authentication, unknown host, failed '
        'key exchange, refused subsystem, verification off): the key the peer presents in each connect (same / another of the same type / '
        'another type / back to the first) x the caller\'s callback (9 policies: accept only the fingerprint of E1/E2/R1/X9, host+fingerprint, '
        'constants, none; the same function for every connect or a different one) x pin x profile x known_hosts (unchanged within a history) x '
        'how the earlier connect failed x random steps; each connect judged by the oracle and the model (Auth.ssh_history) on ITS arguments and '
        'the key ITS peer presented; the same against real paramiko servers with different host keys (5 histories in quick, ~490 in thorough). '
        'TLS (quick, exhaustive): missing host/certfile/protocol x check_hostname x ca_certs x server_hostname x '
        'load_cert/load_ca outcome x connect x handshake x hello on a recording SSLContext. '
        'thorough adds a real paramiko server over a socketpair and a real ssl server on 127.0.0.1 with openssl-generated PKI. '
        'A case is the configuration plus the verdict streams; non-trivial = connect got as far as the key exchange / the certificate load.')
ASSUMES = ['paramiko performs key exchange and signature verification before start_client returns, and get_remote_server_key() is the verified key',
           'OpenSSL verifies chain and host name during do_handshake when verify_mode=CERT_REQUIRED / check_hostname are set on the context',
           'authentication requests answer success or raise; partial (multi-factor) success is not modelled',
           'SSH agent key re-sequencing by .pub files, ssh_config/proxy handling, environment and keepalive are not modelled']
TRUSTED = ['modelled, not verified: paramiko (kex, host-key signature, authentication, channels, HostKeys file parser), OpenSSL/ssl (handshake, X.509 chain and host-name verification)']
ALLOWED_AXIOMS = []

OVERRIDE = ('iosxe', 'iosxr', 'csr')          # profiles documented to replace the unknown-host callback
EXEC_FALLBACK = ('junos',)
KEYCODE = {'E1': (1, 10), 'E2': (1, 11), 'E3': (1, 12), 'X9': (1, 99), 'R1': (2, 20)}     # X9: a key nobody presents or stores
KEYNAME = {v: k for k, v in KEYCODE.items()}
SEL = {'host': 0, 'hostport': 1, 'other': 2}
SELNAME = {v: k for k, v in SEL.items()}
ENCRYPTED = {'kf0': False, 'kf1': False, 'kfe': True, 'bad': None, 'id_rsa': False, 'id_dsa': None, 'id_ecdsa': True}
def load_ok(name, password):
    """PKey.from_path(file, passphrase) of the installed paramiko/cryptography: an unreadable file fails; an encrypted key needs
    the passphrase (= the password argument); an UNENCRYPTED key fails when a passphrase is given (TypeError, swallowed by _auth)."""
    e = ENCRYPTED[os.path.basename(name)]
    return e is not None and e == bool(password)

def H():
    from harness import authpeers
    return authpeers

_subs_cache = {}
def subsystems_of(profile):
    if profile not in _subs_cache:
        from ncclient.manager import make_device_handler
        _subs_cache[profile] = list(make_device_handler({'name': profile}).get_ssh_subsystem_names())
    return _subs_cache[profile]

def profiles():
    from ncclient import devices
    return sorted(devices.supported_devices_cfg.keys())

# ------------------------------------------------------------------ SSH: model call, canonical forms
def ssh_case(**kw):
    c = dict(verify=True, kh=None, pin=None, user_cb=False, cb_verdict=False, cb_policy=None, profile='default', key_files=[], allow_agent=False,
             agent_keys=0, look_for_keys=False, default_keys=[], password=True, server_key='E1', kex_ok=True, auths=[True],
             opens=[True, True], subs=[True, True], hello_ok=True)
    c.update(kw)
    return c

def cb_model(c):
    """the caller's callback as data for the model: a function of (host name it is called with, key whose fingerprint it is shown)"""
    pol = c.get('cb_policy')
    if not pol: return [0, bool(c['cb_verdict'])]
    if pol[0] == 'fp': return [1, list(KEYCODE[pol[1]])]
    if pol[0] == 'host': return [2, SEL[pol[1]]]
    return [3, SEL[pol[1]], list(KEYCODE[pol[2]])]

def cb_says(c):
    """The verdict of the caller's callback on (the host name that was dialled, the fingerprint of the key the server presented),
    read off the policy's definition: the only verdict the property sentence lets count."""
    pol = c.get('cb_policy')
    if not pol: return bool(c['cb_verdict'])
    if pol[0] == 'fp': return pol[1] == c['server_key']
    if pol[0] == 'host': return pol[1] == 'host'
    return pol[1] == 'host' and pol[2] == c['server_key']

def ssh_model_call(c):
    kh = [[SEL[s], KEYCODE[k][0], KEYCODE[k][1]] for s, k in (c['kh'] or [])] if c['verify'] else []
    if c.get('host_none'): kh = []          # outbound-ssh style connect(host=None, sock=...): no known_hosts entry can name the peer
    pin = [] if not c['pin'] else ([0] if c['pin'] == 'bad' else list(KEYCODE[c['pin']]))
    loads = [load_ok(n, c['password']) for n in c['key_files']]
    if c['look_for_keys']: loads += [load_ok(p, c['password']) for p in c['default_keys']]
    cfg = [c['verify'], kh, pin, c['user_cb'], c['profile'] in OVERRIDE, len(c['key_files']), c['allow_agent'], c['look_for_keys'],
           c['password'], [s.encode() for s in subsystems_of(c['profile'])], c['profile'] in EXEC_FALLBACK]
    orc = [c['kex_ok'], list(KEYCODE[c['server_key']]), cb_model(c), loads, c['agent_keys'], len(c['default_keys']),
           list(c['auths']), list(c['opens']), list(c['subs']), c['hello_ok']]
    return [1, cfg, orc]

def model_events(v):
    """decoded model output -> (canonical trace without the ghost event, ghost 'how' list, result code, exception detail)"""
    evs, how = [], []
    for e in v[0]:
        t = e[0]
        if t == 0: evs.append(['StartClient'])
        elif t == 1: evs.append(['CallbackAsked', SELNAME[e[1]], KEYNAME.get((e[2], e[3]), '?')])
        elif t == 2: how.append([['known_hosts', 'pinned', 'callback'][e[1]], e[2]])
        elif t == 3: evs.append(['Auth', e[1], e[2], bool(e[3])])
        elif t == 4: evs.append(['OpenSession'])
        elif t == 5: evs.append(['Invoke', e[1].decode()])
        elif t == 6: evs += [['OpenChannel'], ['Exec']]
        elif t == 7: evs.append(['SendHello'])
        elif t == 8: evs.append(['TlsLoadCert'])
        elif t == 9: evs.append(['TlsLoadCA'])
        elif t == 10: evs.append(['TlsConnect'])
        elif t == 11: evs.append(['Handshake', bool(e[1]), bool(e[2]), 'server_hostname' if e[3] else 'host'])
    det = v[2] if len(v) > 2 else []
    return evs, how, v[1], ([SELNAME[det[0]], KEYNAME.get((det[1], det[2]), '?')] if det else [])

def impl_events(raw):
    return [list(e) for e in raw if e[0] != 'GetServerKey']

SENSITIVE = ('Auth', 'OpenSession', 'Invoke', 'OpenChannel', 'Exec', 'SendHello')
SESSION = ('OpenSession', 'Invoke', 'OpenChannel', 'Exec', 'SendHello')

def ssh_oracle(c, raw, code, detail=None):
    """The property sentence evaluated on what the recording transport saw.  Returns a list of (sig, text)."""
    bad = []
    # the inputs of the callback: every invocation is about (dialled host, fingerprint of the key the server presented)
    for e in raw:
        if e[0] == 'CallbackAsked' and list(e[1:]) != ['host', c['server_key']]:
            bad.append(('callback_shown_wrong_arguments', 'unknown_host_cb was called with (host: %s, fingerprint of: %s); the host dialled is "host" and the server presented %s'
                        % (e[1], e[2], c['server_key'])))
            break
    if code == 1 and detail is not None and (len(detail) < 2 or detail[1] != c['server_key']):
        bad.append(('unknown_host_error_wrong_fingerprint', 'SSHUnknownHostError carries the fingerprint of %s; the server presented %s' % (detail[1:] or None, c['server_key'])))
    names = [e[0] for e in raw]
    first_sens = next((i for i, n in enumerate(names) if n in SENSITIVE), None)
    key = c['server_key']
    kh = c['kh'] or []
    in_file = ['host', key] in [list(x) for x in kh] or ['hostport', key] in [list(x) for x in kh]
    cb_true = True if c['profile'] in OVERRIDE else (cb_says(c) if c['user_cb'] else False)
    if c['pin']: reason = (c['pin'] == key) or cb_true
    else: reason = in_file or cb_true
    if c['verify']:
        if first_sens is not None:
            pre = names[:first_sens]
            if not reason:
                bad.append(('credential_or_traffic_without_trusted_hostkey',
                            '%s happened although the presented key %s is neither in known_hosts under host/[host]:port, nor pinned, nor accepted by the callback' % (raw[first_sens], key)))
            if 'StartClient' not in pre or 'GetServerKey' not in pre or pre.index('GetServerKey') < pre.index('StartClient'):
                bad.append(('credential_before_key_inspection', 'first sensitive action %s precedes start_client/get_remote_server_key: %s' % (raw[first_sens], pre)))
            if not (c['pin'] == key or (not c['pin'] and in_file)) and c['user_cb'] and c['profile'] not in OVERRIDE and 'CallbackAsked' not in pre:
                bad.append(('callback_not_consulted', 'accepted on the callback\'s authority without asking it'))
        if not reason:
            want = 3 if (c['pin'] == 'bad' or not c['kex_ok']) else 1
            if code != want:
                bad.append(('wrong_exception_for_untrusted_hostkey', 'expected result %d, got %d' % (want, code)))
    granted = [i for i, e in enumerate(raw) if e[0] == 'Auth' and e[3]]
    first_sess = next((i for i, n in enumerate(names) if n in SESSION), None)
    if first_sess is not None and not (granted and granted[0] < first_sess):
        bad.append(('session_without_authentication', '%s without a granted authentication request before it' % (raw[first_sess],)))
    if not granted:
        if code == 0: bad.append(('connected_without_authentication', 'connect returned although no authentication request was granted'))
        if any(e[0] == 'Auth' for e in raw) and code != 2:
            bad.append(('wrong_exception_for_failed_authentication', 'all requests refused, expected AuthenticationError, got %d' % code))
    if code == 0 and 'SendHello' not in names:
        bad.append(('connected_without_hello', 'connect returned without the hello exchange'))
    return bad

# ------------------------------------------------------------------ SSH grids
KH_LAYOUTS = [None, [], [('host', 'E1')], [('hostport', 'E1')], [('host', 'E2')], [('other', 'E1')], [('host', 'R1')],
              [('host', 'E1'), ('hostport', 'E2')], [('host', 'E2'), ('hostport', 'E1')], [('host', 'R1'), ('hostport', 'E1')],
              [('host', 'E2'), ('host', 'E1')], [('hostport', 'E2'), ('hostport', 'E1')], [('other', 'E2'), ('hostport', 'R1'), ('host', 'E1')]]
PINS = [None, 'bad', 'E1', 'E2', 'R1']
CALLBACKS = [(False, False), (True, True), (True, False), (True, None), (True, 0), (True, ''), (True, 1), (True, 'yes')]   # verdicts by truthiness
SIMPLE_CREDS = [dict(password=True, auths=[True]), dict(password=True, auths=[False]), dict(password=False, auths=[])]

# callbacks whose verdict depends on their arguments, over layouts where the host is known under another key
CB_POLICIES = [['fp', 'E1'], ['fp', 'E2'], ['fp', 'E3'], ['fp', 'R1'], ['fp', 'X9'], ['host', 'host'], ['host', 'hostport'], ['host', 'other'],
               ['hostfp', 'host', 'E1'], ['hostfp', 'host', 'E2'], ['hostfp', 'hostport', 'E1'], ['hostfp', 'hostport', 'E2']]
KH_OTHERKEY = [[('host', 'E2')], [('hostport', 'E2')], [('host', 'E2'), ('hostport', 'E2')], [('host', 'E2'), ('hostport', 'E3')],
               [('host', 'E3'), ('hostport', 'E2')], [('host', 'R1')], [('hostport', 'R1')], [('host', 'R1'), ('host', 'E2')],
               [('other', 'E2')], None, [], [('host', 'E1')], [('hostport', 'E1')], [('host', 'E2'), ('hostport', 'E1')]]
def callback_arg_grid(tier, profs):
    refused = dict(password=True, auths=[False]); granted = dict(password=True, auths=[True])
    if tier == 'quick':
        for kh, pin, pol, prof in itertools.product(KH_OTHERKEY, [None, 'E1', 'E2'], CB_POLICIES, ['default', 'iosxe']):
            yield ssh_case(kh=kh, pin=pin, user_cb=True, cb_policy=pol, profile=prof, **granted)
        for kh, pol, (sk, cr) in itertools.product(KH_OTHERKEY, CB_POLICIES, [('R1', granted), ('E1', refused), ('E2', refused)]):
            yield ssh_case(kh=kh, user_cb=True, cb_policy=pol, server_key=sk, **cr)
    else:
        for kh, pin, pol, prof, sk, cr in itertools.product(KH_OTHERKEY, [None, 'bad', 'E1', 'E2', 'R1'], CB_POLICIES, profs, ['E1', 'E2', 'R1'], [granted, refused]):
            yield ssh_case(kh=kh, pin=pin, user_cb=True, cb_policy=pol, profile=prof, server_key=sk, **cr)
    # no host name dialled (call-home); one session object connected twice
    for pin, pol in itertools.product([None, 'E2'], CB_POLICIES):
        yield ssh_case(pin=pin, user_cb=True, cb_policy=pol, host_none=True, **refused)
        for kh in ([('host', 'E2')], [('hostport', 'E2')]):
            yield ssh_case(kh=kh, pin=pin, user_cb=True, cb_policy=pol, prior_accept=True, **refused)

def hostkey_grid(profs):
    for verify, kh, pin, (ucb, cbv), prof, cr in itertools.product([True, False], KH_LAYOUTS, PINS, CALLBACKS, profs, SIMPLE_CREDS):
        yield ssh_case(verify=verify, kh=kh, pin=pin, user_cb=ucb, cb_verdict=cbv, profile=prof, **cr)

KEYFILES = [[], ['kf0'], ['kfe'], ['bad'], ['bad', 'kf0'], ['kf0', 'kf1'], ['kf0', 'kfe']]
AGENTS = [(False, 0), (True, 0), (True, 2), (False, 2)]
DEFAULTS = [(False, []), (True, []), (True, ['.ssh/id_rsa']), (True, ['.ssh/id_dsa', '.ssh/id_ecdsa']), (True, ['ssh/id_ecdsa']),
            (False, ['.ssh/id_ecdsa'])]
def n_attempts(kf, ag, dk, pw):
    n = sum(1 for f in kf if load_ok(f, pw))
    if ag[0]: n += ag[1]
    if dk[0]: n += sum(1 for f in dk[1] if load_ok(f, pw))
    return n + (1 if pw else 0)

def cred_grid(bases):
    for base, kf, ag, dk, pw in itertools.product(bases, KEYFILES, AGENTS, DEFAULTS, [False, True]):
        n = n_attempts(kf, ag, dk, pw)
        pats = [[False] * n] + [[False] * j + [True] for j in range(n)]
        if n: pats.append([])                    # exhausted verdict stream = refusals
        for p in pats:
            yield ssh_case(key_files=kf, allow_agent=ag[0], agent_keys=ag[1], look_for_keys=dk[0], default_keys=dk[1],
                           password=pw, auths=p, **base)

def session_grid():
    for prof, opens, subs, hello, kex in itertools.product(['default', 'junos', 'nexus', 'iosxe'], [[True, True], [False, True], [True, False]],
                                                           [[True, True], [False, True], [False, False]], [True, False], [True, False]):
        yield ssh_case(verify=False, profile=prof, opens=opens, subs=subs, hello_ok=hello, kex_ok=kex)
        yield ssh_case(verify=True, kh=[('hostport', 'E1')], profile=prof, opens=opens, subs=subs, hello_ok=hello, kex_ok=kex)

def random_ssh_cases(rng, n):
    """fully random configurations and verdict streams (seeded by VERIF_SEED): known_hosts layouts of up to 4 lines"""
    profs = profiles()
    for _ in range(n):
        kh = None if rng.random() < 0.1 else [(rng.choice(['host', 'hostport', 'other']), rng.choice(['E1', 'E2', 'E3', 'R1'])) for _ in range(rng.randint(0, 4))]
        kf = rng.choice(KEYFILES); ag = rng.choice(AGENTS); dk = rng.choice(DEFAULTS); pw = rng.random() < 0.6
        n_att = n_attempts(kf, ag, dk, pw)
        auths = [rng.random() < 0.3 for _ in range(rng.randint(0, n_att + 1))]
        ucb = rng.random() < 0.5
        pol = rng.choice(CB_POLICIES) if ucb and rng.random() < 0.5 else None
        yield ssh_case(cb_policy=pol, verify=rng.random() < 0.8, kh=kh, pin=rng.choice([None, None, 'bad', 'E1', 'E2', 'R1']), user_cb=ucb, cb_verdict=ucb and rng.random() < 0.5,
                       profile=rng.choice(profs), key_files=kf, allow_agent=ag[0], agent_keys=ag[1], look_for_keys=dk[0], default_keys=dk[1],
                       password=pw, server_key=rng.choice(['E1', 'E1', 'E2', 'E3', 'R1']), kex_ok=rng.random() < 0.95, auths=auths,
                       opens=[rng.random() < 0.9 for _ in range(2)], subs=[rng.random() < 0.6 for _ in range(2)], hello_ok=rng.random() < 0.9)

def ssh_cases(ctx):
    profs = profiles()
    few = ['default', 'iosxe', 'junos']
    if ctx.tier == 'quick':
        # full host-key product on 3 profiles (one overriding), every profile on the product without the credential dimension
        seen = set()
        for c in itertools.chain(hostkey_grid(few), (c for c in hostkey_grid(profs) if c['password'] and c['auths'] == [True])):
            k = json.dumps(c, sort_keys=True)
            if k not in seen:
                seen.add(k); yield c
        bases = [dict(verify=False), dict(verify=True, kh=[('host', 'E1')])]
        # connect(host=None, sock=...) (call-home / outbound ssh): only a pinned key or the callback can accept the peer
        for pin, (ucb, cbv), kh in itertools.product(PINS, CALLBACKS[:4], [None, [('host', 'E1')]]):
            yield ssh_case(verify=True, kh=kh, pin=pin, user_cb=ucb, cb_verdict=cbv, host_none=True)
        # one SSHSession object connected twice (a retry after a failed authentication that an accepting callback preceded)
        for pin, (ucb, cbv), kh in itertools.product([None, 'E2'], CALLBACKS[:4], [None, [('host', 'E2')], [('host', 'E1')]]):
            yield ssh_case(verify=True, kh=kh, pin=pin, user_cb=ucb, cb_verdict=cbv, prior_accept=True)
    else:
        yield from hostkey_grid(profs)
        bases = [dict(verify=False), dict(verify=True, kh=[('host', 'E1')]), dict(verify=True, pin='E1'),
                 dict(verify=True, user_cb=True, cb_verdict=True), dict(verify=True, profile='csr'), dict(verify=True, user_cb=True, cb_verdict=False)]
    yield from callback_arg_grid(ctx.tier, profs)
    yield from cred_grid(bases)
    yield from session_grid()
    if getattr(ctx, 'rng', None) is not None:
        yield from random_ssh_cases(ctx.rng, 3000 if ctx.tier == 'quick' else 40000)

def check_ssh(ctx, c, mo):
    raw, code, exn, detail = H().run_ssh_fake(c)
    ctx.count(c, nontrivial=bool(c['kex_ok'] and c['pin'] != 'bad'))
    ctx.hist('ssh_callback', 'none' if not c['user_cb'] else ('constant' if not c.get('cb_policy') else c['cb_policy'][0] + ('=presented' if cb_says(c) else '=not-presented')))
    for e in raw:
        if e[0] == 'CallbackAsked': ctx.hist('ssh_callback_called_with', '%s,%s' % ('dialled-host' if e[1] == 'host' else e[1], 'presented-key' if e[2] == c['server_key'] else e[2]))
    ctx.traces += 1
    ctx.hist('ssh_result', {0: 'Ok', 1: 'SSHUnknownHostError', 2: 'AuthenticationError', 3: 'SSHError'}.get(code, 'other:%s' % exn))
    ctx.hist('ssh_profile', c['profile']); ctx.hist('ssh_attempts', sum(1 for e in raw if e[0] == 'Auth'))
    im = [impl_events(raw), code, detail]
    if mo is not None:
        if isinstance(mo, str): ctx.disagree(c, mo, im, 'model runner error', theorem='C15_*'); return
        evs, how, mcode, mdet = model_events(mo)
        if how: ctx.hist('ssh_accepted_by', how[0][0])
        if [evs, mcode, mdet] != im:
            ctx.disagree(c, [evs, mcode, mdet], im, 'Auth.ssh_connect vs manager.connect_ssh on the recording transport', theorem='C15_verify_first/C15_reject/C15_auth_fail/C15_callback_args')
    for sig, text in ssh_oracle(c, raw, code, detail):
        ctx.fail(c, text, sig=None, expected='property C15 (%s)' % sig, actual=dict(events=im[0], result=code, exception=exn, exception_carries=detail))
    if ctx.evaluations % 1499 == 1: ctx.sample({'case': c, 'impl': im})

# ------------------------------------------------------------------ histories: several sessions, ONE known_hosts path that changes
# "matches known_hosts" is about the file AS IT IS WHEN connect() IS CALLED: every connect of a history is judged exactly as
# the same connect made by a fresh process that sees the file's content of that moment (oracle and model get kh = that content).
# What an earlier session of the process loaded / was shown / accepted must not matter, however the file was changed
# (moved over by a prepared file with an older / the same / a newer mtime and the same size, rewritten through the same inode
# with or without its mtime restored, removed, created, a symbolic link switched).
HIST_OPS = ['write', 'replace_older', 'replace_equal', 'replace_newer', 'inplace', 'inplace_keep', 'symlink']
HIST_VIAS = ['default', 'explicit', 'config']
_GR = dict(password=True, auths=[True]); _RF = dict(password=True, auths=[False])

def hstep(kh, op, **conn):
    return dict(kh=kh, op=op, conn=conn)

def hist_step_case(h, i):
    s = h['steps'][i]
    return ssh_case(kh=s['kh'], **s.get('conn', {}))

def hist_model_call(h):
    """Auth.ssh_history on the list of (configuration with the file content of that moment, oracle)"""
    return [3, [ssh_model_call(hist_step_case(h, i))[1:] for i in range(len(h['steps']))]]

def ssh_histories(tier, rng=None):
    A, B, C = [('host', 'E1')], [('host', 'E2')], [('host', 'E3')]
    pairs = [(A, B), (B, A), ([('hostport', 'E1')], [('hostport', 'E2')]), ([('hostport', 'E2')], [('host', 'E1')]),
             ([('host', 'E1'), ('other', 'E2')], [('host', 'E2'), ('other', 'E1')]), (A, []), ([], A), (A, None), (None, A),
             ([('host', 'R1')], A), (A, [('host', 'R1'), ('hostport', 'E2')])]
    for via, op, (k1, k2), cr in itertools.product(HIST_VIAS, HIST_OPS, pairs, [_GR, _RF]):
        if via == 'config' and (k1 is None or k2 is None): continue
        if tier == 'quick' and cr is _RF and op in ('write', 'replace_newer', 'inplace'): continue
        yield dict(kind='ssh_hist', via=via, steps=[hstep(k1, 'write', **_GR), hstep(k2, op, **cr)])
    # three sessions: the file goes A -> B -> A / A -> B -> C, every pair of operations
    for via, o2, o3, (k1, k2, k3) in itertools.product(HIST_VIAS, HIST_OPS, HIST_OPS, [(A, B, A), (B, A, B), (A, B, C)]):
        if tier == 'quick' and via != 'default' and (k1, k2, k3) != (A, B, A): continue
        yield dict(kind='ssh_hist', via=via, steps=[hstep(k1, 'write', **_RF), hstep(k2, o2, **_RF), hstep(k3, o3, **_GR)])
    # trust given by something else than the file in an earlier session (accepting callback, pinned key, overriding profile,
    # verification off) is not trust in a later one
    for via, op, first in itertools.product(HIST_VIAS, ['keep', 'write', 'replace_equal', 'inplace_keep'],
                                            [dict(user_cb=True, cb_verdict=True), dict(pin='E1'), dict(profile='iosxe'), dict(verify=False),
                                             dict(user_cb=True, cb_policy=['fp', 'E1'])]):
        for kh in (B, []):
            yield dict(kind='ssh_hist', via=via, steps=[hstep(kh, 'write', **dict(first, **_RF)), hstep(kh, op, **_GR),
                                                        hstep(kh, op, user_cb=True, cb_verdict=False, **_GR)])
    if rng is not None:
        few = ['default', 'iosxe', 'junos', 'nexus']
        layouts = [None, [], A, B, C, [('hostport', 'E1')], [('hostport', 'E2')], [('other', 'E1')], [('host', 'R1')], [('host', 'E2'), ('hostport', 'E1')],
                   [('host', 'E1'), ('hostport', 'E2')], [('host', 'E2'), ('host', 'E1')]]
        for _ in range(250 if tier == 'quick' else 4000):
            via = rng.choice(HIST_VIAS)
            steps = []
            for j in range(rng.randint(2, 4)):
                kh = rng.choice(layouts[2:] if via == 'config' else layouts)
                op = 'write' if j == 0 else rng.choice(HIST_OPS + ['keep'])
                if op == 'keep': kh = steps[-1]['kh']
                ucb = rng.random() < 0.3
                pol = rng.choice(CB_POLICIES) if ucb and rng.random() < 0.5 else None
                steps.append(hstep(kh, op, verify=rng.random() < 0.9, pin=rng.choice([None] * 5 + ['E1', 'E2']), user_cb=ucb, cb_policy=pol,
                                   cb_verdict=ucb and rng.random() < 0.5, profile=rng.choice(few), server_key=rng.choice(['E1', 'E1', 'E2', 'E3', 'R1']),
                                   **rng.choice([_GR, _RF])))
            yield dict(kind='ssh_hist', via=via, steps=steps)

def check_ssh_hist(ctx, h, mos):
    """mos: output of Auth.ssh_history (one [events, result, detail] per session), an error string, or None"""
    if isinstance(mos, str):
        ctx.disagree(h, mos, None, 'model runner error', theorem='C15_fresh_judgement'); mos = None
    kf = H().KnownHostsFile(h.get('via', 'default'))
    try:
        ctx.count(h); ctx.hist('hist_via', kf.via); ctx.hist('hist_sessions', len(h['steps']))
        for i, s in enumerate(h['steps']):
            kf.put(s['kh'], s['op'])
            c = hist_step_case(h, i)
            raw, code, exn, detail = H().run_ssh_fake(c, khfile=kf)
            ctx.traces += 1
            if i: ctx.hist('hist_file_changed_by', s['op'])
            ctx.hist('hist_result', {0: 'Ok', 1: 'SSHUnknownHostError', 2: 'AuthenticationError', 3: 'SSHError'}.get(code, 'other:%s' % exn))
            where = 'session %d of %d in one process (known_hosts%s now holds %s, brought there by "%s"): ' % (
                i + 1, len(h['steps']), {'default': '', 'explicit': ' given to load_known_hosts', 'config': ' named by UserKnownHostsFile'}[kf.via], s['kh'], s['op'])
            im = [impl_events(raw), code, detail]
            mo = mos[i] if mos else None
            if mo is not None:
                evs, how, mcode, mdet = model_events(mo)
                if [evs, mcode, mdet] != im:
                    ctx.disagree(h, [evs, mcode, mdet], im, where + 'Auth.ssh_history (ssh_connect on the file content of that moment) vs the connect of that session',
                                 theorem='C15_fresh_judgement/C15_reject/C15_verify_first')
            for sig, text in ssh_oracle(c, raw, code, detail):
                ctx.fail(h, where + text, sig=None, expected='property C15 (%s)' % sig,
                         actual=dict(session=i + 1, events=im[0], result=code, exception=exn, exception_carries=detail))
    finally:
        kf.discard()

def real_hstep(kh, op, **conn):
    return dict(kh=kh, op=op, conn=conn)

def real_hist_step_case(h, i):
    s = h['steps'][i]
    c = dict(kind='ssh_real', hostkey='ecdsa', verify=True, kh=s['kh'], pin=None, cb=None, password='right', keyfile=None, subsystem_ok=True)
    c.update(s.get('conn', {}))
    return c

def real_ssh_histories(tier):
    """the same on the real paramiko path: a real server (key E1) over a socketpair per session"""
    W = dict(password='wrong')
    pairs = [('host', 'different'), ('different', 'host'), ('hostport', 'different_hostport'), ('host', 'absent'), ('host', 'empty')]
    if tier == 'quick':
        grid = [(v, o, pr) for v, o, pr in itertools.product(HIST_VIAS, HIST_OPS, pairs[:3]) if o != 'write'] + \
               [('default', 'write', pairs[3]), ('explicit', 'replace_older', pairs[3]), ('config', 'replace_equal', pairs[4])]
    else:
        grid = [(v, o, pr) for v, o, pr in itertools.product(HIST_VIAS, HIST_OPS, pairs) if not (v == 'config' and pr[1] == 'absent')]
    for j, (via, op, (k1, k2)) in enumerate(grid):
        yield dict(kind='ssh_hist_real', via=via, steps=[real_hstep(k1, 'write', **W), real_hstep(k2, op, **(W if j % 2 else {}))])
    for via, (o2, o3) in itertools.product(HIST_VIAS, [('replace_older', 'replace_older'), ('replace_equal', 'inplace_keep')] if tier == 'quick'
                                           else itertools.product(HIST_OPS[1:], HIST_OPS[1:])):
        yield dict(kind='ssh_hist_real', via=via, steps=[real_hstep('host', 'write', **W), real_hstep('different', o2, **W), real_hstep('host', o3)])
    # an accepting callback in the first session is not trust in the second
    for via in HIST_VIAS:
        yield dict(kind='ssh_hist_real', via=via, steps=[real_hstep('different', 'write', cb=True, **W), real_hstep('different', 'keep'),
                                                         real_hstep('different', 'replace_equal', cb='only_stored')])

def check_ssh_hist_real(ctx, h):
    n = len(h['steps'])
    cs = [real_hist_step_case(h, i) for i in range(n)]
    def once():
        kf = H().KnownHostsFile(h.get('via', 'default'))
        try:
            rs = []
            for s, c in zip(h['steps'], cs):
                kf.put(H().real_kh_entries(c), s['op'])
                rs.append(H().run_ssh_real(c, khfile=kf))
            return rs
        finally:
            kf.discard()
    rs = retry3(once, lambda rs: not any(real_judge(c)[0](r) for c, r in zip(cs, rs)))
    ctx.count(h); ctx.hist('real_hist_via', h.get('via', 'default'))
    for i, (s, c, r) in enumerate(zip(h['steps'], cs, rs)):
        if i: ctx.hist('real_hist_file_changed_by', s['op'])
        real_report(ctx, h, c, r, where='session %d of %d in one process (known_hosts layout now "%s", brought there by "%s"): ' % (i + 1, n, s['kh'], s['op']))

# ------------------------------------------------------------------ ONE session object connected several times
# connect() may be called again on an SSHSession whose previous connect() raised before the session thread was started
# (unknown host, failed key exchange, failed authentication, refused subsystem).  The property sentence is about "the server's
# key" of THE connect being made: every connect of such an object is judged on its own arguments and on the key ITS peer
# presented (oracle: ssh_oracle on that step; model: Auth.ssh_history, C15_fresh_judgement).  What an earlier connect of the
# object was presented / asked / accepted must not matter: the peer's key, the callback and its policy, the pin, the
# credentials change between the connects; the known_hosts file does not (a session object accumulates what it loads).
REUSE_POLS = [dict(user_cb=True, cb_policy=['fp', 'E1']), dict(user_cb=True, cb_policy=['fp', 'E2']), dict(user_cb=True, cb_policy=['fp', 'R1']),
              dict(user_cb=True, cb_policy=['fp', 'X9']), dict(user_cb=True, cb_policy=['hostfp', 'host', 'E1']), dict(user_cb=True, cb_policy=['hostfp', 'host', 'E2']),
              dict(user_cb=True, cb_verdict=True), dict(user_cb=True, cb_verdict=False), dict(user_cb=False)]
REUSE_FAILS = [dict(password=True, auths=[False]), dict(password=True, auths=[True], opens=[True, True], subs=[False, False]),
               dict(password=True, auths=[True], kex_ok=False), dict(verify=False, password=True, auths=[False])]

def reuse_step_case(h, i):
    return ssh_case(kh=h['kh'], profile=h.get('profile', 'default'), **h['steps'][i])

def reuse_model_call(h):
    return [3, [ssh_model_call(reuse_step_case(h, i))[1:] for i in range(len(h['steps']))]]

def ssh_reuse_histories(tier, rng=None):
    keys = ['E1', 'E2', 'R1']
    khs = [None, [('host', 'E1')], [('hostport', 'E2')], [('host', 'E3')]]
    quick = tier == 'quick'
    # two connects: the peer's key and the outcome of the first x the peer's key of the second, the caller's callback the same
    # function both times (a caller that pins a fingerprint) or a rejecting one the second time
    for kh, k1, k2, p1, f1, cr2 in itertools.product(khs, keys, keys, REUSE_POLS, REUSE_FAILS, [_GR, _RF]):
        if quick and (f1 is not REUSE_FAILS[0]) and (cr2 is _RF or kh not in (None, [('host', 'E1')])): continue
        for p2 in ([p1] if quick else [p1, REUSE_POLS[7], REUSE_POLS[8]]):
            yield dict(kind='ssh_reuse', kh=kh, profile='default', steps=[dict(p1, server_key=k1, **f1), dict(p2, server_key=k2, **cr2)])
    # the pin / the profile change the reason to trust, not the key the question is about
    for k1, k2, p, pin, prof in itertools.product(keys, keys, REUSE_POLS[:6], ['E1', 'E2'], ['default', 'iosxe']):
        yield dict(kind='ssh_reuse', kh=None, profile=prof, steps=[dict(p, server_key=k1, **_RF), dict(p, server_key=k2, pin=pin, **_GR)])
        yield dict(kind='ssh_reuse', kh=None, profile=prof, steps=[dict(p, server_key=k1, pin=pin, **_RF), dict(p, server_key=k2, **_GR)])
    # three connects: A, B, back to A / on to C
    for (k1, k2, k3), p, f1, f2 in itertools.product([('E1', 'E2', 'E1'), ('E1', 'E2', 'E3'), ('E2', 'E1', 'R1'), ('R1', 'E1', 'E1')], REUSE_POLS, REUSE_FAILS, REUSE_FAILS):
        if quick and f1 is not REUSE_FAILS[0] and f2 is not REUSE_FAILS[0]: continue
        yield dict(kind='ssh_reuse', kh=None, profile='default', steps=[dict(p, server_key=k1, **f1), dict(p, server_key=k2, **f2), dict(p, server_key=k3, **_GR)])
    if rng is not None:
        for _ in range(300 if quick else 5000):
            steps = []
            for j in range(rng.randint(2, 4)):
                ucb = rng.random() < 0.8
                pol = rng.choice(CB_POLICIES) if ucb and rng.random() < 0.7 else None
                steps.append(dict(verify=rng.random() < 0.9, pin=rng.choice([None] * 5 + ['E1', 'E2', 'bad']), user_cb=ucb, cb_policy=pol, cb_verdict=ucb and rng.random() < 0.5,
                                  server_key=rng.choice(['E1', 'E2', 'E3', 'R1']), kex_ok=rng.random() < 0.9, subs=[rng.random() < 0.7 for _ in range(2)],
                                  **rng.choice([_GR, _RF, _RF])))
            yield dict(kind='ssh_reuse', kh=rng.choice(khs + [[('host', 'E2'), ('hostport', 'E1')], []]), profile=rng.choice(['default', 'default', 'iosxe', 'junos']), steps=steps)

def check_ssh_reuse(ctx, h, mos):
    """mos: output of Auth.ssh_history on the steps (one [events, result, detail] per connect), an error string, or None"""
    if isinstance(mos, str):
        ctx.disagree(h, mos, None, 'model runner error', theorem='C15_fresh_judgement'); mos = None
    ctx.count(h); ctx.hist('reuse_connects', len(h['steps']))
    holder = {}
    prev_key = None
    for i in range(len(h['steps'])):
        c = reuse_step_case(h, i)
        raw, code, exn, detail = H().run_ssh_fake(c, reuse=holder)
        ctx.traces += 1
        if i: ctx.hist('reuse_peer_key', 'same as in the previous connect' if c['server_key'] == prev_key else 'changed')
        prev_key = c['server_key']
        ctx.hist('reuse_result', {0: 'Ok', 1: 'SSHUnknownHostError', 2: 'AuthenticationError', 3: 'SSHError'}.get(code, 'other:%s' % exn))
        where = 'connect %d of %d on ONE SSHSession object (this peer presents %s): ' % (i + 1, len(h['steps']), c['server_key'])
        im = [impl_events(raw), code, detail]
        mo = mos[i] if mos else None
        if mo is not None:
            evs, how, mcode, mdet = model_events(mo)
            if [evs, mcode, mdet] != im:
                ctx.disagree(h, [evs, mcode, mdet], im, where + 'Auth.ssh_history (ssh_connect on the arguments and the peer of that connect) vs that connect',
                             theorem='C15_fresh_judgement/C15_callback_args/C15_reject')
        for sig, text in ssh_oracle(c, raw, code, detail):
            ctx.fail(h, where + text, sig=None, expected='property C15 (%s)' % sig,
                     actual=dict(connect=i + 1, events=im[0], result=code, exception=exn, exception_carries=detail))
        if code == 0: break                    # connected: the object is in use, no further connect() on it

def real_reuse_histories(tier):
    """the same against the real paramiko server: one SSHSession object, a new server (socketpair) per connect, its key per step"""
    W, R = dict(password='wrong'), dict(password='right')
    def st(k, cb, cr, **kw): return dict(srvkey=k, cb=cb, **dict(cr, **kw))
    hs = [('absent', [st('E1', 'fp:E1', W), st('E2', 'fp:E1', R)]),                        # pinned fingerprint, then another device
          ('absent', [st('E1', 'fp:E2', W), st('E2', 'fp:E2', W), st('E2', 'fp:E2', R)]),  # rejected, accepted, accepted
          ('host', [st('E1', 'fp:E1', W), st('E2', 'fp:E1', R)]),                          # first trusted by the file (callback not asked)
          ('absent', [st('E1', 'only_presented', W), st('E2', 'only_presented', R)]),
          ('different', [st('E1', True, W), st('E3', 'fp:E1', R), st('E2', 'fp:E1', W)])]
    if tier != 'quick':
        for kh, k1, k2, cb, cr in itertools.product(['absent', 'host', 'different_hostport'], ['E1', 'E2', 'E3'], ['E1', 'E2', 'E3'],
                                                    ['fp:E1', 'fp:E2', 'fp:E3', 'only_presented', 'only_random', True], [W, R]):
            hs.append((kh, [st(k1, cb, W), st(k2, cb, cr)]))
            if cr is R: hs.append((kh, [st(k1, cb, W, pin='different'), st(k2, cb, cr, verify=(k1 != 'E3'))]))
    for kh, steps in hs:
        yield dict(kind='ssh_reuse_real', kh=kh, steps=steps)

def real_reuse_step_case(h, i):
    c = dict(kind='ssh_real', hostkey='ecdsa', verify=True, kh=h['kh'], pin=None, cb=None, password='right', keyfile=None, subsystem_ok=True)
    c.update(h['steps'][i])
    return c

def check_ssh_reuse_real(ctx, h):
    cs = [real_reuse_step_case(h, i) for i in range(len(h['steps']))]
    def once():
        holder, rs = {}, []
        for c in cs:
            rs.append(H().run_ssh_real(c, reuse=holder))
            if rs[-1]['code'] == 0: break
        return rs
    rs = retry3(once, lambda rs: not any(real_judge(c)[0](r) for c, r in zip(cs, rs)))
    ctx.count(h); ctx.hist('real_reuse_connects', len(rs))
    for i, (c, r) in enumerate(zip(cs, rs)):
        real_report(ctx, h, c, r, where='connect %d of %d on ONE SSHSession object (this server presents %s): ' % (i + 1, len(cs), c['srvkey']))

# ------------------------------------------------------------------ TLS (recording SSLContext)
TLS_KEYS = ['host', 'certfile', 'protocol', 'check_hostname', 'ca', 'server_hostname', 'load_cert', 'load_ca', 'connect_ok', 'handshake_ok', 'hello_ok']
def tls_cases():
    for v in itertools.product([1, 0], [1, 0], [1, 0], [1, 0], [1, 0], [0, 1], [0, 1, 2], [0, 1, 2], [1, 0], [1, 0], [1, 0]):
        yield dict(zip(TLS_KEYS, v), kind='tls')

def tls_model_call(c):
    return [2, [c['host'], c['certfile'], c['protocol'], c['check_hostname'], c['ca'], c['server_hostname']],
            [c['load_cert'], c['load_ca'], c['connect_ok'], c['handshake_ok'], c['hello_ok']]]

def tls_oracle(c, raw, code):
    bad = []
    names = [e[0] for e in raw]
    if 'SendHello' in names:
        i = names.index('SendHello')
        hs = [e for e in raw[:i] if e[0] == 'Handshake']
        if not hs: bad.append(('hello_without_handshake', 'hello written without a TLS handshake before it'))
        elif not hs[-1][1]: bad.append(('handshake_without_required_verification', 'handshake made with verify_mode != CERT_REQUIRED'))
        elif hs[-1][2] != bool(c['check_hostname']): bad.append(('check_hostname_not_callers_flag', 'check_hostname=%r, caller passed %r' % (hs[-1][2], bool(c['check_hostname']))))
        if not c['handshake_ok']: bad.append(('hello_after_failed_handshake', 'hello written although the handshake failed'))
    for e in raw:
        if e[0] == 'Handshake' and (not e[1] or e[2] != bool(c['check_hostname'])):
            bad.append(('weak_handshake', 'handshake with verify_required=%r check_hostname=%r (caller: %r)' % (e[1], e[2], bool(c['check_hostname']))))
            break
    reached_hs = 'Handshake' in names
    if reached_hs and not c['handshake_ok'] and code != 4:
        bad.append(('wrong_exception_for_failed_handshake', 'handshake failed, expected TLSError, got %d' % code))
    if not reached_hs and code != 4:
        bad.append(('wrong_exception_before_handshake', 'connect ended before the handshake with %d, expected TLSError' % code))
    return bad

def check_tls(ctx, c, mo):
    raw, code, exn = H().run_tls_fake(c)
    ctx.count(c, nontrivial=bool(c['host'] and c['certfile'] and c['protocol']))
    ctx.traces += 1
    ctx.hist('tls_result', {0: 'Ok', 4: 'TLSError'}.get(code, 'other:%s' % exn))
    im = [[list(e) for e in raw], code]
    if mo is not None:
        if isinstance(mo, str): ctx.disagree(c, mo, im, 'model runner error', theorem='C15_tls'); return
        evs, _, mcode, _ = model_events(mo)
        if [evs, mcode] != im:
            ctx.disagree(c, [evs, mcode], im, 'Auth.tls_connect vs manager.connect_tls on the recording SSLContext', theorem='C15_tls')
    for sig, text in tls_oracle(c, raw, code):
        ctx.fail(c, text, sig=None, expected='property C15 (%s)' % sig, actual=dict(events=im[0], result=code, exception=exn))

# ------------------------------------------------------------------ thorough: real peers
def real_ssh_cases():
    creds = [dict(password='right', keyfile=None), dict(password='wrong', keyfile=None), dict(password=None, keyfile='right'),
             dict(password=None, keyfile='wrong'), dict(password='right', keyfile='wrong'), dict(password='wrong', keyfile='right'),
             dict(password=None, keyfile=None)]
    for verify, kh, pin, cb, cr in itertools.product([True, False], ['absent', 'host', 'hostport', 'different'], [None, 'match', 'different'],
                                                     [None, True, False], creds):
        yield dict(kind='ssh_real', hostkey='ecdsa', verify=verify, kh=kh, pin=pin, cb=cb, subsystem_ok=True, **cr)
    for cr in creds[:3]:
        yield dict(kind='ssh_real', hostkey='ecdsa', verify=True, kh='host', pin=None, cb=None, subsystem_ok=False, **cr)
    # callbacks that decide by the fingerprint they are shown, the host known under ANOTHER key of the same type
    for kh, pin, cb, cr in itertools.product(['absent', 'host', 'hostport', 'different', 'different_hostport', 'different_both'], [None, 'different'],
                                             ['only_presented', 'only_stored', 'only_random'], creds[:2]):
        yield dict(kind='ssh_real', hostkey='ecdsa', verify=True, kh=kh, pin=pin, cb=cb, subsystem_ok=True, **cr)
    # RSA 2048 host key: see notes/C15.md O3 (an RSA key in known_hosts / pinned restricts negotiation to "ssh-rsa")
    for verify, kh, pin, cb, cr in itertools.product([True, False], ['absent', 'host', 'different'], [None, 'match', 'different'], [None, True], creds[:2]):
        yield dict(kind='ssh_real', hostkey='rsa', verify=verify, kh=kh, pin=pin, cb=cb, subsystem_ok=True, **cr)

def _real_names(c):
    """pool names of (the key the server presents, the key the 'different*' layouts store / pin 'different' pins)"""
    rsa = c.get('hostkey', 'ecdsa') == 'rsa'
    return ('SRVR' if rsa else c.get('srvkey', 'E1')), ('R1' if rsa else 'E2'), ('SRVR' if rsa else 'E1')

def real_ssh_expect(c):
    """Independent statement of the property for the real-server cases: (trusted?, authenticated?)."""
    sk, oth, stored = _real_names(c)
    # a fingerprint-checking callback says yes exactly when the fingerprint it trusts is the presented key's
    if isinstance(c['cb'], str):
        cb_true = (c['cb'][3:] if c['cb'].startswith('fp:') else {'only_presented': sk, 'only_stored': oth, 'only_random': 'X9'}[c['cb']]) == sk
    else: cb_true = bool(c['cb'])
    in_file = {'host': stored, 'hostport': stored, 'different': oth, 'different_hostport': oth, 'different_both': oth}.get(c['kh']) == sk
    if not c['verify']: trusted = True
    elif c['pin']: trusted = {'match': sk, 'different': oth}[c['pin']] == sk or cb_true
    else: trusted = in_file or cb_true
    # (an unencrypted key file is not usable together with a password: see load_ok)
    authed = c['password'] == 'right' or (c['keyfile'] == 'right' and not c['password'])
    return trusted, authed

def real_ssh_model(c, kex_ok=True):
    """the same case for the model (an RSA server key is played by E1, the other key of that type by E2)"""
    sk = 'E1' if c.get('hostkey', 'ecdsa') == 'rsa' else c.get('srvkey', 'E1')
    kh = {'absent': None, 'empty': [], 'host': [('host', 'E1')], 'hostport': [('hostport', 'E1')], 'different': [('host', 'E2')],
          'different_hostport': [('hostport', 'E2')], 'different_both': [('host', 'E2'), ('hostport', 'E2')]}[c['kh']]
    pol = None
    if isinstance(c['cb'], str):
        pol = ['fp', c['cb'][3:]] if c['cb'].startswith('fp:') else {'only_presented': ['fp', sk], 'only_stored': ['fp', 'E2'], 'only_random': ['fp', 'X9']}[c['cb']]
    pin = {None: None, 'match': sk, 'different': 'E2'}[c['pin']]
    auths = []
    key_tried = bool(c['keyfile']) and load_ok('kf0', c['password'])
    if key_tried: auths.append(c['keyfile'] == 'right')
    if c['password'] and not (key_tried and c['keyfile'] == 'right'): auths.append(c['password'] == 'right')
    return ssh_case(verify=c['verify'], kh=kh, pin=pin, user_cb=c['cb'] is not None, cb_verdict=bool(c['cb']) and not pol, cb_policy=pol,
                    key_files=['kf0'] if c['keyfile'] else [], password=bool(c['password']), auths=auths, server_key=sk,
                    subs=[c['subsystem_ok']], opens=[True], kex_ok=kex_ok)

def retry3(f, good):
    r = None
    for _ in range(3):
        r = f()
        if good(r): return r
    return r

def real_judge(c):
    """The property sentence on what the real server saw, for one connect described by c.  Returns (judge, kex_failed, rsa_restricted)."""
    trusted, authed = real_ssh_expect(c)
    want_code = 1 if not trusted else (2 if not authed else (0 if c['subsystem_ok'] else 3))
    # O3: with an RSA key recorded for the host (or pinned) ssh.py asks for the host key algorithm "ssh-rsa" only, which
    # paramiko >= 4 cannot negotiate: SSHError("Negotiation failed") is then tolerated, the safety clauses are not relaxed
    rsa_restricted = c.get('hostkey') == 'rsa' and bool(c['pin'] or (c['verify'] and c['kh'] not in ('absent', 'empty')))
    def kex_failed(r): return r['code'] == 3 and 'Negotiation failed' in r['msg']
    def judge(r):
        bad = []
        auths = [e for e in r['server'] if e[0] == 'auth' and e[1] != 'none']
        subs = [e for e in r['server'] if e[0] == 'subsystem']
        if c['verify'] and not trusted:
            if auths: bad.append(('credential_or_traffic_without_trusted_hostkey', 'the server received %r from a client that could not trust its key' % (auths,)))
            if subs or r['bytes']: bad.append(('credential_or_traffic_without_trusted_hostkey', 'subsystem request / %d octets received' % len(r['bytes'])))
        if not any(e[2] for e in auths) and (subs or r['bytes'] or r['code'] == 0):
            bad.append(('session_without_authentication', 'subsystem %r, %d octets, result %d without a granted request' % (subs, len(r['bytes']), r['code'])))
        for a in r['cb_asked']:
            if list(a) != list(r['presented']):
                bad.append(('callback_shown_wrong_arguments', 'unknown_host_cb was called with %r; the host dialled and the fingerprint of the key the server presented are %r' % (a, r['presented'])))
                break
        if r['code'] == 1 and r['exc_args'][1] != r['presented'][1]:
            bad.append(('unknown_host_error_wrong_fingerprint', 'SSHUnknownHostError.fingerprint = %r; the server presented %r' % (r['exc_args'][1], r['presented'][1])))
        if r['code'] != want_code and not (rsa_restricted and kex_failed(r) and not auths):
            bad.append(('wrong_result', 'expected result %d, got %d (%s: %s)' % (want_code, r['code'], r['exc'], r['msg'])))
        if r['code'] == 0 and b'<hello' not in r['bytes'].replace(b'nc:hello', b'hello'):
            bad.append(('no_hello_received', 'connected but the server did not receive the client hello (%d octets)' % len(r['bytes'])))
        return bad
    return judge, kex_failed, rsa_restricted

def real_report(ctx, case, c, r, where=''):
    """oracle + model comparison for ONE connect c (observed: r) of the replayable case `case` (c itself, or a history containing c)"""
    judge, kex_failed, rsa_restricted = real_judge(c)
    ctx.traces += 1
    ctx.hist('real_ssh_result', (c.get('hostkey', 'ecdsa') + ':') + (r['exc'] or 'Ok') + (' (negotiation)' if kex_failed(r) else ''))
    obs = dict(server=[list(e) for e in r['server']], octets=len(r['bytes']), result=r['code'], exception=r['exc'], message=r['msg'],
               callback_called_with=r['cb_asked'], presented=r['presented'])
    for sig, text in judge(r):
        ctx.fail(case, where + text, sig=None, expected='property C15 (%s)' % sig, actual=obs)
    if ctx.model:
        # the library's key-exchange verdict is an oracle answer of the model
        mo = ctx.model.call(ssh_model_call(real_ssh_model(c, kex_ok=not (rsa_restricted and kex_failed(r)))))
        if isinstance(mo, str): ctx.disagree(case, mo, obs, 'model runner error', theorem='C15_*'); return
        evs, _, mcode, _ = model_events(mo)
        m_asked = sum(1 for e in evs if e[0] == 'CallbackAsked')
        m_auth = [[{0: 'publickey', 3: 'password'}.get(e[1], '?'), e[3]] for e in evs if e[0] == 'Auth']
        i_auth = [[e[1], e[2]] for e in r['server'] if e[0] == 'auth' and e[1] != 'none']
        m_sub = [e[1] for e in evs if e[0] == 'Invoke']; i_sub = [e[1] for e in r['server'] if e[0] == 'subsystem']
        if [m_auth, m_sub, mcode, any(e[0] == 'SendHello' for e in evs), m_asked] != [i_auth, i_sub, r['code'], len(r['bytes']) > 0, len(r['cb_asked'])]:
            ctx.disagree(case, [m_auth, m_sub, mcode, m_asked], [i_auth, i_sub, r['code'], len(r['bytes']), len(r['cb_asked'])],
                         where + 'Auth.ssh_connect vs SSHSession.connect against a real paramiko server', theorem='C15_verify_first/C15_reject/C15_auth_fail')

def check_ssh_real(ctx, c, mo=None):
    judge = real_judge(c)[0]
    r = retry3(lambda: H().run_ssh_real(c), lambda r: not judge(r))
    ctx.count(c)
    real_report(ctx, c, c, r)

def real_tls_cases():
    for cert, ca, ch, sh in itertools.product(['good', 'mismatch', 'wrongca', 'selfsigned'], ['ca1', 'ca2', None], [True, False],
                                              [None, 'other.example', 'localhost']):
        yield dict(kind='tls_real', cert=cert, ca=ca, check_hostname=ch, server_hostname=sh)

def real_tls_expect(c):
    chains = (c['ca'] == 'ca1' and c['cert'] in ('good', 'mismatch')) or (c['ca'] == 'ca2' and c['cert'] == 'wrongca')
    name = c['server_hostname'] or '127.0.0.1'
    names = {'good': ('127.0.0.1', 'localhost'), 'wrongca': ('127.0.0.1', 'localhost'), 'selfsigned': ('127.0.0.1', 'localhost'),
             'mismatch': ('other.example',)}[c['cert']]
    return chains and (not c['check_hostname'] or name in names)

def check_tls_real(ctx, pki, c):
    ok = real_tls_expect(c)
    def judge(r):
        bad = []
        if not ok:
            if r['bytes']: bad.append(('netconf_octets_before_verified_handshake', 'the server received %d application octets although its certificate must not verify' % len(r['bytes'])))
            if r['code'] != 4: bad.append(('wrong_exception_for_failed_handshake', 'expected TLSError, got %d (%s)' % (r['code'], r['exc'])))
        else:
            if r['code'] != 0: bad.append(('verified_peer_refused', 'certificate chains to the given CA and the name matches, got %s' % r['exc']))
            elif b'hello' not in r['bytes']: bad.append(('no_hello_received', 'connected but no hello received'))
        return bad
    r = retry3(lambda: H().run_tls_real(pki, c), lambda r: not judge(r))
    ctx.count(c); ctx.traces += 1
    ctx.hist('real_tls_result', r['exc'] or 'Ok')
    for sig, text in judge(r):
        ctx.fail(c, text, sig=None, expected='property C15 (%s)' % sig,
                 actual=dict(result=r['code'], exception=r['exc'], octets=len(r['bytes']), server_handshake=r['server_handshake']))
    # model: the handshake verdict of the real library is the oracle answer
    if ctx.model:
        mo = ctx.model.call(tls_model_call(dict(host=1, certfile=1, protocol=1, check_hostname=c['check_hostname'], ca=bool(c['ca']),
                                                server_hostname=bool(c['server_hostname']), load_cert=0, load_ca=0, connect_ok=1,
                                                handshake_ok=ok, hello_ok=1)))
        if not isinstance(mo, str):
            evs, _, mcode, _ = model_events(mo)
            if [mcode, any(e[0] == 'SendHello' for e in evs)] != [r['code'], len(r['bytes']) > 0]:
                ctx.disagree(c, [mcode], [r['code'], len(r['bytes'])], 'Auth.tls_connect vs TLSSession.connect against a real ssl server', theorem='C15_tls')

# ------------------------------------------------------------------ dispatch
def run_one(ctx, c, mo='call'):
    kind = c.get('kind', 'ssh')
    if kind == 'ssh':
        if mo == 'call': mo = ctx.model.call(ssh_model_call(c)) if ctx.model else None
        check_ssh(ctx, c, mo)
    elif kind == 'tls':
        if mo == 'call': mo = ctx.model.call(tls_model_call(c)) if ctx.model else None
        check_tls(ctx, c, mo)
    elif kind == 'ssh_hist':
        check_ssh_hist(ctx, c, ctx.model.call(hist_model_call(c)) if (mo is not None and ctx.model) else None)
    elif kind == 'ssh_hist_real':
        check_ssh_hist_real(ctx, c)
    elif kind == 'ssh_reuse':
        check_ssh_reuse(ctx, c, ctx.model.call(reuse_model_call(c)) if (mo is not None and ctx.model) else None)
    elif kind == 'ssh_reuse_real':
        check_ssh_reuse_real(ctx, c)
    elif kind == 'ssh_real':
        check_ssh_real(ctx, c)
    elif kind == 'tls_real':
        check_tls_real(ctx, _pki(), c)

_pki_dir = None
def _pki():
    global _pki_dir
    if _pki_dir is None: _pki_dir = H().make_pki()
    return _pki_dir

def run(ctx):
    os.makedirs(paths.RUN, exist_ok=True)
    for f in sorted(glob.glob(os.path.join(paths.CORPUS, ID, '*.json'))):
        run_one(ctx, json.load(open(f))['case'])
    sc = [dict(c, kind='ssh') for c in ssh_cases(ctx)]
    outs = ctx.model.batch([ssh_model_call(c) for c in sc]) if ctx.model else [None] * len(sc)
    for c, mo in zip(sc, outs): check_ssh(ctx, c, mo)
    hs = list(ssh_histories(ctx.tier, ctx.rng))
    outs = ctx.model.batch([hist_model_call(h) for h in hs]) if ctx.model else [None] * len(hs)
    for h, mo in zip(hs, outs): check_ssh_hist(ctx, h, mo)
    ru = list(ssh_reuse_histories(ctx.tier, ctx.rng))
    outs = ctx.model.batch([reuse_model_call(h) for h in ru]) if ctx.model else [None] * len(ru)
    for h, mo in zip(ru, outs): check_ssh_reuse(ctx, h, mo)
    rh = list(real_ssh_histories(ctx.tier))
    for h in rh: check_ssh_hist_real(ctx, h)
    rr = list(real_reuse_histories(ctx.tier))
    for h in rr: check_ssh_reuse_real(ctx, h)
    tc = list(tls_cases())
    outs = ctx.model.batch([tls_model_call(c) for c in tc]) if ctx.model else [None] * len(tc)
    for c, mo in zip(tc, outs): check_tls(ctx, c, mo)
    ctx.exhaustive = True
    ctx.extra['grid'] = dict(ssh_cases=len(sc), tls_cases=len(tc), ssh_histories=len(hs), ssh_history_sessions=sum(len(h['steps']) for h in hs), real_ssh_histories=len(rh),
                             ssh_reuse_histories=len(ru), ssh_reuse_connects=sum(len(h['steps']) for h in ru), real_reuse_histories=len(rr))
    if ctx.tier == 'thorough':
        rc = list(real_ssh_cases())
        for c in rc: check_ssh_real(ctx, c)
        tr = list(real_tls_cases())
        for c in tr: check_tls_real(ctx, _pki(), c)
        ctx.extra['grid'].update(real_ssh_cases=len(rc), real_tls_cases=len(tr))
    else:
        # a handful of real-peer cases even in the quick tier (seconds): one per outcome class
        for c in [dict(kind='ssh_real', verify=True, kh='absent', pin=None, cb=None, password='right', keyfile=None, subsystem_ok=True),
                  dict(kind='ssh_real', verify=True, kh='hostport', pin=None, cb=None, password='wrong', keyfile=None, subsystem_ok=True),
                  dict(kind='ssh_real', verify=True, kh='different', pin='match', cb=None, password='right', keyfile=None, subsystem_ok=True),
                  dict(kind='ssh_real', hostkey='rsa', verify=True, kh='absent', pin=None, cb=True, password='right', keyfile=None, subsystem_ok=True),
                  # the host is known under another key of the same type; the caller's callback trusts one fingerprint only
                  dict(kind='ssh_real', verify=True, kh='different', pin=None, cb='only_stored', password='wrong', keyfile=None, subsystem_ok=True),
                  dict(kind='ssh_real', verify=True, kh='different_hostport', pin=None, cb='only_stored', password='right', keyfile=None, subsystem_ok=True),
                  dict(kind='ssh_real', verify=True, kh='different_both', pin=None, cb='only_presented', password='right', keyfile=None, subsystem_ok=True)]:
            run_one(ctx, c)
        for c in [dict(kind='tls_real', cert='good', ca='ca1', check_hostname=True, server_hostname=None),
                  dict(kind='tls_real', cert='wrongca', ca='ca1', check_hostname=False, server_hostname=None),
                  dict(kind='tls_real', cert='mismatch', ca='ca1', check_hostname=True, server_hostname=None),
                  # the caller's server_hostname is what the certificate is matched against, not the dialled address
                  dict(kind='tls_real', cert='good', ca='ca1', check_hostname=True, server_hostname='other.example'),
                  dict(kind='tls_real', cert='mismatch', ca='ca1', check_hostname=True, server_hostname='other.example')]:
            run_one(ctx, c)

# ------------------------------------------------------------------ search / reproduce / replay
class _Probe:
    """a context that only collects oracle failures (used by search/replay)"""
    def __init__(self, model=None):
        import random
        self.model, self.tier, self.rng = model, 'quick', random.Random(0)
        self.failures, self.disagreements, self.evaluations, self.traces, self.extra = [], [], 0, 0, {}
    def count(self, *a, **k): self.evaluations += 1
    def hist(self, *a, **k): pass
    def sample(self, *a, **k): pass
    def note(self, *a, **k): pass
    def fail(self, case, what, sig=None, expected=None, actual=None):
        self.failures.append(dict(case=case, what=what, sig=sig, expected=expected, actual=actual))
    def disagree(self, case, model_out, impl_out, what, theorem=None):
        self.disagreements.append(dict(case=case, expected=model_out, actual=impl_out, what=what))

def search(ctx, seeds):
    """Tie broke: evaluate the property oracle alone on the disagreeing cases, then on the whole quick grid, then on a
    few real-peer cases; return the first input on which the property sentence itself fails."""
    p = _Probe(None)
    ctx_like = type('T', (), {'tier': 'quick'})()
    tries = list(seeds) + [dict(c, kind='ssh') for c in ssh_cases(ctx_like)] + list(tls_cases()) + list(ssh_histories('quick')) + list(ssh_reuse_histories('quick')) + list(real_ssh_histories('quick')) + list(real_reuse_histories('quick'))
    tries += list(itertools.islice(real_ssh_cases(), 0, None, 7)) + list(itertools.islice(real_tls_cases(), 0, None, 5))
    for c in tries:
        try:
            run_one(p, c, mo=None)
        except Exception:
            continue
        if p.failures:
            f = p.failures[0]
            return dict(case=f['case'], what=f['what'], sig=f['sig'], expected=f['expected'], actual=f['actual'])
    return None

def reproduce(finding):
    p = _Probe(None)
    run_one(p, finding['witness'], mo=None)
    return bool(p.failures)

def replay(doc):
    from vlib.model import Model
    c = doc['case']
    m = Model(ID)
    p = _Probe(m if os.path.exists(m.path) else None)
    run_one(p, c)
    print('case     :', json.dumps(c, sort_keys=True))
    for f in p.failures: print('property : FAILS -', f['what']); print('observed :', f['actual'])
    for d in p.disagreements: print('model    :', d['expected']); print('impl     :', d['actual'])
    if not p.failures and not p.disagreements: print('property : holds on this case; model and implementation agree')
    return not p.failures and not p.disagreements
