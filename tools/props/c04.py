"""C04 — decided on the session LTS (coq/Model/SessionLTS.v, coq/Props/C04.v); tie = trace validation of real
Session.run / RPC / RPCReplyListener threads under the deterministic scheduler (tools/harness/sched.py, lts.py)."""
import os, json, glob
from harness import lts_check
from vlib import paths
ID = 'C04'
RUNNER = 'LTS'
COQ_ROOTS = ['Props/C04.v', 'Props/C04_hist.v', 'Props/C04_end.v', 'Props/E2E.v', 'GenProps/Session_consts.v', 'GenProps/C04_consts.v']
RULE = ('A case is (scenario, schedule): client programs (sync/async requests, take_notification, await-disconnect), a scripted '
        'server (replies in any order, duplicates, unknown/missing ids, notifications, unknown messages, EOF/error) and the list of '
        'scheduler decisions at every synchronisation point (lock acquire, event set/wait, queue put/get, connected read, '
        'read/write/select, close). Small scenarios are enumerated depth-first with a pre-emption bound, larger ones are '
        'random. Distinct = distinct (scenario, decision list); non-trivial = at least one request was registered. '
        'Direct families on the real SSHSession / TLSSession / UnixSocketSession classes, free-running threads: real_end (loss with one '
        'request outstanding, stand-in sockets); real_hist = (transport, history of ONE session object before its successful connect: '
        'failed connect attempts of every kind, close(), the manager\'s clean-up, in any order; number of outstanding requests; kind of '
        'loss) against real in-process SSH / TLS / Unix peers; real_backlog = (transport, transport slow or not writable, number of '
        'pipelined asynchronous requests x threads queued unsent, synchronous callers, loss): every call returns or raises within its '
        'timeout, every request accepted before the loss is failed with a transport error; real_later = (transport, device profile, '
        'capabilities of the server hello, framing, outstanding requests of different operations, loss) x EVERY operation of the Manager '
        'API incl. the profile\'s vendor operations and the lock context manager, synchronous and asynchronous: a call that is a request '
        'on the live twin is refused with a transport error on the ended session; x any sequence of the closing operations on the ended '
        'session (close_session() synchronous / asynchronous, leaving the manager\'s with-block with an empty body / a body that raises / '
        'a body whose request is refused, further session.close() calls - each at least the second close() of the session), before or '
        'after the other calls: refused with a transport error (close(): returns), the body\'s exception is never replaced by a foreign one; real_apps = (transport, 0..3 application listeners '
        'with errbacks that raise / are slow / unregister themselves or everybody / register others / re-enter, forced position relative '
        'to the reply listener in the listener set, outstanding synchronous and pipelined requests, loss incl. an application callback '
        'that raises): every outstanding request still fails promptly with a transport error; real_end / real_later / real_apps also with an EARLIER history of the session: '
        'payloads that are not XML (lts.HOSTILE) for which the junos profile / a custom handler class (handle_raw_dispatch returns an exception of several '
        'classes) makes the session broadcast a NON-fatal error, before the requests or while some are outstanding, then new requests, then the loss: same oracle.')
ASSUMES = ['CPython executes the code between two instrumented synchronisation points atomically with respect to the other managed threads (GIL + cooperative scheduler)',
           'uuid4 message-ids are unique (fresh-id oracle of the LTS; a trace violating it is rejected by the model)',
           'threading.Event/Lock/queue.Queue/selectors behave as the instrumented stand-ins (tools/harness/sched.py)']
TRUSTED = ['modelled, not verified: threading, queue, selectors, the in-memory transport; inbound framing is composed with the LTS (Props/E2E.v, byte-level replay of the recorded reads by tools/harness/e2e_check.py; the concrete classifier of message texts Model/Classify.v is a scanner, the theorems hold for every classifier), outbound framing is C02',
           'tools/harness/sched.py, lts.py, lts_check.py (scheduler, effect log -> label mapping, oracles)',
           'tools/harness/real_end.py, real_hist.py, real_backlog.py, real_later.py (incl. its table of valid calls per operation, validated on a live twin session in every case), real_apps.py, c12_peers.py (stand-in sockets, in-process SSH/TLS/Unix peers, wall-clock bounds: a failing case is repeated once before it is reported)']

def _corpus():
    out = []
    for f in sorted(glob.glob(os.path.join(paths.CORPUS, ID, '*.json'))):
        d = json.load(open(f))
        d['spec']['clients'] = [[tuple(op) for op in ops] for ops in d['spec']['clients']]
        d['spec']['server'] = [tuple(a) for a in d['spec']['server']]
        out.append(d)
    return out

# ---- direct families on the real transport classes (no scheduler): histories of one session object, backlog of unsent requests
def _families():
    from harness import real_hist, real_backlog, real_later, real_apps
    return {'real_hist': real_hist, 'real_backlog': real_backlog, 'real_later': real_later, 'real_apps': real_apps}
FAMILIES = ('real_hist', 'real_backlog', 'real_later', 'real_apps')

def _direct_cases(tier, rng):
    fam = _families()
    H, B = fam['real_hist'], fam['real_backlog']
    L, A = fam['real_later'], fam['real_apps']
    if tier == 'quick':
        hs = H.core_cases() + [H.gen_case(rng, kind) for kind in H.KINDS + (rng.choice(H.KINDS),)]
        bs = B.core_cases() + [B.gen_case(rng) for _ in range(2)]
        ls = L.core_cases() + [L.gen_case(rng)]
        as_ = A.core_cases() + [A.gen_case(rng) for _ in range(3)]
    else:
        hs = H.all_cases() + [H.gen_case(rng) for _ in range(60)]
        bs = B.all_cases() + [B.gen_case(rng) for _ in range(30)]
        ls = L.all_cases() + [L.gen_case(rng) for _ in range(20)]
        as_ = A.all_cases() + [A.gen_case(rng) for _ in range(60)]
    return ([('real_hist', c) for c in hs] + [('real_backlog', c) for c in bs] + [('real_later', c) for c in ls] +
            [('real_apps', c) for c in as_])

def _judge(name, case):
    c = {k: v for k, v in case.items() if k != 'check' and not k.startswith('_')}
    f = _families()[name].judge(c)
    return f, dict(check=name, **{k: v for k, v in c.items() if not k.startswith('_')}), {k: v for k, v in c.items() if k.startswith('_')}

def run_direct(ctx):
    H = _families()['real_hist']
    hmodel = H.hist_model(ctx)
    tie, tie_end = [], []
    fam = _families()
    for name, case in _direct_cases(ctx.tier, ctx.rng):
        f, rec, info = _judge(name, case)
        if name == 'real_hist' and hmodel is not None:
            tie.append((rec, info.get('_flags')))
        if name in ('real_later', 'real_apps') and hmodel is not None and info.get('_tie'):
            tie_end.append((name, rec, info['_tie']))
        ctx.count(rec, key=[name, rec])
        if name == 'real_later':
            ctx.hist(name, '%s/%s' % (rec['kind'], rec.get('profile', 'default')))
            for row in (info.get('_tie') or {}).get('later', []): ctx.hist('later_op', '%s:%d' % (row[0], row[2]))
            for i, row in enumerate((info.get('_tie') or {}).get('closing', [])):
                ctx.hist('closing_op', '%s%s:%d' % (fam[name].CLOSING[row[0]], ' (first after the loss)' if i == 0 else '', row[1]))
            for row in (info.get('_tie') or {}).get('live_closing', []): ctx.hist('closing_op_live', '%s:%d' % (fam[name].CLOSING[row[0]], row[1]))
        elif name == 'real_apps':
            ctx.hist(name, '%s/%d listeners/%s' % (rec['kind'], len(rec.get('apps', [])), rec.get('loss')))
            for a in rec.get('apps', []): ctx.hist('app_errback', a.get('err', 'ok'))
            if info.get('_order') is not None:
                ctx.hist('bcast_order', ''.join('R' if x == 'R' else 'a' for x in info['_order']))
        else:
            ctx.hist(name, '%s/%s' % (rec['kind'], rec.get('writable') or len(rec.get('steps', []))))
        if name == 'real_hist':
            for st in rec['steps']: ctx.hist('hist_step', '/'.join(st))
        if f and f.startswith('rig:'):
            ctx.note(f)
        elif f:
            ctx.fail(rec, f, sig=None, expected='property %s' % ID, actual=f)
    if tie:
        outs = hmodel.batch([H.model_call(rec) for rec, _ in tie])
        for (rec, flags), mo in zip(tie, outs):
            d = H.compare(rec, flags, mo)
            ctx.traces += 1
            if d:
                ctx.disagree(rec, 'Model/SessionHist.v predicts the flags of the session object', d, 'flags of the real object along the history',
                             theorem='C04_hist_fresh_start')

    # Model/SessionEnd.v: the broadcast over the whole listener set; requests on the ended object
    calls, where = [], []
    for name, rec, t in tie_end:
        if name == 'real_apps' and t.get('snapshot') is not None:
            calls.append(fam[name].model_call(rec, t)); where.append((name, rec, t, 1))
        elif name == 'real_later' and t.get('later'):
            cs = fam[name].model_calls(rec, t); calls += cs; where.append((name, rec, t, len(cs)))
    if calls:
        outs = hmodel.batch(calls)
        i = 0
        for name, rec, t, n in where:
            mo = outs[i:i + n]; i += n
            ctx.traces += 1
            if name == 'real_apps':
                d = fam[name].compare(rec, t, mo[0])
                if fam[name].discriminates(mo[0]): ctx.hist('bcast_one_try_would_miss_reply_listener', 'yes')
                th = 'C04_bcast_visits_all'
            else:
                d = fam[name].compare(rec, t, mo)
                th = 'C04_later_refused / C04_closing_refused'
            if d:
                ctx.disagree(rec, 'Model/SessionEnd.v predicts the broadcast / the outcome class of every request on the ended session', d,
                             'the real session object', theorem=th)

def run(ctx):
    q = ctx.tier == 'quick'
    run_direct(ctx)
    lts_check.check(ctx, ID, n_random=500 if q else 6000, dfs_bound=2 if q else 3, dfs_cap=350 if q else 6000, corpus=_corpus())

def search(ctx, seeds):
    for name, case in _direct_cases('quick', ctx.rng):
        f, rec, info = _judge(name, case)
        if f and not f.startswith('rig:'):
            return dict(case=rec, what=f, sig=None, expected='property %s' % ID, actual=f)
    return lts_check.search(ctx, ID, seeds)

def reproduce(finding):
    w = finding['witness']
    if w.get('check') in FAMILIES:
        return _judge(w['check'], w)[0]
    w['spec']['clients'] = [[tuple(op) for op in ops] for ops in w['spec']['clients']]
    w['spec']['server'] = [tuple(a) for a in w['spec']['server']]
    sc = lts_check.run_case(w['spec'], decisions=list(w['decisions']), rng_after=False)
    return lts_check.ORACLES[ID](sc) is not None

def replay(doc):
    c = doc['case']
    if c.get('check') in FAMILIES:
        f, rec, info = _judge(c['check'], c)
        print('case      :', rec)
        print('expected  : property %s holds (every call returns or raises within its timeout; outstanding requests fail with a '
              'transport error promptly; the session reports itself disconnected; later requests are refused)' % ID)
        print('actual    :', f or 'holds', {k: v for k, v in info.items() if k not in ('_tie', '_flags') and v is not None} or '')
        return f is None
    if c.get('check') == 'real_end':
        f = lts_check.real_end_case()
        print('real_end :', f or 'holds'); return f is None
    return lts_check.replay(doc, ID)
