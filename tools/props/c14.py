"""C14 - malformed or hostile server input cannot corrupt or wedge a session.
Code: parser.py (_parse10/_parse11 error paths), session.py (_dispatch_message, run's except/close path), rpc.py
(RPCReplyListener.callback/errback).  Model and reference automata shared with C01 (coq/Glue/FramingGlue.v);
theorems: coq/Props/C14.v.  Harness: tools/harness/framing.py."""
import os, json, glob, itertools, time
from concurrent.futures import ThreadPoolExecutor

ID = 'C14'
COQ_ROOTS = ['Props/C14.v', 'Props/C14_session.v', 'GenProps/Framing_consts.v', 'GenProps/Writer_consts.v', 'GenProps/Session_consts.v']
ALPHABET = [b'\n', b'#', b'0', b'1', b'9', b']', b'>', b'a', b'<']
RULE = ('Parser level, both framing versions. (1) Mutation grammar over valid frame sequences: chunk header with a non-digit / '
        'missing # / missing LF / CRLF / huge size / size off by +-1 / size 0 / leading zeros / an invalid UTF-8 octet inside, '
        'missing header, corrupted end-of-chunks, stray LF##LF and ]]>]]> inside a payload (with and without the size adjusted), '
        'garbage before the first header, invalid UTF-8 of every class (lead without continuation, stray continuation, overlong, '
        'surrogate, > U+10FFFF, truncated at the frame end) at the start / middle / end of a payload, non-XML payloads, the other '
        'version\'s framing, truncation at EVERY offset; each x segmentations (whole, all size-1, random, all single cuts within 7 '
        'octets of the mutation, all single cuts for short streams). (2) Bounded-exhaustive streams over the alphabet '
        '{LF # 0 1 9 ] > a <}: quick = every stream of length <= 5 (66 429) fed whole and octet by octet, plus every stream of '
        'length 6 that starts with LF (1.1) / with ] (1.0) (59 049 each), plus ALL 2^(n-1) segmentations of every stream of length '
        '<= 4; thorough = every stream of length <= 6 (597 870) whole and octet by octet, length 7 starting with LF# (1.1) / ]] '
        '(1.0), ALL segmentations of every stream of length <= 5. Per case: extracted model vs DefaultXMLParser per segment '
        '(events, buffer, position / pending octets); property oracle = independent strict decoders oracle10/oracle11 on the '
        'concatenated stream: deliveries are exactly the payloads of the correctly framed messages, in order, each during the '
        'segment carrying the last octet of its terminator; a frame that is not UTF-8 is never delivered (UnicodeDecodeError during '
        'that segment, nothing afterwards); 1.1: a framing error at offset e means NetconfFramingError by the end of the segment '
        'containing e and nothing afterwards; no error - no exception. Session level: UnixSocketSession worker thread over a '
        'socketpair with 1-3 pending asynchronous RPCs and a scripted peer: (a) valid replies interleaved with correctly framed '
        'garbage frames, (b) a frame that is not UTF-8, (c) 1.1 streams that break chunk framing. A case is (base, segment list) '
        'or a session script; non-trivial = non-empty stream. '
        '(d) scenario h (tools/harness/c14_hist.py), every one of the 14 device profiles x both framings: histories "hostile / malformed '
        'message, then later requests" in phases - requests (asynchronous, and synchronous in their own threads), valid replies, notifications, '
        'then payloads that are not XML (an error report inside garbage, a correct-looking reply to an outstanding request behind garbage, '
        'text a profile tries to repair, ...) and messages with a VALID root start tag (<rpc-reply message-id=..>, <notification>) whose body is '
        'not well-formed (15 kinds: mismatched / unclosed / truncated tags, bare &, stray <, undefined entity, control character, unquoted / '
        'duplicate attribute, second root, trailing text, unbound prefix, open CDATA, bad comment); the application then takes the notifications '
        'with Manager.take_notification. Oracle (expat as the independent reader): a request holds its own reply text or nothing; a synchronous '
        'call never returns, an asynchronous caller cannot parse, a reply that is not well-formed; take_notification returns exactly the '
        'well-formed notifications sent, in order, with a usable notification_ele, never a payload that is not well-formed; only a payload that '
        'is not XML may end the session and then everything outstanding is failed; every request of a LATER phase whose valid reply is sent '
        'holds it. (e) scenario e (c14_hist.run_end_script), the END of a session with LEFTOVERS in the receive buffer: 1-3 requests outstanding '
        '(asynchronous, and synchronous in their own threads), some answered, then the beginning of a frame and nothing more (1.0: no / a partial '
        ']]>]]>; 1.1: chunk shorter than its header, complete chunk without end-of-chunks, short second chunk, partial next header) that stops '
        'inside a 2/3/4-octet character, after a stray 0xff / continuation octet, an overlong form or a surrogate (controls: complete character, '
        'ASCII, nothing); then the session ends - session.close(), Manager.close_session() synchronous and asynchronous, leaving the Manager\'s '
        'with-block, peer EOF, peer reset - after the octets were taken in or racing with them; quick: every undecodable leftover x both framings '
        'with the way of ending rotating (by seed), thorough: every leftover x framing x ending. Oracle: a request whose complete reply preceded '
        'the leftover holds exactly it, EVERY other request is failed with an exception object within 3 s (a synchronous call raises) - never left '
        'waiting -, nothing of the unfinished frame is called back, connected is False, the session thread has ended, the local close returned, at '
        'least one error was broadcast, a request made afterwards is refused / failed at once. '
        '(l) scenario l (c14_hist.run_listener_script), who receives what AFTER the hello: a real UnixSocketSession.connect(path) to a scripted '
        'server (capability exchange through HelloHandler), then a sequential history of: a SECOND <hello> in the negotiated framing with another '
        'session-id / more / fewer / no capabilities / no session-id, application listeners added and removed (also twice / re-added), well-formed '
        'messages, dropped non-XML frames, requests with valid replies (the first one registers the reply listener), a sentinel message, optionally '
        'peer EOF; quick: every second-hello variant on the plain history connect -> hello2 -> observe -> request + 10 random add/remove histories. '
        'Oracle: session.id / server_capabilities / framing base are those of the hello of the exchange whatever arrives later; listener k received '
        'exactly the well-formed messages sent while it was registered, in order - nothing after remove_listener; requests hold their replies; at '
        'the end registered listeners get the error once, removed ones nothing. '
        'Every parser-level stream runs under a limit of 2 s of CPU time (harness/framing.py run_parser, SIGVTALRM): a parse() that does not '
        'return is reported with that stream as the failing input (after 3 such streams the rest of the parser level is abandoned); zero-size '
        'chunk headers (LF#0LF, LF#00LF, LF#000LF) at every position of real messages x whole / octet-by-octet / single cuts run first. '
        'Session clause on the extended session LTS (coq/Model/SessionSoft.v = SessionLTS + the non-fatal error broadcast of '
        'Session._dispatch_message + the malformed notification; runner LTSX): deterministic-scheduler runs of the real Session.run / RPC / '
        'listener threads - a sweep of every profile x every hostile text x both framings and of every malformed body behind a <notification> '
        '/ <rpc-reply> start tag, pre-emption-bounded schedules of five small scenarios, random scenarios (half of them histories) - validated '
        'label by label against the extracted model and judged by oracle_c14 (tools/harness/lts_check.py): a stored reply is a message the '
        'server sent with that id, a payload that is not well-formed is never returned / parsable / taken / queued, a failed request failed with '
        'an error that was broadcast while it existed (or was refused by a closed session), a valid reply received before the wait ended is '
        'delivered. End of a session with leftovers on the LTS too (lts_check.gen_c14_end, c14_sweep, one more small scenario for the schedule '
        'enumeration): server action partial k cut (unfinished reply cut inside a 2- / 4-octet character, after a stray 0xff, or decodable) '
        'followed by the client op close (after the octets were consumed, or racing), by eof or by a failing read; once the session thread has '
        'stopped the session is disconnected, no request it had written is left in the pending table and none waits out its own timeout.')
ASSUMES = ['CPython bytes/str/re built-ins behave as modelled (validated by every case)',
           'session level runs on wall-clock time with bounds of 3-5 s; a failing run is re-executed and reported only if it fails three times',
           'what a listener does with a delivered text (RPCReplyListener message-id matching) is covered by C03/C04; here only: garbage frames never reach an RPC as data',
           'an asynchronous caller that reads RPCReply.xml of a reply whose body is not well-formed sees the raw text (documented lazy parsing); every parsed view (parse(), ok, error, data) raises: the checks require the latter',
           'which payloads a profile answers with an exception (non-fatal broadcast) is read off the run (an error broadcast followed by more work of the session thread), not assumed: dropped, failing the outstanding requests, or ending the session are all accepted, each with its own consequences checked']
TRUSTED = ['modelled, not verified: CPython bytes/str/re built-ins used by parser.py',
           'tools/harness/framing.py (ParserRig, oracle10/oracle11, SessionRig)', 'tools/harness/c14_hist.py (HistRig, scenarios h and e)',
           'tools/harness/lts.py / sched.py / lts_check.py (scenario runner, deterministic scheduler, effect log -> labels)', 'expat (independent well-formedness reader)']
ALLOWED_AXIOMS = []


def F():
    from harness import framing
    return framing


# ---------------------------------------------------------------- mutation grammar
BAD_UTF8 = {'lead_no_cont': [b'\xc3', b'\xe2\x82', b'\xf0\x9f\x98', b'\xc3('],
            'stray_cont': [b'\x80', b'\xbf', b'a\x80b'],
            'overlong': [b'\xc0\x80', b'\xc1\xbf', b'\xe0\x80\x80', b'\xf0\x80\x80\x80'],
            'surrogate': [b'\xed\xa0\x80', b'\xed\xbf\xbf'],
            'beyond': [b'\xf4\x90\x80\x80', b'\xf5\x80\x80\x80', b'\xff', b'\xfe'],
            }
NONXML = [b'not xml', b'', b'<unclosed', b'</a>', b'<a><b></a>', b'\x00', b'<?xml version="1.0"?>', b'&', b'{"json": 1}']

def valid_pieces(rng, base):
    """a valid frame sequence as tagged pieces: 1.0: ('D', payload) ('T', delimiter); 1.1: ('H', header) ('D', chunk) ('E', end)"""
    f = F()
    msgs, kinds = f.gen_messages(rng, base, short=rng.random() < 0.6)
    msgs = msgs[:3]
    ps = []
    for m in msgs:
        b = m.encode('utf-8')
        if base == 10:
            ps += [['D', b], ['T', f.DELIM10]]
        else:
            for c in f.gen_chunking(rng, b, rng.choice(['single', 'single', 'random', 'uniform', 'adversarial'])):
                ps += [['H', b'\n#%d\n' % len(c)], ['D', c]]
            ps.append(['E', f.END11])
    return ps

def join(ps, focus_i=None):
    off, fo = 0, None
    for i, (t, b) in enumerate(ps):
        if i == focus_i: fo = off
        off += len(b)
    return b''.join(b for _, b in ps), (fo if fo is not None else 0)

MUT11 = ['hdr_nondigit', 'hdr_missing_hash', 'hdr_missing_lf1', 'hdr_missing_lf2', 'hdr_crlf', 'hdr_huge', 'size_plus1', 'size_minus1',
         'size_zero_insert', 'size_zero_replace', 'leading_zeros', 'hdr_invalid_utf8', 'missing_header', 'end_corrupt', 'end_duplicate',
         'stray_end_sized', 'stray_end_unsized', 'stray_delim10', 'garbage_first', 'bad_utf8', 'bad_utf8_frame_end', 'nonxml', 'other_version', 'none']
MUT10 = ['bad_utf8', 'bad_utf8_frame_end', 'stray_delim', 'partial_delim', 'overlap_delim', 'garbage_first', 'garbage_last', 'empty_frames',
         'ws_frames', 'nonxml', 'other_version', 'delim_corrupt', 'none']

def _pick(rng, ps, tag):
    idx = [i for i, (t, _) in enumerate(ps) if t == tag]
    return rng.choice(idx) if idx else None

def _bad(rng):
    cls = rng.choice(sorted(BAD_UTF8))
    return cls, rng.choice(BAD_UTF8[cls])

def mutate(rng, base, kind):
    """-> (stream, focus offset, label) ; the stream may well still be valid (e.g. leading zeros): the oracle decides"""
    f = F()
    ps = valid_pieces(rng, base)
    label = kind
    if kind == 'none':
        return join(ps) + (label,)
    if kind == 'other_version':
        s, _ = join(valid_pieces(rng, 21 - base))
        if rng.random() < 0.5:
            k = rng.randint(0, len(ps)); s0 = join(ps[:k])[0]; return s0 + s + join(ps[k:])[0], len(s0), label
        return s, 0, label
    if kind == 'nonxml':
        i = _pick(rng, ps, 'D'); p = rng.choice(NONXML)
        if i is None: return None
        if base == 11:
            # replace the whole message by one non-XML frame
            s = f.frame(11, p)
            return s + join(ps)[0], 0, label
        ps[i][1] = p
        return join(ps, i) + (label,)
    if kind in ('bad_utf8', 'bad_utf8_frame_end'):
        i = _pick(rng, ps, 'D')
        if i is None: return None
        cls, bad = _bad(rng)
        d = ps[i][1]
        if kind == 'bad_utf8_frame_end':
            cls, bad = 'truncated_at_end', rng.choice([b'\xc3', b'\xe2\x82', b'\xf0\x9f\x98', b'\xf0'])
            # last data piece of that message
            j = i
            while j + 1 < len(ps) and ps[j + 1][0] in ('H', 'D'): j += 1
            while ps[j][0] != 'D': j -= 1
            i = j; d = ps[i][1]; pos = len(d)
        else:
            pos = rng.choice([0, len(d), rng.randint(0, len(d))])
            while 0 < pos < len(d) and 0x80 <= d[pos] <= 0xBF: pos -= 1     # not inside a character: the inserted class is what is tested
        nd = d[:pos] + bad + d[pos:]
        ps[i][1] = nd
        if base == 11: ps[i - 1][1] = b'\n#%d\n' % len(nd)
        s, fo = join(ps, i)
        return s, fo + pos, 'bad_utf8:' + cls
    if kind == 'garbage_first':
        g = rng.choice([b'garbage', b' ', b'\n', b'\r\n', b'#', b'\x00', b'<?xml?>', b'\n\n', b'\xff', b']]>]]>'])
        s, _ = join(ps)
        return g + s, 0, label
    if base == 10:
        if kind == 'stray_delim':
            i = _pick(rng, ps, 'D')
            if i is None: return None
            d = ps[i][1]; pos = rng.randint(0, len(d))
            ps[i][1] = d[:pos] + f.DELIM10 + d[pos:]
            s, fo = join(ps, i); return s, fo + pos, label
        if kind == 'partial_delim':
            i = _pick(rng, ps, 'D'); d = ps[i][1]; pos = rng.randint(0, len(d))
            ps[i][1] = d[:pos] + rng.choice([b']', b']]', b']]>', b']]>]', b']]>]]', b']]>]]x>', b']]>]>', b']]]>]]']) + rng.choice([b'', b'x', b' ']) + d[pos:]
            s, fo = join(ps, i); return s, fo + pos, label
        if kind == 'overlap_delim':
            i = _pick(rng, ps, 'T')
            ps[i][1] = rng.choice([b']]>]]>]]>', b']]>]]]>]]>', b']]]]>]]>', b']]>]]>]]>]]>', b']]>]]>]'])
            return join(ps, i) + (label,)
        if kind == 'garbage_last':
            s, _ = join(ps)
            return s + rng.choice([b'tail', b' \n', b']]>]]', b'\xff', b'\xc3']), len(s), label
        if kind == 'empty_frames':
            i = _pick(rng, ps, 'T'); ps[i][1] = f.DELIM10 * rng.randint(2, 4)
            return join(ps, i) + (label,)
        if kind == 'ws_frames':
            i = _pick(rng, ps, 'T'); ps[i][1] = f.DELIM10 + rng.choice([b' ', b'\n', b' \t\r\n', b'\xc2\xa0', b'\xe3\x80\x80', b'\x1f', b'\xc2\x85']) + f.DELIM10
            return join(ps, i) + (label,)
        if kind == 'delim_corrupt':
            i = _pick(rng, ps, 'T'); ps[i][1] = rng.choice([b']]>]]', b']]>]>', b']]>\n]]>', b']]> ]]>', b']>]]>', b']]>]]\xc3\xa9>', b']]&gt;]]&gt;'])
            return join(ps, i) + (label,)
        return None
    # ---- 1.1
    if kind.startswith(('hdr_', 'size_', 'leading_zeros', 'missing_header')):
        i = _pick(rng, ps, 'H')
        if i is None: return None
        n = len(ps[i + 1][1])
        new = {
            'hdr_nondigit': lambda: rng.choice([b'\n#%dx\n' % n, b'\n#x\n', b'\n#-%d\n' % n, b'\n# %d\n' % n, b'\n#+%d\n' % n, b'\n#%d \n' % n, b'\n#0x%x\n' % n, b'\n#\n', b'\n#%d#\n' % n]),
            'hdr_missing_hash': lambda: b'\n%d\n' % n,
            'hdr_missing_lf1': lambda: b'#%d\n' % n,
            'hdr_missing_lf2': lambda: b'\n#%d' % n,
            'hdr_crlf': lambda: rng.choice([b'\r\n#%d\r\n' % n, b'\n#%d\r\n' % n, b'\r\n#%d\n' % n, b'\r#%d\r' % n]),
            'hdr_huge': lambda: rng.choice([b'\n#99999999999999999999\n', b'\n#4294967296\n', b'\n#4294967295\n', b'\n#%d\n' % (n + 100000)]),
            'size_plus1': lambda: b'\n#%d\n' % (n + 1),
            'size_minus1': lambda: b'\n#%d\n' % (n - 1),
            'size_zero_insert': lambda: b'\n#0\n\n#%d\n' % n,
            'size_zero_replace': lambda: b'\n#0\n',
            'leading_zeros': lambda: rng.choice([b'\n#0%d\n' % n, b'\n#000%d\n' % n]),
            'hdr_invalid_utf8': lambda: rng.choice([b'\n#\xff%d\n' % n, b'\n\xff#%d\n' % n, b'\n#%d\xff\n' % n, b'\n#\xc3\xa9%d\n' % n, b'\n#%d\x80\n' % n, b'\xff\n#%d\n' % n]),
            'missing_header': lambda: b'',
        }[kind]()
        ps[i][1] = new
        return join(ps, i) + (label,)
    if kind == 'end_corrupt':
        i = _pick(rng, ps, 'E')
        ps[i][1] = rng.choice([b'\n#\n', b'\n##', b'\n###\n', b'\n##x', b'##\n', b'\n#\n#\n', b'\n##\r\n', b'\n# #\n', b'', b'\n'])
        return join(ps, i) + (label,)
    if kind == 'end_duplicate':
        i = _pick(rng, ps, 'E'); ps[i][1] = f.END11 * rng.randint(2, 3)
        return join(ps, i) + (label,)
    if kind in ('stray_end_sized', 'stray_end_unsized', 'stray_delim10'):
        i = _pick(rng, ps, 'D')
        if i is None: return None
        d = ps[i][1]; pos = rng.randint(0, len(d))
        ins = f.DELIM10 if kind == 'stray_delim10' else rng.choice([f.END11, b'\n#3\n', b'\n#3\nabc\n##\n'])
        ps[i][1] = d[:pos] + ins + d[pos:]
        if kind != 'stray_end_unsized': ps[i - 1][1] = b'\n#%d\n' % len(ps[i][1])
        s, fo = join(ps, i); return s, fo + pos, label
    return None


def cutsets_for(rng, base, stream, focus, quick):
    f = F()
    n = len(stream)
    cs = [('whole', [])]
    if n >= 2:
        if n <= 400: cs.append(('size1', list(range(1, n))))
        cs.append(('random', f.gen_cuts(rng, base, stream, 'random')))
        near = [p for p in range(focus - 7, focus + 8) if 0 < p < n]
        if quick and len(near) > 6: near = sorted(rng.sample(near, 6))
        cs += [('single_near_mutation', [p]) for p in near]
        if n <= (40 if quick else 90) and rng.random() < (0.15 if quick else 0.5):
            cs += [('single_all', c) for c in f.all_single_cuts(n)]
    return cs


# ---------------------------------------------------------------- evaluation
def evaluate_block(ctx, base, items, mfut, what_level):
    """items: list of (segs, histkeys dict). mfut: future of the model outputs (or None)."""
    f = F()
    outs = mfut.result() if mfut is not None else [None] * len(items)
    for (segs, hk), mo in zip(items, outs):
        if STUCK['n'] >= STUCK_MAX:
            return                      # the parser level was abandoned (see run): every such stream costs PARSE_LIMIT_S of CPU
        recs = f.run_parser(base, segs)
        if f.did_not_return(recs) is not None:
            STUCK['n'] += 1
        key = '%d|%s' % (base, '|'.join(s.hex() for s in segs))
        ctx.count(None, nontrivial=any(segs), key=key)
        for k, v in hk.items(): ctx.hist(k, v)
        if mo is not None:
            ok, why = (True, '') if mo == recs else f.records_equal(mo, recs)
            if not ok:
                ctx.disagree({'base': base, 'segs': [s.hex() for s in segs]}, mo, recs, 'model feed%d vs DefaultXMLParser.parse: %s' % (base, why), theorem='C14_only_framed')
        ok, what, sig, exp, act = f.judge(base, segs, recs)
        if act:
            ctx.hist('impl_outcome', 'raise%r' % (act[-1][1][1:],) if act[-1][1][0] == 1 else 'deliveries')
        else:
            ctx.hist('impl_outcome', 'nothing')
        if not ok:
            ctx.fail({'base': base, 'segs': [s.hex() for s in segs]}, '%s, base 1.%d: %s' % (what_level, base - 10, what), sig=None, expected=exp, actual=act)
        elif ctx.evaluations % 40009 == 11:
            ctx.sample({'case': {'base': base, 'segs': [s.hex() for s in segs]}, 'events': act})


# streams on which parse() did not return (harness/framing.py: per-stream CPU-time limit). Each is reported as a concrete failing
# input; after STUCK_MAX of them the rest of the parser level is abandoned (the verdict is a VIOLATION already).
STUCK = {'n': 0}
STUCK_MAX = 3


class Pipeline:
    """model batches run in a helper thread (a subprocess each) while the implementation side of the previous block runs"""
    def __init__(self, ctx):
        self.ctx = ctx; self.pool = ThreadPoolExecutor(max_workers=2); self.pending = []

    def submit(self, base, items, level):
        ctx = self.ctx
        fut = None
        if ctx.model:
            calls = [[1 if base == 10 else 2, segs] for segs, _ in items]
            fut = self.pool.submit(ctx.model.batch, calls)
        self.pending.append((base, items, fut, level))
        while len(self.pending) > 2:
            self.drain_one()

    def drain_one(self):
        base, items, fut, level = self.pending.pop(0)
        evaluate_block(self.ctx, base, items, fut, level)

    def finish(self):
        while self.pending: self.drain_one()
        self.pool.shutdown()


def corpus_and_witnesses(ctx, P):
    from vlib import paths
    n = 0
    for p in sorted(glob.glob(os.path.join(paths.CORPUS, ID, '*.json'))):
        d = json.load(open(p))
        P.submit(d['base'], [([bytes.fromhex(h) for h in d['segs']], {'level': 'corpus'})], 'corpus'); n += 1
    ctx.extra['corpus_cases'] = n
    # witnesses of the repaired defects F3b, F3 and the dead-code framing branch
    for s in (b'\n#\xff4\nabcd\n##\n', b'garbage\n#3\nabc\n##\n', b'\n#3\nabc\n##\nX', b'\n#3\nabcX\n##\n'):
        items = [([s], {'level': 'witness'}), ([s[i:i + 1] for i in range(len(s))], {'level': 'witness'})]
        P.submit(11, items, 'witness')


def zero_size_chunk_headers(ctx, P):
    """Chunk headers whose size is zero (`\\n#0\\n`, `\\n#00\\n`, `\\n#000\\n`): not a chunk by RFC 6242 (chunk-size = 1-9 then digits);
    the library takes one as an empty chunk and goes on (model and oracle say the same) - what it must never do is stall or spin.
    `\\n#0\\n` is a word of the bounded-exhaustive alphabet; here the header also stands at every position of real messages (before /
    between / after chunks, before and after end-of-chunks, alone, repeated, cut at every offset and fed octet by octet), first."""
    f = F()
    msg = b'<rpc-reply xmlns="%s" message-id="7"><ok/></rpc-reply>' % f.NS.encode()
    def ch(b): return b'\n#%d\n' % len(b) + b
    items = []
    for z in (b'\n#0\n', b'\n#00\n', b'\n#000\n'):
        streams = [z, z + z, z + f.END11, z + ch(msg) + f.END11, ch(msg[:20]) + z + ch(msg[20:]) + f.END11, ch(msg) + z + f.END11,
                   ch(msg) + f.END11 + z + ch(b'<after/>') + f.END11, ch(msg) + f.END11 + z, z + b'x', z[:-1], z[:-1] + b'x', b'\n#0x\n' + z,
                   ch(b'a') + z + z + ch(b'b') + f.END11]
        for s in streams:
            items.append(([s], {'level': 'zero_size_header', 'segmentation': 'whole'}))
            items.append(([s[i:i + 1] for i in range(len(s))], {'level': 'zero_size_header', 'segmentation': 'size1'}))
            if len(s) <= 24:
                for c in range(1, len(s)):
                    items.append(([s[:c], s[c:]], {'level': 'zero_size_header', 'segmentation': 'single_all'}))
            else:
                k = s.find(z)
                for c in range(max(1, k - 1), min(len(s), k + len(z) + 2)):
                    items.append(([s[:c], s[c:]], {'level': 'zero_size_header', 'segmentation': 'single_near_header'}))
    P.submit(11, items, 'zero-size chunk header')
    P.submit(10, [([z + b'<a/>' + f.DELIM10], {'level': 'zero_size_header', 'segmentation': 'whole'}) for z in (b'\n#0\n', b'\n#00\n')], 'zero-size chunk header')


def mutation_level(ctx, P):
    rng, quick = ctx.rng, ctx.tier == 'quick'
    f = F()
    n = 700 if quick else 9000
    for base in (10, 11):
        muts = MUT10 if base == 10 else MUT11
        items = []
        for i in range(n):
            kind = muts[i % len(muts)]
            r = mutate(rng, base, kind)
            if r is None: continue
            stream, focus, label = r
            for sk, cuts in cutsets_for(rng, base, stream, focus, quick):
                items.append((f.segment(stream, cuts), {'level': 'mutation', 'mutation_%d' % base: label, 'segmentation': sk}))
            if len(items) >= 4000:
                P.submit(base, items, 'mutation grammar'); items = []
        # truncation at EVERY offset of valid and of mutated streams
        for i in range(12 if quick else 120):
            r = mutate(rng, base, rng.choice(['none', 'none', rng.choice(muts)]))
            if r is None: continue
            stream = r[0]
            if len(stream) > (160 if quick else 400): continue
            for k in range(len(stream) + 1):
                t = stream[:k]
                items.append(([t], {'level': 'mutation', 'mutation_%d' % base: 'truncate', 'segmentation': 'whole'}))
                if k >= 2:
                    c = rng.randint(1, k - 1)
                    items.append(([t[:c], t[c:]], {'level': 'mutation', 'mutation_%d' % base: 'truncate', 'segmentation': 'random'}))
            if len(items) >= 4000:
                P.submit(base, items, 'mutation grammar'); items = []
        if items: P.submit(base, items, 'mutation grammar')


def exhaustive_level(ctx, P):
    f = F()
    quick = ctx.tier == 'quick'
    full_len = 5 if quick else 6
    seg_len = 4 if quick else 5
    extra_len = full_len + 1
    prefix = {10: (b']' if quick else b']]'), 11: (b'\n' if quick else b'\n#')}
    counts = {}
    for base in (10, 11):
        def streams():
            for n in range(1, full_len + 1):
                for t in itertools.product(ALPHABET, repeat=n):
                    yield b''.join(t), 'len<=%d' % full_len
            pre = prefix[base]
            for t in itertools.product(ALPHABET, repeat=extra_len - len(pre)):
                yield pre + b''.join(t), 'len%d_prefixed' % extra_len
        items, ns = [], 0
        for s, cls in streams():
            ns += 1
            items.append(([s], {'level': 'exhaustive', 'exh_class': cls, 'segmentation': 'whole'}))
            if len(s) > 1:
                items.append(([s[i:i + 1] for i in range(len(s))], {'level': 'exhaustive', 'exh_class': cls, 'segmentation': 'size1'}))
            if len(items) >= 20000:
                P.submit(base, items, 'bounded-exhaustive'); items = []
        counts['streams_%d' % base] = ns
        nseg = 0
        for n in range(3, seg_len + 1):          # n <= 2: whole and size-1 are all segmentations
            for t in itertools.product(ALPHABET, repeat=n):
                s = b''.join(t)
                for cuts in f.all_segmentations(n):
                    if not cuts or len(cuts) == n - 1: continue          # whole / size-1 already done
                    items.append((f.segment(s, cuts), {'level': 'exhaustive', 'exh_class': 'all_segmentations_len<=%d' % seg_len, 'segmentation': 'all'}))
                    nseg += 1
                if len(items) >= 20000:
                    P.submit(base, items, 'bounded-exhaustive'); items = []
        counts['segmentation_cases_%d' % base] = nseg
        if items: P.submit(base, items, 'bounded-exhaustive')
    ctx.extra['exhaustive_space'] = dict(
        alphabet=[a.decode() for a in ALPHABET], full_length=full_len, prefixed_length=extra_len,
        prefix_10=prefix[10].decode(), prefix_11=prefix[11].decode(), all_segmentations_up_to_length=seg_len,
        feeds='whole and octet-by-octet for every stream; every subset of cut positions for streams up to all_segmentations_up_to_length', **counts)
    return True


# ---------------------------------------------------------------- session level
def make_script(rng, base, scenario):
    """items: ['reply', i] (the reply to pending request i), ['frame', hex] (correctly framed payload), ['raw', hex]"""
    f = F()
    n_rpc = rng.randint(1, 3)
    items = []
    order = list(range(n_rpc)); rng.shuffle(order)
    garb = [b'not xml', b'', b'<unclosed', b'<foo/>', b'</x>', b'&', b'<hello xmlns="urn:x"/>', b'{}', b'   ']
    if scenario == 'a':
        for i in order:
            for _ in range(rng.randint(0, 2)): items.append(['frame', rng.choice(garb).hex()])
            items.append(['reply', i])
        for _ in range(rng.randint(0, 2)): items.append(['frame', rng.choice(garb).hex()])
    else:
        k = rng.randint(0, n_rpc - 1) if n_rpc > 1 else 0      # replies delivered before the break
        for i in order[:k]:
            if rng.random() < 0.4: items.append(['frame', rng.choice(garb).hex()])
            items.append(['reply', i])
        if scenario == 'b':
            cls = rng.choice(sorted(BAD_UTF8)); bad = rng.choice(BAD_UTF8[cls])
            pay = rng.choice([b'<rpc-reply xmlns="%s" message-id="x"><data>' % f.NS.encode() + bad + b'</data></rpc-reply>', bad, b'<a>' + bad, bad + b'</a>'])
            items.append(['frame', pay.hex()])
        else:
            brk = rng.choice([b'garbage', b'\n#x\n', b'\n3\nabc', b'\n#3abc', b'\n#3\nabcd\n##\n', b'\n#5\nabc\n##\n', b'\n#\xff3\nabc\n##\n', b'\r\n#3\r\nabc', b'##\n',
                              b'\n#3\nabc\n#\n', b'\n#3\nabc\n###\n', b' ', b'\n\n', b'<rpc-reply/>]]>]]>', b'\n#-3\nabc'])
            items.append(['raw', brk.hex()])
        for i in order[k:]:
            if rng.random() < 0.5: items.append(['reply', i])   # bytes after the break: must not be delivered
    return {'level': 'session', 'base': base, 'scenario': scenario, 'n_rpc': n_rpc, 'items': items,
            'cut_fracs': sorted(round(rng.random(), 4) for _ in range(rng.choice([0, 0, 1, 2, 5, 12]))), 'settle': rng.random() < 0.6}


def run_script(case):
    """-> (ok, what, sig, observation)"""
    f = F()
    from ncclient.operations.rpc import RPC
    from ncclient.xml_ import new_ele
    class Get(RPC):
        def request(self):
            return self._request(new_ele('get'))
    base, sc = case['base'], case['scenario']
    rig = f.SessionRig(base)
    obs = {}
    try:
        s = rig.s
        rpcs = [Get(s, rig.dh, async_mode=True, timeout=5) for _ in range(case['n_rpc'])]
        for r in rpcs: r.request()
        reqs = rig.drain_requests(len(rpcs))
        ids = f.MSGID.findall(reqs.decode('utf-8', 'replace'))
        if sorted(ids) != sorted(r.id for r in rpcs):
            return False, 'peer did not receive the %d framed requests: %r' % (len(rpcs), reqs[:200]), 'requests_not_sent', {'requests': reqs.hex()}
        texts = {i: f.reply(rpcs[i].id, '<data>%d \u00e9</data>' % i) for i in range(len(rpcs))}
        stream, before_break, after = b'', [], False
        xml_frames, framed = [], []      # well-formed XML frames (must be called back) / every decodable framed payload before the break
        for it in case['items']:
            if it[0] == 'reply':
                stream += f.frame(base, texts[it[1]].encode('utf-8'))
                if not after: before_break.append(it[1]); xml_frames.append(texts[it[1]]); framed.append(texts[it[1]])
            elif it[0] == 'frame':
                p = bytes.fromhex(it[1])
                stream += f.frame(base, p)
                try:
                    if not after: framed.append(p.decode('utf-8').strip() if base == 10 else p.decode('utf-8'))
                    if not after and p in (b'<foo/>', b'<hello xmlns="urn:x"/>'): xml_frames.append(p.decode())
                except UnicodeDecodeError:
                    after = True
            else:
                stream += bytes.fromhex(it[1]); after = True
        cuts = sorted(set(c for c in (int(fr * len(stream)) for fr in case['cut_fracs']) if 0 < c < len(stream)))
        t_send = time.time()
        for seg in f.segment(stream, cuts):
            if not rig.send(seg, settle=case['settle']): break
        answered = set(before_break)
        if sc == 'a':
            rig.wait(lambda: all(r.event.is_set() for r in rpcs), 5.0)
            rig.quiesce()
        else:
            rig.wait(lambda: all(r.event.is_set() for r in rpcs) and not s.is_alive(), 3.0)
        waited = time.time() - t_send
        obs = {'rpcs': [{'reply': (r.reply._raw if r.reply is not None else None), 'error': (type(r.error).__name__ if r.error is not None else None),
                         'event_set': r.event.is_set()} for r in rpcs],
               'connected': s.connected, 'worker_alive': s.is_alive(), 'callbacks': [x for k, x in rig.events if k == 'cb'],
               'errbacks': [x for k, x in rig.events if k == 'err'], 'waited_s': round(waited, 2)}
        own = set(texts.values())
        for i, (r, o) in enumerate(zip(rpcs, obs['rpcs'])):
            if o['reply'] is not None and o['reply'] != texts[i]:
                return False, 'request %d received %r which is not its reply' % (i, o['reply'][:80]), ('garbage_reached_rpc' if o['reply'] not in own else 'reply_of_other_request'), obs
        # listeners: only payloads of correctly framed messages, in stream order, none twice (Session._dispatch_message hands over
        # every payload whose root start tag libxml2 can read - e.g. '<unclosed' - so a subsequence, not equality) ...
        k = 0
        for cb in obs['callbacks']:
            while k < len(framed) and framed[k] != cb: k += 1
            if k == len(framed):
                return False, 'listener received %r: not the payload of a correctly framed message of the stream, or out of order / duplicated' % cb[:80], 'delivered_not_framed', obs
            k += 1
        # ... and every well-formed one
        wf = set(xml_frames)
        if sc == 'a':
            if [c for c in obs['callbacks'] if c in wf] != xml_frames:
                return False, 'listener callbacks differ from the framed XML messages (order/duplicates/missing)', 'callbacks_differ', obs
            for i, o in enumerate(obs['rpcs']):
                if o['reply'] is None or o['error'] is not None:
                    return False, 'request %d: reply %r error %r although its reply was sent between garbage frames' % (i, o['reply'], o['error']), 'reply_missing_after_garbage_frame', obs
            if not obs['connected'] or not obs['worker_alive'] or obs['errbacks']:
                return False, 'session ended on correctly framed non-XML frames (connected=%r alive=%r errbacks=%r)' % (obs['connected'], obs['worker_alive'], obs['errbacks']), 'session_died_on_garbage_frame', obs
        else:
            tag = 'undecodable' if sc == 'b' else 'framing_break'
            if [c for c in obs['callbacks'] if c in wf] != xml_frames:
                return False, 'callbacks %r differ from the messages framed before the break' % obs['callbacks'], 'callbacks_differ', obs
            for i, o in enumerate(obs['rpcs']):
                if i in answered:
                    if o['reply'] is None:
                        return False, 'request %d: its reply preceded the break but was not delivered' % i, 'reply_before_break_lost', obs
                elif o['reply'] is not None:
                    return False, 'request %d received a reply framed after the break' % i, 'delivered_after_break', obs
                elif o['error'] is None:
                    return False, 'request %d still pending %.1f s after the %s (no error delivered: stall)' % (i, waited, tag), tag + '_pending_not_failed', obs
            if obs['connected']:
                return False, 'session still marked connected after the %s' % tag, 'still_connected_after_error', obs
            if obs['worker_alive']:
                s.join(3)
                if s.is_alive():
                    return False, 'worker thread alive 3 s after the %s' % tag, 'worker_alive_after_error_close', obs
            want = 'UnicodeDecodeError' if sc == 'b' else 'NetconfFramingError'
            if obs['errbacks'][:1] != [want]:
                return False, 'first error broadcast %r, expected %s' % (obs['errbacks'][:1], want), 'wrong_error', obs
        return True, '', None, obs
    finally:
        rig.close()
        if rig.alive():
            obs['worker_alive_after_close'] = True


def run_any_script(case):
    if case.get('scenario') == 'h':
        from harness import c14_hist
        return c14_hist.run_script(case)
    if case.get('scenario') == 'e':
        from harness import c14_hist
        return c14_hist.run_end_script(case)
    if case.get('scenario') == 'l':
        from harness import c14_hist
        return c14_hist.run_listener_script(case)
    return run_script(case)


def session_level(ctx):
    rng = ctx.rng
    from harness import c14_hist
    quick = ctx.tier == 'quick'
    n = 36 if quick else 210
    # histories "hostile / malformed message, then later requests" on the real transport: every device profile, both framings
    # (quick: each profile once, the framing alternates with the profile and the seed; the session LTS part sweeps all of them)
    nh = len(c14_hist.PROFILES) * (1 if quick else 10)
    plan = [('abc', i) for i in range(n)] + [('h', j) for j in range(nh)]
    cases = [('e', c['base'], c) for c in c14_hist.end_scripts(rng, quick, ctx.seed)]
    # who receives what after the hello: real connect(), a second <hello>, listeners added and removed (scenario l)
    cases += [('l', c['base'], c) for c in c14_hist.listener_scripts(rng, quick, ctx.seed)]
    for kind, i in plan:
        if kind == 'h':
            base = 10 if (i + ctx.seed + i // len(c14_hist.PROFILES)) % 2 == 0 else 11
            cases.append(('h', base, c14_hist.make_script(rng, base, c14_hist.PROFILES[i % len(c14_hist.PROFILES)], quick)))
        else:
            base = 10 if i % 2 == 0 else 11
            scen = ['a', 'b', 'c'][i % 3] if base == 11 else ['a', 'b'][(i // 2) % 2]
            cases.append((scen, base, make_script(rng, base, scen)))
    # the scripts are independent (own socketpair, own session, own worker thread) and spend their time waiting for the
    # session thread's select() tick: a few of them run side by side; a failing one is re-executed alone
    jobs = max(1, min(4, int(os.environ.get('VERIF_JOBS', '2') or 2)))
    with ThreadPoolExecutor(max_workers=jobs) as pool:
        results = list(pool.map(lambda c: run_any_script(c[2]), cases))
    for (scen, base, case), (ok, what, sig, obs) in zip(cases, results):
        tries = 1
        while not ok and tries < 3:
            ok2, what2, sig2, obs2 = run_any_script(case); tries += 1
            if ok2:
                ok = True; ctx.note('session-level case failed once and passed on re-execution: %s' % what)
            else:
                what, sig, obs = what2, sig2, obs2
        ctx.count(case, nontrivial=True)
        ctx.hist('level', 'session'); ctx.hist('session_scenario', '%s/1.%d' % (scen, base - 10))
        if scen == 'h':
            ctx.hist('session_profile', case['profile']); ctx.hist('session_end', 'ended' if not obs.get('connected', True) else 'alive')
            for ph in case['phases']:
                for it in ph['items']: ctx.hist('session_hist_item', it[0])
        elif scen == 'l':
            ctx.hist('session_profile', case['profile'])
            for st in case['steps']: ctx.hist('session_listener_step', st[0] if st[0] != 'hello2' else 'hello2:' + st[1])
        elif scen == 'e':
            ctx.hist('session_end_how', case['end']); ctx.hist('session_end_leftover', case['tail']); ctx.hist('session_end_shape', case['shape'])
            ctx.hist('session_pending', len(case['reqs']) - len(case['answered']))
        else:
            ctx.hist('session_pending', case['n_rpc'])
        if ok:
            ctx.traces += 1
        else:
            ctx.fail(case, 'session level, scenario %s, base 1.%d (failed %d of %d executions): %s' % (scen, base - 10, tries, tries, what), sig=sig, expected='see RULE (scenario %s)' % scen, actual=obs)


def lts_session_clause(ctx):
    """Session clause on the session LTS (Props/C14_session.v): real Session.run / RPC / listener threads under the
    deterministic scheduler with framing breaks, undecodable frames, non-XML payloads, unknown / missing ids; the traces
    must be accepted by the extracted SessionLTS model (runner LTS) and satisfy the clause's oracle."""
    from vlib import build
    from vlib.model import Model
    from harness import lts_check
    with build.Lock():
        # the extended session LTS (Model/SessionSoft.v: SessionLTS + non-fatal error broadcast + malformed notification);
        # its glue is not among COQ_ROOTS' targets: a fresh / changed tree must (re)build it
        mok, mlog, _ = build.make(['Glue/LTSX_glue.vo'])
        ok, log = build.build_runner('LTSX') if mok else (False, mlog)
    model = Model('LTSX') if ok else None
    if not ok:
        ctx.disagree({'lts': 'C14'}, 'LTSX runner builds', log[-300:], 'extraction of Glue/LTSX_glue.v')
    q = ctx.tier == 'quick'
    lts_check.check(ctx, 'C14', n_random=180 if q else 4000, dfs_bound=2 if q else 3, dfs_cap=40 if q else 2000, model=model)


def run(ctx):
    t0 = time.time(); phase = {}
    P = Pipeline(ctx)
    STUCK['n'] = 0
    corpus_and_witnesses(ctx, P)
    zero_size_chunk_headers(ctx, P)
    mutation_level(ctx, P)
    complete = exhaustive_level(ctx, P)
    P.finish()
    if STUCK['n']:
        ctx.note('parse() did not return on %d stream(s) (each reported as a failing input)%s' % (
            STUCK['n'], '; the rest of the parser level was abandoned' if STUCK['n'] >= STUCK_MAX else ''))
        complete = complete and STUCK['n'] < STUCK_MAX
    phase['parser_level'] = round(time.time() - t0, 1); t0 = time.time()
    # the documented finite space (RULE (2)) was fully enumerated; the mutation grammar and the session level are samples
    ctx.exhaustive = bool(complete)
    session_level(ctx)
    phase['session_scripts'] = round(time.time() - t0, 1); t0 = time.time()
    lts_session_clause(ctx)
    phase['session_lts'] = round(time.time() - t0, 1)
    ctx.extra['phase_seconds'] = phase
    if not ctx.model:
        ctx.note('model runner missing: model comparisons skipped, oracles still ran')


# ---------------------------------------------------------------- search / reproduce / replay
def search(ctx, seeds):
    f, rng = F(), ctx.rng
    def bad(base, segs):
        ok, what, sig, exp, act = f.judge(base, segs)
        if not ok:
            return dict(case={'base': base, 'segs': [s.hex() for s in segs]}, what='base 1.%d: %s' % (base - 10, what), sig=None, expected=exp, actual=act)
    for c in seeds[:200]:
        if 'segs' not in c: continue
        segs = [bytes.fromhex(h) for h in c['segs']]
        stream = b''.join(segs)
        for cand in [segs, [stream], [stream[i:i + 1] for i in range(len(stream))]] + [f.segment(stream, cu) for cu in f.all_single_cuts(len(stream))][:3000]:
            r = bad(c['base'], cand)
            if r: return r
    for base in (10, 11):
        for n in range(1, 5):
            for t in itertools.product(ALPHABET, repeat=n):
                s = b''.join(t)
                for cand in ([s], [s[i:i + 1] for i in range(n)]):
                    r = bad(base, cand)
                    if r: return r
    for i in range(6000):
        base = 10 if i % 2 == 0 else 11
        muts = MUT10 if base == 10 else MUT11
        m = mutate(rng, base, rng.choice(muts))
        if m is None: continue
        for sk, cuts in cutsets_for(rng, base, m[0], m[1], True):
            r = bad(base, f.segment(m[0], cuts))
            if r: return r
    return None


def reproduce(finding):
    w = finding['witness']
    from vlib import paths; paths.use_repo()
    if w.get('level') == 'session':
        return all(not run_any_script(w)[0] for _ in range(3))
    return not F().judge(w['base'], [bytes.fromhex(h) for h in w['segs']])[0]


def replay(doc):
    if 'case' not in doc:
        return F().replay_obligation(doc, ID)
    c = doc['case']
    if c.get('lts') == 'C14' or ('spec' in c and 'decisions' in c):
        from harness import lts_check
        return lts_check.replay(doc, 'C14')
    if c.get('level') == 'session':
        ok, what, sig, obs = run_any_script(c)
        if c['scenario'] == 'h':
            print('case     : session history, profile %s, base 1.%d, phases %r' % (c['profile'], c['base'] - 10, c['phases']))
        elif c['scenario'] == 'l':
            print('case     : connect() to a server whose hello says session-id %s, profile %s, base 1.%d; then steps %r; then a sentinel message; end: %s'
                  % (c['sid'], c['profile'], c['base'] - 10, c['steps'], c['end']))
        elif c['scenario'] == 'e':
            print('case     : end of session, profile %s, base 1.%d: requests (sync?) %r, answered %r, then an unfinished frame (%s, %s, leftover %s), then %s'
                  % (c['profile'], c['base'] - 10, c['reqs'], c['answered'], c['about'], c['shape'], c['tail'], c['end']))
        else:
            print('case     : session scenario %s, base 1.%d, %d pending, items %r' % (c['scenario'], c['base'] - 10, c['n_rpc'], c['items']))
        print('expected :', doc.get('expected')); print('actual   :', obs)
        if not ok: print('FAILS    : [%s] %s' % (sig, what))
        return ok
    f = F()
    segs = [bytes.fromhex(h) for h in c['segs']]
    ok, what, sig, exp, act = f.judge(c['base'], segs)
    print('case     : base 1.%d segments %r' % (c['base'] - 10, segs if len(segs) < 20 else segs[:20] + ['...']))
    print('expected : [segment, event] ', exp)
    print('actual   : [segment, event] ', act)
    if not ok: print('FAILS    :', what)
    return ok
