"""C18 — Junos streaming-filter (SAX) mode is transparent and segmentation-independent.
Model: coq/Model/SaxFilter.v (the SAXParser handler), coq/Model/JunosParse.v / JunosParse11.v (the driver under base:1.0 / base:1.1); spec: coq/Spec/Projection.v; theorems: coq/Props/C18.v.
(a) handler level: real SAXParser under real expat, events teed and replayed on the extracted model; oracle = an
    independent xml.etree projection of the full reply.  (b) whole path: a Junos-profile session fed reply byte
    streams under enumerated cuts; oracle = reply equals the one obtained with the mode off (no filter) / equals
    the projection (filter), whatever the cuts.  (g) several such sessions in one process, same filters / filter
    objects, reads interleaved read by read by a deterministic scheduler: same oracles per session + equality with
    the sessions run one after the other + the process model (coq/Model/JunosProcess.v) after every read."""
import itertools, json, os, glob
ID = 'C18'
COQ_ROOTS = ['Props/C18.v', 'GenProps/Sax_consts.v']
RULE = ('(a) handler level: documents from a grammar of Junos-style replies (plain/nc: reply tag, namespace declarations, '
        'attributes with quotes/newlines, text with markup characters, CDATA, character references, non-ASCII, pretty-printing '
        'white space, repeated roots, one-level wrapper, and flavours that leave the proved class: name clashes, mixed content, '
        'prefixed elements, attributes named like _write_buffer parameters, CR) x filters drawn from the document\'s own paths '
        '(subsets of child names per level, absent names, duplicate names) x request kinds (filter, no filter, object without '
        'the attribute, unknown id, no listener, no message-id); each document is also fed to expat in 1- and 7-byte pieces. '
        '(b) whole path: streams of 1-2 pipelined replies (with/without filter, plain/nc:, white space between) under every '
        'single cut; thorough adds all double cuts within windows round start tags and delimiters, all double cuts of two short '
        'streams, byte-wise feeding and random multi-cuts; replies optionally begin with an XML declaration; (d) streams with one reply that is not '
        'well-formed (expat rejects / the DOM parser cannot dispatch and stays); (e) the forms in which a caller hands over the filter '
        '(XML text, bytes, lxml element -- falsy when it has no children --, sub-element of a larger tree, one element object '
        'shared by two requests) and in which a request has none (filter_xml=None, argument omitted, Command / GetConfiguration '
        'objects without the attribute) are drawn per request in every family, every handler-level case is repeated in all forms, and '
        'for streams with single-leaf / deeper filters, first-child / wrapper replies all combinations of forms are run; (f) base:1.1: the same generated streams (1-3 replies, also histories) chunk-framed per RFC 6242 on a session that selected base:1.1 -- '
        'chunking per message: one chunk, several, boundaries inside tags, inside multi-byte characters, chunks of 1-9 octets, one octet per chunk -- read uncut, with a cut at every offset inside/at the edge of '
        'chunk headers and end-of-chunks (quick: 30 of them), cuts in the chunk data, double cuts in the framing octets, random multi-cuts, octet by octet; filters in all forms (drawn per request + all combinations for some streams); '
        'streams with one reply not well-formed; same oracles (mode-off run on the same chunked stream / xml.etree projection). Every cut run is also replayed on the extracted driver model '
        '(coq/Model/JunosParse.v for base:1.0, coq/Model/JunosParse11.v = C01 de-chunker + _dispatch11 for base:1.1) and compared after every read. '
        '(g) several sessions in ONE process: 2-3 Junos sessions (70% two), later sessions mostly twins of the first (same requests and filters, replies of the same shape with other text and message-ids; equal filters are handed over as the '
        'SAME str / bytes / lxml element object; forms cycle text, shared element, bytes, one random form, independent), else independent streams; half the groups wrapper-shaped replies; message-ids distinct or numbered from 1 in '
        'every session; 12% of the sessions in base:1.1; each session\'s stream is cut into reads and the reads are dealt out ONE AT A TIME by a deterministic scheduler (real Session.run per session, exactly one worker running): every tag a read / sessions in turn, '
        'the same with one session 1-6 reads ahead, one cut after a tag each (first reads in a random order, then second reads), one session cut after a tag and the others read whole in between, 1-5 cuts (tags or anywhere) in a random '
        'order (thorough: more of each + octet by octet in turn); oracle per session as in (b), plus: results equal those of the same sessions run one after the other in the same process; every run replayed on the extracted '
        'process model (coq/Model/JunosProcess.v, glue fn 6: schedule dealt from the order of turns) and compared after every scheduled read. A case is distinct by (document, filter, request kind) resp. '
        '(stream, filters, cuts); non-trivial = the request has a filter and the document has at least one kept and one '
        'dropped element, or the stream is cut.')
ASSUMES = ['expat delivers the SAX events of the byte stream fed so far, independent of how it was fed, with raw qualified names (pyexpat 2.5.0: no reparse deferral)',
           'driver model: the octets the SAX handler writes never contain "]]>" (they are kept apart from the delimiter search); base:1.0 branch (JunosParse.v): NETCONF 1.0 framing; base:1.1 branch (JunosParse11.v): the de-chunker is the C01 model Framing11.feed11, and the harness sets session._base itself (negotiation is C07/C01 ground); the verdict of Session._dispatch_message on a DOM message (does parse_root find a root) and the per-octet events of expat are oracles supplied by the harness',
           'lxml Element.find(tag, namespaces) / getparent / builder.E behave as modelled (first child by Clark tag, SyntaxError on unknown prefix, ValueError on prefixed tag)',
           'the model takes the filter as a tree (ftree) whatever object the caller handed over; that an lxml element, a sub-element or a shared element behaves like the text is checked by the correspondence (families (e), (g)), not proved (since fix 0df4d0e the handler works on a copy of an element filter)',
           'several sessions (JunosProcess.v): a read changes the state of the session that takes it and nothing else -- the modelling decision the theorems C18_sessions_* rest on; checked by family (g) on real sessions of one process, not proved of the Python module (module globals, caches, the caller\'s filter object are outside the model)',
           'base:1.1: the de-chunked message is re-encoded as UTF-8 for the XML parser (a reply declaring another encoding is outside NETCONF and outside the check)',
           'byte-level recovery (_delimiter_check, only reached for input that is not well-formed XML) is not modelled: the driver model ends in an explicit Stuck state there and the comparison stops at that read']
TRUSTED = ['modelled, not verified: expat, lxml, difflib; DefaultXMLParser._parse10 (C01) is used as is for the hand-over, DefaultXMLParser._parse11 (C01 model Framing11, tied there and again here read by read: buffer and chunks in progress) for de-chunking',
           'the rendering of the handler output to bytes (render) is tied to the code by the correspondence only; the projection theorem speaks about output events']
ALLOWED_AXIOMS = []

EXN_CODE = {0: 'Done', 1: 'Switch', 2: 'Operation', 3: 'Key', 4: 'Index', 5: 'Attr', 8: 'ValueError'}

def _H():
    from harness import saxpath, saxgen
    return saxpath, saxgen

# ------------------------------------------------------------------ conversions for the model
def ftree_of(filter_xml):
    """The filter as the handler sees it: lxml tree, element children only, Clark tags."""
    from lxml import etree
    root = etree.fromstring(filter_xml)
    def c(e): return [e.tag.encode(), [c(k) for k in e if isinstance(k.tag, str)]]
    return c(root)

def env_val(table, listener):
    rows = []
    for mid, f in table.items():
        rows.append([mid.encode(), [] if f in (None, 'bare') else [ftree_of(f)]])
    return [1 if listener else 0, rows]

def events_val(events):
    out = []
    for e in events:
        if e[0] == 'S': out.append([0, e[1].encode(), [[k.encode(), v.encode()] for k, v in e[2]]])
        elif e[0] == 'E': out.append([1, e[1].encode()])
        else: out.append([2, e[1].encode()])
    return out

def doc_val(t):
    if t[0] == 'T': return [0, t[1].encode()]
    return [1, t[1].encode(), [[k.encode(), v.encode()] for k, v in t[2]], [doc_val(k) for k in t[3] if not (k[0] == 'T' and k[1] == '')]]

def doc_unval(v):
    if v[0] == 0: return ('T', v[1].decode())
    return ('E', v[1].decode(), [(k.decode(), x.decode()) for k, x in v[2]], [doc_unval(k) for k in v[3]])

def py_proj(t, f):
    """Python reading of Spec.Projection.project on the generator's tuples (compared with the Coq function)."""
    def proj(t, f):
        if t[0] == 'T': return ('T', t[1])
        ks = []
        for k in t[3]:
            if k[0] == 'T':
                if k[1] != '': ks.append(('T', k[1]))
            else:
                f2 = next((c for c in f[1] if c[0] == k[1]), None)
                if f2 is not None: ks.append(proj(k, f2))
        return ('E', t[1], list(t[2]), ks)
    return proj(t, (t[1], [f]))

# ------------------------------------------------------------------ (a) handler level
def handler_case(rng, i):
    H, G = _H()
    mid = 'urn:uuid:%04d' % rng.randrange(10000)
    fl = rng.choice(['inclass'] * 10 + ['wrapper'] * 3 + ['clash', 'clash', 'mixed', 'mixed', 'prefix', 'prefix', 'kw', 'cr'])
    doc, r = G.gen_doc(rng, mid, fl)
    if fl == 'prefix' and not any(k == 'xmlns:nc' for k, _ in doc[2]):
        doc[2].append(('xmlns:nc', G.BASE_NS))
    f = G.gen_filter(rng, doc, r)
    if rng.random() < 0.12: f = (f[0], [])           # single-leaf filter: the root alone
    kind = rng.choice(['filter'] * 16 + ['nofilter', 'nofilter', 'bare', 'unknown', 'nolistener', 'nomsgid'])
    # how the caller hands the filter over (text, bytes, lxml element -- falsy when childless --, element inside a larger tree)
    form = rng.choice(HANDLER_FORMS)
    return dict(kind='handler', flavour=fl, doc=doc, filter=f, req=kind, mid=mid, form=form)

HANDLER_FORMS = ('text', 'bytes', 'element', 'subelement')

def run_handler_case(case, chunk=None):
    """-> (events, outcome, buffer) of the real handler."""
    H, G = _H()
    doc = _tup(case['doc'])
    xml = G.ser(doc).encode()
    if case['req'] == 'nomsgid':
        xml = xml.replace(b' message-id="%s"' % case['mid'].encode(), b'', 1)
    fstr = G.filter_str(_ftup(case['filter']))
    table = {case['mid']: fstr}
    if case['req'] == 'nofilter': table = {case['mid']: None}
    elif case['req'] == 'bare': table = {case['mid']: 'bare'}
    elif case['req'] == 'unknown': table = {'other-id': fstr}
    ev, out, buf = H.handler_run(xml, table, listener=case['req'] != 'nolistener', chunk=chunk, form=case.get('form', 'text'))
    return xml, fstr, table, ev, out, buf

def _tup(t):
    """json round trip turns tuples into lists"""
    if t[0] == 'T': return ('T', t[1], t[2] if len(t) > 2 else 'plain')
    return ('E', t[1], [tuple(x) for x in t[2]], [_tup(k) for k in t[3]])
def _ftup(f): return (f[0], [_ftup(k) for k in f[1]])

def handler_oracle(case, xml, fstr, out, buf):
    """The property on the handler: None if fine, else (what, expected, actual)."""
    H, G = _H()
    req = case['req']
    if req in ('nofilter', 'bare'):
        if out != 'Switch' or buf != b'':
            return ('request without filter: the handler must signal the switch at the reply start tag with nothing written',
                    ['Switch', ''], [out, buf.decode('utf-8', 'replace')])
        return None
    if req == 'unknown':
        return None if out == 'Operation' else ('unknown message-id must be an OperationError', 'Operation', out)
    if req in ('nolistener', 'nomsgid'):
        return None            # not a situation the property speaks about (reply without id / session without listener)
    exp = G.et_project(xml, fstr)
    if out != 'Done':
        return ('handler raised %s on a well-formed reply with a filter' % out, exp, out)
    try:
        act = G.canon_xml(buf)
    except Exception as e:
        return ('filtered output is not well-formed: %s' % e, exp, buf.decode('utf-8', 'replace'))
    if act != exp:
        return ('filtered output is not the projection of the reply on the filter', exp, act)
    return None

def nontrivial_handler(case):
    if case['req'] != 'filter': return False
    _, G = _H()
    doc = _tup(case['doc']); f = _ftup(case['filter'])
    def count(t):
        return 1 + sum(count(k) for k in t[3]) if t[0] == 'E' else 0
    p = py_proj(doc, f)
    return 1 < count(p) < count(doc)

def check_handler_cases(ctx, cases):
    H, G = _H()
    runs = []
    calls = []
    for case in cases:
        xml, fstr, table, ev, out, buf = run_handler_case(case)
        runs.append((xml, fstr, ev, out, buf))
        calls.append([1, env_val(table, case['req'] != 'nolistener'), events_val(ev)])
    mouts = ctx.model.batch(calls) if ctx.model else [None] * len(cases)
    for case, (xml, fstr, ev, out, buf), mo in zip(cases, runs, mouts):
        doc = _tup(case['doc']); f = _ftup(case['filter'])
        key = [G.ser(doc), fstr, case['req']]
        ctx.count(case, nontrivial=nontrivial_handler(case), key=key)
        ctx.hist('handler_flavour', case['flavour']); ctx.hist('handler_request', case['req']); ctx.hist('handler_outcome', out)
        if case['req'] == 'filter':
            ctx.hist('handler_filter_form', '%s, %s' % (case.get('form', 'text'), 'single leaf' if not f[1] else 'with children'))
        R = G.reasons(doc, f)
        ctx.hist('handler_class', 'in proved class' if not R else '+'.join(sorted(R)))
        ctx.hist('handler_events', min(len(ev) // 10 * 10, 100))
        if ctx.evaluations % 97 == 1: ctx.sample({'doc': xml.decode(), 'filter': fstr, 'request': case['req'], 'outcome': out, 'output': buf.decode('utf-8', 'replace')})
        # model vs implementation
        if mo is not None:
            m = (EXN_CODE.get(mo[0], mo[0]), mo[1])
            if m != (out, buf):
                ctx.disagree(case, [m[0], m[1].decode('utf-8', 'replace')], [out, buf.decode('utf-8', 'replace')],
                             'SaxFilter.runb vs SAXParser under expat (same events)', theorem='C18_projection_partial/C18_nofilter_switch')
        # re-segmentation of the character events on the implementation: expat fed in pieces
        for ch in (1, 7):
            _, _, _, ev2, out2, buf2 = run_handler_case(case, chunk=ch)
            if (out2, buf2) != (out, buf):
                ctx.fail(dict(case, chunk=ch), 'handler output depends on how the bytes were fed to expat (chunk=%d)' % ch,
                         sig=None, expected=[out, buf.decode('utf-8', 'replace')], actual=[out2, buf2.decode('utf-8', 'replace')])
        # the property
        bad = handler_oracle(case, xml, fstr, out, buf)
        if bad:
            ctx.fail(case, bad[0], sig=G.sig_of(doc, f) if case['req'] == 'filter' else None, expected=bad[1], actual=bad[2])
        elif case['req'] == 'filter':
            # ... and in every other form the same filter can be handed over in (same oracle: the projection)
            for form in HANDLER_FORMS:
                if form == case.get('form', 'text'): continue
                c2 = dict(case, form=form)
                _, _, _, _, out2, buf2 = run_handler_case(c2)
                bad = handler_oracle(c2, xml, fstr, out2, buf2)
                ctx.evaluations += 1
                if bad:
                    ctx.fail(c2, bad[0] + ' [filter handed over as %s]' % form, sig=G.sig_of(doc, f), expected=bad[1], actual=bad[2])

def check_spec_cases(ctx, cases):
    """Coq Spec.Projection.project vs its Python reading vs the xml.etree oracle, on in-class documents."""
    H, G = _H()
    sel = [c for c in cases if c['req'] == 'filter']
    calls = [[2, [c['filter'][0].encode(), _fv(c['filter'][1])], doc_val(_tup(c['doc']))] for c in sel]
    outs = ctx.model.batch(calls) if ctx.model else []
    for c, o in zip(sel, outs):
        doc = _tup(c['doc']); f = _ftup(c['filter'])
        exp = py_proj(doc, f)
        got = doc_unval(o)
        ctx.hist('spec_project', 'compared')
        if got != exp:
            ctx.disagree(dict(c, kind='spec'), repr(got)[:400], repr(exp)[:400], 'Spec.Projection.project vs Python reading', theorem='C18_projection_partial')
        # and the Python reading agrees with the independent reader when the case is in the class
        if not G.reasons(doc, f):
            a = G.canon_xml(G.ser(_untext(exp)).encode()); b = G.et_project(G.ser(doc).encode(), G.filter_str(f))
            if a != b:
                ctx.disagree(dict(c, kind='spec-oracle'), a, b, 'project (spec) vs xml.etree projection oracle', theorem='C18_projection_partial')

def _fv(ks): return [[k[0].encode(), _fv(k[1])] for k in ks]
def _untext(t):
    if t[0] == 'T': return ('T', t[1], 'plain')
    return ('E', t[1], t[2], [_untext(k) for k in t[3]])

def check_escaping(ctx):
    """render's escape/quoteattr vs the module's functions, exhaustive over short strings of the special characters."""
    from ncclient.transport.third_party.junos import parser as P
    alpha = ['&', '<', '>', '"', "'", '\n', '\r', '\t', 'a', 'é']
    strs = [''] + [''.join(p) for n in (1, 2, 3) for p in itertools.product(alpha, repeat=n)]
    outs = ctx.model.batch([[3, s.encode()] for s in strs]) if ctx.model else []
    for s, o in zip(strs, outs):
        impl = [P.escape(s).encode(), P.quoteattr(s).encode()]
        ctx.count({'esc': s}, nontrivial=len(s) > 1)
        if [o[0], o[1]] != impl:
            ctx.disagree({'kind': 'escape', 's': s}, [x.decode() for x in o], [x.decode() for x in impl], 'escape/quoteattr', theorem='render')
    ctx.hist('escaping', 'strings', len(strs))

# ------------------------------------------------------------------ (b) whole path
def _rename_below(rng, doc, r, new):
    """doc with one element strictly below a top-level element named r renamed to `new` (None if there is none)."""
    paths = []
    def walk(t, path, below):
        for i, k in enumerate(t[3]):
            if k[0] != 'E': continue
            if below: paths.append(path + [i])
            walk(k, path + [i], below or k[1] == r)
    walk(doc, [], False)
    if not paths: return None
    target = rng.choice(paths)
    def rebuild(t, path):
        if not path: return ('E', new, t[2], t[3])
        ks = list(t[3]); ks[path[0]] = rebuild(ks[path[0]], path[1:])
        return ('E', t[1], t[2], ks)
    return rebuild(doc, target)

def gen_stream(rng, n_replies=None, linked=False, leaf=None, p_filter=None, twin=False, id0=0, p_wrapper=None):
    """-> dict(kind='path', docs=[doc...], filters=[filter or None...], gaps=[bytes between replies]).
    linked: a later reply contains, below its own top element, an element named like the first reply's top element
    (software-information alone, then inside multi-routing-engine-results): what one request leaves behind in the
    parser must not show in the next.
    leaf: True = every filter is a single leaf (the filter root alone), False = every filter has children, None = as drawn; p_filter: probability that
    a request has a filter; twin: the second reply is the first again (other message-id) and the request has the same
    filter (so that one filter OBJECT can serve both requests, form 'shared'); id0: number of message-ids handed out
    before this session's requests (several sessions in one process); p_wrapper: probability of the one-level wrapper shape."""
    H, G = _H()
    n = n_replies or (rng.choice([2, 2, 3]) if linked else rng.choice([1, 1, 2]))
    docs, fls = [], []
    ids = H.ids_for(n, id0)
    r0 = None
    for i in range(n):
        one_leaf = leaf if leaf is not None else rng.random() < 0.12
        for _try in range(50):
            doc, r = G.gen_doc(rng, ids[i], rng.choice(['inclass', 'inclass', 'inclass', 'wrapper']) if p_wrapper is None else
                               ('wrapper' if rng.random() < p_wrapper else 'inclass'))
            if linked and i > 0:
                if r == r0: continue
                d2 = _rename_below(rng, doc, r, r0)
                if d2 is None: continue
                doc = d2
            f = G.gen_filter(rng, doc, r)
            if one_leaf: f = (f[0], [])              # single-leaf filter
            if leaf is False and not f[1]: continue   # asked for a filter with children
            if G.reasons(doc, f) <= {'wrapper'} and not G.has_cr(doc) and len(G.ser(doc)) < 330: break
        docs.append(doc)
        if i == 0: r0 = r
        fls.append(f if rng.random() < (p_filter if p_filter is not None else 0.9 if linked else 0.6) else None)
    if twin and n >= 2:
        docs[1] = ('E', docs[0][1], [(k, ids[1] if k == 'message-id' else v) for k, v in docs[0][2]], docs[0][3])
        fls[1] = fls[0]
    gaps = [rng.choice(['', '', '\n', '\n\n', ' ']) for _ in range(n)]
    # some servers start every message with an XML declaration (after the white space that follows the delimiter)
    decl = [rng.random() < 0.3 for _ in range(n)]
    forms = [rng.choice(H.FILTER_FORMS if f is not None else H.NOFILTER_FORMS) for f in fls]
    return dict(kind='path', docs=docs, filters=fls, gaps=gaps, decl=decl, forms=forms, **({'id0': id0} if id0 else {}))

def forms_of(case):
    """how each request hands over its filter / comes to have none (cases recorded before round 4: text / None)"""
    H, G = _H()
    fm = case.get('forms') or [None] * len(case['filters'])
    return [x or H.default_form(f) for x, f in zip(fm, case['filters'])]

def off_forms(case):
    """the same requests for the run with the mode off: the requests without filter are issued the same way"""
    return [x if f is None else 'none' for x, f in zip(forms_of(case), case['filters'])]

XML_DECL = b'<?xml version="1.0" encoding="UTF-8"?>'
def _doc_bytes(case, i):
    H, G = _H()
    d = _tup(case['docs'][i])
    if case.get('corrupt') == i and case.get('corrupt_kind') == 'nons':
        # nc:rpc-reply without a declaration of the prefix: expat (no namespace processing) accepts it, lxml does not
        d = ('E', 'nc:rpc-reply', [a for a in d[2] if a[0] != 'xmlns:nc'], d[3])
    b = G.ser(d).encode()
    if case.get('corrupt') == i and case.get('corrupt_kind') != 'nons':
        # an element that is never closed: not well-formed from the reply's end tag on
        b = b.replace(b'</rpc-reply>', b'<oops></rpc-reply>').replace(b'</nc:rpc-reply>', b'<oops></nc:rpc-reply>')
    return (XML_DECL if case.get('decl') and case['decl'][i] else b'') + b

def base_of(case):
    """10: end-of-message framing (cases recorded before the base:1.1 family carry no key); 11: chunked framing"""
    return 11 if case.get('base') == 11 else 10

def msg_bytes11(case, i):
    """base:1.1: message i as it is chunked: the reply and the white space the server ends it with (gaps[i]; inside the
    message: nothing may stand between end-of-chunks and the next chunk header)"""
    return _doc_bytes(case, i) + case['gaps'][i].encode()

def stream_bytes(case):
    H, G = _H()
    if base_of(case) == 11:
        # RFC 6242: every message in chunks of the recorded sizes, then end-of-chunks; nothing between messages
        return b''.join(H.chunk_frame(msg_bytes11(case, i), case['chunks'][i]) for i in range(len(case['docs'])))
    s = b''
    for i, g in enumerate(case['gaps']):
        s += _doc_bytes(case, i) + H.DELIM + g.encode()
    return s

def path_expected(case):
    """What each request must get, computed without the SAX mode: ('full', raw, transformed) from a run with the mode
    off, and for filtered requests the projection (canonical trees of raw and of the transformed reply)."""
    H, G = _H()
    stream = stream_bytes(case)
    off = H.run_stream([stream], [None] * len(case['docs']), use_filter=False, forms=off_forms(case), base=base_of(case), id0=case.get('id0', 0))
    exp = []
    for i, (d, f, o) in enumerate(zip(case['docs'], case['filters'], off)):
        if o[0] != 'reply' or case.get('corrupt') == i:
            exp.append(('off-failed', o)); continue
        if f is None:
            exp.append(('same', o))
        else:
            fs = G.filter_str(_ftup(f))
            exp.append(('proj', G.et_project(G.ser(_tup(d)).encode(), fs), G.et_project(o[2].encode(), fs)))
    return stream, exp

def path_verdict(exp, res):
    """None if the per-request results satisfy the property, else (index, what, expected, actual)."""
    H, G = _H()
    for i, (e, r) in enumerate(zip(exp, res)):
        if e[0] == 'off-failed': continue
        if r[0] != 'reply':
            return (i, 'request %d: no reply delivered (%s)' % (i, r), 'reply', list(r))
        if e[0] == 'same':
            if tuple(r) != tuple(e[1]):
                return (i, 'request %d (no filter): reply differs from the one obtained with the mode off' % i, list(e[1]), list(r))
        else:
            try:
                a1 = G.canon_xml(r[1]); a2 = G.canon_xml(r[2])
            except Exception as x:
                return (i, 'request %d: filtered reply not well-formed: %s' % (i, x), e[1], list(r))
            if a1 != e[1]:
                return (i, 'request %d (filter): reply is not the projection of the full reply' % i, e[1], a1)
            if a2 != e[2]:
                return (i, 'request %d (filter): transformed reply is not the projection of the transformed full reply' % i, e[2], a2)
    return None

def run_path(case, cuts):
    H, G = _H()
    stream = stream_bytes(case)
    fstrs = [None if f is None else G.filter_str(_ftup(f)) for f in case['filters']]
    if cuts == 'bytewise':
        segs = [stream[i:i + 1] for i in range(len(stream))]
    else:
        segs = H.cuts_to_segments(stream, cuts)
    return H.run_stream(segs, fstrs, use_filter=True, forms=forms_of(case), base=base_of(case), id0=case.get('id0', 0))

def run_path_obs(case, cuts):
    """run_path with the per-read observations of harness/saxseg.py"""
    H, G = _H()
    from harness import saxseg as S
    stream = stream_bytes(case)
    fstrs = [None if f is None else G.filter_str(_ftup(f)) for f in case['filters']]
    segs = [stream[i:i + 1] for i in range(len(stream))] if cuts == 'bytewise' else H.cuts_to_segments(stream, cuts)
    return S.run_stream_obs(segs, fstrs, use_filter=True, forms=forms_of(case), base=base_of(case), id0=case.get('id0', 0))

def check_driver_model(ctx, case, stream, runs):
    """JunosParse.run (extracted, instance JunosSax) vs the implementation, read by read, for the cut runs of one stream"""
    if not ctx.model or not runs: return
    if base_of(case) == 11: return check_driver_model11(ctx, case, stream, runs)
    H, G = _H()
    from harness import saxseg as S
    fstrs = [None if f is None else G.filter_str(_ftup(f)) for f in case['filters']]
    world = S.world_for(stream, H.ids_for(len(case['docs']), case.get('id0', 0)), fstrs, env_val, events_val)
    for k in range(0, len(runs), 400):
        part = runs[k:k + 400]
        mres = ctx.model.call([4, world, stream, [S.lens_of(stream, c) for c, _ in part]])
        for (cuts, log), m in zip(part, mres):
            bad = S.compare(m, log)
            ctx.hist('driver_model', 'outside the model (expat rejects)' if any(r[0] == 3 for r in m[0]) else 'compared')
            if bad:
                ctx.disagree(dict(case, cuts=cuts if cuts == 'bytewise' else list(cuts)), repr(bad[1])[:600], repr(bad[2])[:600],
                             'JunosParse.run vs JunosXMLParser.parse: ' + bad[0], theorem='C18_segmentation_independent')
                return

def check_driver_model11(ctx, case, stream, runs):
    """JunosParse11.run11 (extracted, glue fn 5: C01's de-chunker + _dispatch11, instance JunosSax) vs the implementation on a
    base:1.1 session, read by read"""
    H, G = _H()
    from harness import saxseg as S
    fstrs = [None if f is None else G.filter_str(_ftup(f)) for f in case['filters']]
    msgs = [msg_bytes11(case, i) for i in range(len(case['docs']))]
    world = S.world_for11(msgs, H.ids_for(len(msgs), case.get('id0', 0)), fstrs, env_val, events_val)
    for k in range(0, len(runs), 400):
        part = runs[k:k + 400]
        mres = ctx.model.call([5, world, stream, [S.lens_of(stream, c) for c, _ in part]])
        for (cuts, log), m in zip(part, mres):
            bad = S.compare11(m, log)
            ctx.hist('driver_model', 'base:1.1 compared')
            if bad:
                ctx.disagree(dict(case, cuts=cuts if cuts == 'bytewise' else list(cuts)), repr(bad[1])[:600], repr(bad[2])[:600],
                             'JunosParse11.run11 vs JunosXMLParser.parse on a base:1.1 session: ' + bad[0], theorem='C18_base11_reads_independent')
                return

def path_sig(case, cuts):
    """Signature of a whole-path failure: if the same failure shows without any cut it is a handler-level class,
    otherwise it depends on the segmentation and no open finding covers it."""
    H, G = _H()
    stream, exp = path_expected(case)
    res = run_path(case, cuts)
    if base_of(case) == 10 and any(tuple(r) == ('error', 'UnicodeDecodeError') for r in res) and any(b >= 0x80 for b in stream):
        # F1 (property C01, DefaultXMLParser._parse10): the look-back offset into the buffer can fall inside a
        # multi-byte character; that class is repaired there, not in the Junos parser
        return 'dep_c01_f1_parse10_lookback_inside_multibyte_character'
    v0 = path_verdict(exp, run_path(case, []))
    if v0 is None: return None
    i = v0[0]
    return G.sig_of(_tup(case['docs'][i]), _ftup(case['filters'][i])) if case['filters'][i] is not None else None

def interesting_positions(case):
    """offsets of the start-tag ends and of the delimiters in the stream"""
    H, G = _H()
    pos, off = [], 0
    for i, g in enumerate(case['gaps']):
        b = _doc_bytes(case, i)
        pos.append((off, off + b.index(b'>', b.index(b'<rpc-reply' if b'<rpc-reply' in b else b'<nc:rpc-reply')) + 1))          # reply start tag
        pos.append((off + len(b) - 14, off + len(b) + 6 + len(g)))   # end tag .. delimiter
        off += len(b) + 6 + len(g)
    return pos

# ------------------------------------------------------------------ (f) base:1.1: the same replies in chunked framing
CHUNKINGS = ('one', 'several', 'tags', 'multibyte', 'small', 'bytewise')

def _inside_tags(b):
    """chunk boundaries that fall inside a tag: offsets p with a '<' before p that is not closed before p"""
    pos, inside = [], False
    for i in range(1, len(b)):
        c = b[i - 1]
        if c == 0x3c: inside = True
        elif c == 0x3e: inside = False
        if inside: pos.append(i)
    return pos

def _inside_chars(b):
    """chunk boundaries inside a multi-byte UTF-8 character: the octet after the boundary is a continuation octet"""
    return [i for i in range(1, len(b)) if b[i] & 0xC0 == 0x80]

def _sizes(cuts, L):
    cs = sorted(set(c for c in cuts if 0 < c < L))
    return [b - a for a, b in zip([0] + cs, cs)]          # the rest is the last chunk (saxpath.chunk_frame)

def gen_chunks(rng, b, style):
    """-> (style used, chunk sizes) for the message b"""
    L = len(b)
    if style == 'multibyte' and not _inside_chars(b): style = 'tags'
    if style == 'one' or L < 2: return 'one', []
    if style == 'several': return style, _sizes(rng.sample(range(1, L), min(L - 1, rng.randint(1, 5))), L)
    if style == 'tags':
        c = _inside_tags(b); return style, _sizes(rng.sample(c, min(len(c), rng.randint(1, 4))), L)
    if style == 'multibyte':
        c = _inside_chars(b); t = _inside_tags(b)
        return style, _sizes(rng.sample(c, min(len(c), rng.randint(1, 3))) + rng.sample(t, rng.randint(0, 1)), L)
    if style == 'small':
        sz, n = [], 0
        while n < L:
            k = rng.randint(1, 9); sz.append(k); n += k
        return style, sz[:-1]
    if style == 'bytewise': return style, [1] * (L - 1)
    raise ValueError(style)

def gen_stream11(rng, k):
    """a stream of gen_stream, chunk-framed: chunking style k mod 6 for the first message, mostly the same for the others"""
    style = CHUNKINGS[k % len(CHUNKINGS)]
    for _try in range(40):
        case = gen_stream(rng, linked=True, p_filter=0.65) if k % 5 == 4 else gen_stream(rng, n_replies=rng.choice([1, 2, 2, 3]), p_filter=0.65)
        case['base'] = 11
        if style != 'multibyte' or _inside_chars(_doc_bytes(case, 0)): break
    n = len(case['docs'])                                     # gaps: white space at the END of each message (a trailing line feed is common)
    case['chunking'], case['chunks'] = [], []
    for i in range(n):
        u, sz = gen_chunks(rng, msg_bytes11(case, i), style if i == 0 or rng.random() < 0.6 else rng.choice(CHUNKINGS))
        case['chunking'].append(u); case['chunks'].append(sz)
    return case

def frame_positions(case):
    """base:1.1: the (start, end) offsets of every chunk header and end-of-chunks in the stream"""
    H, G = _H()
    pos, off = [], 0
    for i in range(len(case['docs'])):
        b = msg_bytes11(case, i); j = 0
        for n in list(case['chunks'][i]) + [len(b)]:
            n = min(int(n), len(b) - j)
            if n <= 0: continue
            h = len(b'\n#%d\n' % n)
            pos.append((off, off + h)); off += h + n; j += n
        pos.append((off, off + 4)); off += 4
    assert off == len(stream_bytes(case))
    return pos

def cuts11(rng, case, thorough):
    """reads for a chunked stream: uncut; a cut at every offset inside / at the edges of chunk headers and end-of-chunks
    (quick: at most 30 of them, thorough 150); cuts in the chunk data (quick: 12; thorough: 100); double cuts with both cuts in the framing
    octets; random multi-cuts; octet by octet"""
    L = len(stream_bytes(case))
    fr = sorted({p for a, b in frame_positions(case) for p in range(max(1, a), min(L - 1, b) + 1)})
    data = [c for c in range(1, L) if c not in set(fr)]
    cap = 150 if thorough else 30
    frs = fr if len(fr) <= cap else sorted(rng.sample(fr, cap))
    cutsets = [[]] + [[c] for c in frs]
    cutsets += [[c] for c in sorted(rng.sample(data, min(len(data), 100 if thorough else 12)))]
    for _ in range(20 if thorough else 3):
        if len(fr) >= 2: cutsets.append(sorted(rng.sample(fr, 2)))
    for _ in range(15 if thorough else 4):
        cutsets.append(sorted(rng.sample(range(1, L), min(L - 1, rng.choice([3, 4, 6, 8])))))
    if L < (1500 if thorough else 400): cutsets.append('bytewise')
    return cutsets

def check_path_case(ctx, case, cutsets):
    H, G = _H()
    stream, exp = path_expected(case)
    ctx.hist('path_replies', len(case['docs'])); ctx.hist('path_filters', ''.join('F' if f is not None else '-' for f in case['filters']))
    ctx.hist('path_stream_len', len(stream) // 50 * 50)
    ctx.hist('path_base', '1.1 (chunked)' if base_of(case) == 11 else '1.0 (end-of-message)', len(cutsets))
    if base_of(case) == 11:
        for u, sz, f in zip(case.get('chunking') or ['?'] * len(case['docs']), case['chunks'], case['filters']):
            ctx.hist('path11_chunking', '%s, %s' % (u, 'filter' if f is not None else 'no filter'), len(cutsets))
            n = len(sz) + 1; ctx.hist('path11_chunks_per_message', '1' if n == 1 else '2-4' if n < 5 else '5-19' if n < 20 else '20+')
    for d, f, fm in zip(case['docs'], case['filters'], forms_of(case)):
        ctx.hist('path_filter_form', fm if f is None else '%s, %s, %s' % (fm, 'single leaf' if not f[1] else 'with children',
                 'wrapper' if 'wrapper' in G.reasons(_tup(d), _ftup(f)) else 'first child'), len(cutsets))
    n = 0
    runs = []
    for cuts in cutsets:
        res, log = run_path_obs(case, cuts)
        runs.append((cuts, log))
        n += 1
        v = path_verdict(exp, res)
        if v:
            c = dict(case, cuts=cuts if cuts == 'bytewise' else list(cuts))
            ctx.fail(c, v[1] + ' [cuts %s]' % (cuts,), sig=path_sig(case, cuts), expected=v[2], actual=v[3])
            if len(ctx.failures) > 20: break
    check_driver_model(ctx, case, stream, runs)
    ctx.evaluations += n
    ctx.traces += n
    ctx.count(dict(stream=stream.hex(), filters=case['filters']), nontrivial=True)
    ctx.evaluations -= 1
    ctx.hist('path_runs', 'cut runs', n)

def check_forms_case(ctx, case, rng):
    """(e) one stream, every way of handing over its filters / of issuing its requests without filter: the oracle is the
    same for all of them (projection resp. the reply with the mode off)."""
    H, G = _H()
    L = len(stream_bytes(case))
    choices = [H.FILTER_FORMS if f is not None else H.NOFILTER_FORMS for f in case['filters']]
    for combo in itertools.product(*choices):
        cutsets = [[]] + [sorted(rng.sample(range(1, L), min(L - 1, n))) for n in (1, 3)]
        check_path_case(ctx, dict(case, forms=list(combo)), cutsets)
        ctx.hist('path_forms', 'combinations of forms')

def check_malformed_case(ctx, case, cutsets):
    """A stream with one reply that is not well-formed.  Request without filter: the DOM parser cannot dispatch it and
    stays; what every request gets must still not depend on the cuts (oracle: equal to the uncut run), and the driver model
    follows read by read.  Request with filter: expat rejects, _delimiter_check takes over: outside the model (the model
    says so: Stuck), compared up to that read only."""
    stream = stream_bytes(case)
    filtered = case['filters'][case['corrupt']] is not None
    runs, base = [], None
    for cuts in cutsets:
        res, log = run_path_obs(case, cuts)
        runs.append((cuts, log))
        if base is None: base = res
        elif not filtered and res != base:
            ctx.fail(dict(case, cuts=list(cuts)), 'stream with a malformed reply to a request without filter: results depend on the cuts %s' % (cuts,),
                     sig=None, expected=[list(r)[:1] for r in base], actual=[list(r)[:1] for r in res])
            break
    check_driver_model(ctx, case, stream, runs)
    ctx.evaluations += len(runs); ctx.traces += len(runs)
    ctx.hist('path_malformed', 'expat rejects (filter)' if filtered else
             ('DOM message without a root lxml accepts (no filter): the DOM parser stays' if case.get('corrupt_kind') == 'nons'
              else 'DOM message not well-formed after its start tag (no filter)'), len(runs))

def check_malformed11_case(ctx, case, cutsets):
    """base:1.1, one reply of the stream not well-formed.  The property says nothing about that reply; the other requests
    must get what the property says, and what every request gets must not depend on the cuts (chunked framing has no
    recovery heuristics: also for a filtered request, whose message expat rejects)."""
    stream, exp = path_expected(case)
    k = case['corrupt']
    exp = [('off-failed', None) if i == k else e for i, e in enumerate(exp)]
    runs, base = [], None
    for cuts in cutsets:
        res, log = run_path_obs(case, cuts)
        runs.append((cuts, log))
        c = dict(case, cuts=cuts if cuts == 'bytewise' else list(cuts))
        v = path_verdict(exp, res)
        if v:
            ctx.fail(c, 'base:1.1, stream with a malformed reply (to request %d): %s [cuts %s]' % (k, v[1], cuts), sig=None, expected=v[2], actual=v[3])
            break
        if base is None: base = res
        elif res != base:
            ctx.fail(c, 'base:1.1, stream with a malformed reply: results depend on the cuts %s' % (cuts,),
                     sig=None, expected=[list(r) for r in base], actual=[list(r) for r in res])
            break
    check_driver_model(ctx, case, stream, runs)
    ctx.evaluations += len(runs); ctx.traces += len(runs)
    ctx.hist('path_malformed', 'base:1.1, ' + ('filter' if case['filters'][k] is not None else 'no filter') +
             (', root lxml refuses' if case.get('corrupt_kind') == 'nons' else ', not well-formed after the start tag'), len(runs))

# ------------------------------------------------------------------ (g) several sessions in one process, reads interleaved
# "independent of other replies adjacent in the stream", seen process-wide: an application that polls several devices has
# several Junos sessions, each with its own worker, very often with the SAME filter (the same text, or one element object
# built once).  What one session's request gets must not depend on how far another session's reply has been read.
SESSION_FORMS = ('text', 'text', 'bytes', 'shared', 'shared', 'element', 'subelement')

def _vary_text(t, tag):
    """the same document with every non-blank text changed (what another device answers to the same request)"""
    if t[0] == 'T':
        return t if not t[1].strip() else ('T', t[1] + tag, t[2])
    return ('E', t[1], t[2], [_vary_text(k, tag) for k in t[3]])

def _with_id(doc, mid):
    return ('E', doc[1], [(k, mid if k == 'message-id' else v) for k, v in doc[2]], doc[3])

def gen_sessions(rng, k):
    """-> dict(kind='sessions', sessions=[path case...], ids='distinct'|'same', relation=[...]): 2-3 sessions of one
    process.  Sessions after the first are mostly TWINS of the first: the same requests with the same filters, replies of the
    same shape with other text and message-ids (k % 4 != 3), handed over in the same form (k % 5: 0 text, 1 one shared
    element object, 2 bytes, 3 any one form, 4 forms drawn independently); otherwise independent streams.  Even k: replies
    of the wrapper shape (<rpc-reply><data><configuration>).  ids 'same': every session numbers its requests from 1."""
    H, G = _H()
    ns = 2 if rng.random() < 0.7 else 3
    twin = k % 4 != 3
    same_ids = rng.random() < 0.3
    pw = 0.9 if k % 2 == 0 else 0.15
    first = gen_stream(rng, n_replies=rng.choice([1, 1, 2]), p_filter=1.0 if twin and k % 5 < 4 else 0.7, p_wrapper=pw)
    fm = k % 5
    def redraw_forms(case, one=None):
        case['forms'] = [(one or rng.choice(SESSION_FORMS)) if f is not None else rng.choice(H.NOFILTER_FORMS) for f in case['filters']]
    one = {0: 'text', 1: 'shared', 2: 'bytes', 3: rng.choice(SESSION_FORMS)}.get(fm)
    redraw_forms(first, one)
    sessions, relation, id0 = [first], ['first'], len(first['docs'])
    for j in range(1, ns):
        base_id = 0 if same_ids else id0
        if twin:
            ids = H.ids_for(len(first['docs']), base_id)
            c = dict(first, docs=[_with_id(_vary_text(_tup(d), '-s%d' % j) if rng.random() < 0.8 else _tup(d), ids[i]) for i, d in enumerate(first['docs'])],
                     gaps=[rng.choice(['', '', '\n', '\n\n', ' ']) for _ in first['docs']], decl=[rng.random() < 0.3 for _ in first['docs']],
                     forms=list(first['forms']))
            if fm == 4: redraw_forms(c)
            relation.append('twin of the first (same filters)')
        else:
            c = gen_stream(rng, n_replies=rng.choice([1, 1, 2]), p_filter=0.7, p_wrapper=pw)
            c['docs'] = [_with_id(_tup(d), m) for d, m in zip(c['docs'], H.ids_for(len(c['docs']), base_id))]
            redraw_forms(c, one if fm < 4 else None)
            relation.append('independent stream')
        c.pop('id0', None)
        if base_id: c['id0'] = base_id
        sessions.append(c); id0 += len(c['docs'])
    for c in sessions:
        if rng.random() < 0.12:                                # this session negotiated base:1.1
            c['base'] = 11; c['chunking'], c['chunks'] = [], []
            for i in range(len(c['docs'])):
                u, sz = gen_chunks(rng, msg_bytes11(c, i), rng.choice(CHUNKINGS)); c['chunking'].append(u); c['chunks'].append(sz)
    return dict(kind='sessions', sessions=sessions, ids='same' if same_ids else 'distinct', relation=relation)

def tag_cuts(stream):
    """read boundaries right after a tag: the places where the handler has just changed its state"""
    return [i + 1 for i in range(len(stream) - 1) if stream[i] == 0x3e]

def _round_robin(counts, lead=()):
    """order of reads: `lead` first, then one read per session in turn until every session has had counts[k] reads"""
    left = list(counts); order = []
    for k in lead:
        if left[k] > 0: order.append(k); left[k] -= 1
    while any(left):
        for k in range(len(left)):
            if left[k] > 0: order.append(k); left[k] -= 1
    return order

def gen_interleavings(rng, group, thorough):
    """-> [(style, cuts per session, order)]: the sessions' streams cut into reads and the reads dealt out one at a time"""
    streams = [stream_bytes(c) for c in group['sessions']]
    T = [tag_cuts(b) or [1] for b in streams]
    n = len(streams)
    out = []
    ev = [t if len(t) <= 70 else sorted(rng.sample(t, 70)) for t in T]
    cnt = [len(c) + 1 for c in ev]
    out.append(('every tag a read, sessions in turn', ev, _round_robin(cnt)))
    for _ in range(3 if thorough else 1):
        k = rng.randrange(n); d = rng.randint(1, 6)
        out.append(('every tag a read, one session ahead', ev, _round_robin(cnt, [k] * d)))
    for _ in range(8 if thorough else 3):
        cuts = [[rng.choice(t)] for t in T]
        first = list(range(n)); rng.shuffle(first); second = list(range(n)); rng.shuffle(second)
        out.append(('one cut after a tag each, first reads then second reads', cuts, first + second))
    for _ in range(6 if thorough else 2):
        k = rng.randrange(n)
        cuts = [[rng.choice(t)] if j == k else [] for j, t in enumerate(T)]
        out.append(('one session cut after a tag, the others read whole in between', cuts, [k] + [j for j in range(n) if j != k] + [k]))
    for _ in range(10 if thorough else 3):
        cuts = []
        for b, t in zip(streams, T):
            m = rng.randint(1, 5)
            cuts.append(sorted(set(rng.choice(t) if rng.random() < 0.6 else rng.randrange(1, len(b)) for _ in range(m))))
        order = [k for k, c in enumerate(cuts) for _ in range(len(c) + 1)]
        rng.shuffle(order)
        out.append(('random cuts, random order', cuts, order))
    if thorough:
        short = [list(range(1, len(b))) if len(b) < 400 else sorted(rng.sample(range(1, len(b)), 300)) for b in streams]
        out.append(('octet by octet, sessions in turn', short, _round_robin([len(c) + 1 for c in short])))
    return out

def complete_order(order, counts):
    """the order of turns with the turns nobody can take removed and the reads left over at its end handed out session by
    session (what harness/saxseg.py run_sessions_obs does; the model's `deal` gets the completed order)"""
    left, out = list(counts), []
    for k in order:
        if left[k] > 0: out.append(k); left[k] -= 1
    for k in range(len(left)): out += [k] * left[k]
    return out

def check_process_model(ctx, group, streams, runs):
    """JunosProcess.sx_prun (extracted, glue fn 6: the list of the sessions' driver states, the schedule dealt from the order
    of turns) vs the implementation: after every read the state of the session that took it, at the end every session's
    messages and octets per parser.  runs = [(cuts per session, order, [observations per session])]"""
    if not ctx.model or not runs: return
    H, G = _H()
    from harness import saxseg as S
    ss = group['sessions']
    sv = []
    for c, stream in zip(ss, streams):
        fstrs = [None if f is None else G.filter_str(_ftup(f)) for f in c['filters']]
        ids = H.ids_for(len(c['docs']), c.get('id0', 0))
        if base_of(c) == 11:
            world = S.world_for11([msg_bytes11(c, i) for i in range(len(c['docs']))], ids, fstrs, env_val, events_val)
        else:
            world = S.world_for(stream, ids, fstrs, env_val, events_val)
        sv.append([base_of(c), world, stream])
    mres = ctx.model.call([6, sv, [[[S.lens_of(b, cu) for b, cu in zip(streams, cuts)], list(order)] for cuts, order, _ in runs]])
    for (cuts, order, logs), m in zip(runs, mres):
        steps, finals = m
        per = [[] for _ in ss]
        for k, obs in steps: per[k].append(obs)
        for j, c in enumerate(ss):
            mj = (per[j], finals[j][0], finals[j][1])
            bad = (S.compare11 if base_of(c) == 11 else S.compare)(mj, logs[j])
            ctx.hist('driver_model', 'process of several sessions: ' + ('base:1.1 session compared' if base_of(c) == 11 else
                     'outside the model (expat rejects)' if any(r[0] == 3 for r in per[j]) else 'base:1.0 session compared'))
            if bad:
                ctx.disagree(dict(group, cuts=[list(x) for x in cuts], order=list(order)), repr(bad[1])[:600], repr(bad[2])[:600],
                             'JunosProcess.sx_prun vs %d sessions in one process, session %d: %s' % (len(ss), j, bad[0]), theorem='C18_sessions_alone')
                return

def sequential(group):
    """the reference: the same sessions in the same process, one after the other, each stream in one read"""
    return ('one after the other', [[] for _ in group['sessions']], list(range(len(group['sessions']))))

def run_sessions(group, cuts, order):
    """-> [(results per request, observations) per session]"""
    H, G = _H()
    from harness import saxseg as S
    specs = []
    for c, cu in zip(group['sessions'], cuts):
        stream = stream_bytes(c)
        specs.append(dict(segments=H.cuts_to_segments(stream, cu), forms=forms_of(c), base=base_of(c), id0=c.get('id0', 0),
                          filters=[None if f is None else G.filter_str(_ftup(f)) for f in c['filters']]))
    return S.run_sessions_obs(specs, order, use_filter=True)

def sessions_verdict(group, exps, ref, outs):
    """None, or (session, what, expected, actual): each session's requests get what the property says (per-session oracle
    of the one-session families), and exactly what they get when the sessions run one after the other"""
    for j, (exp, (res, _log)) in enumerate(zip(exps, outs)):
        v = path_verdict(exp, res)
        if v: return (j, 'session %d of %d in one process: %s' % (j, len(outs), v[1]), v[2], v[3])
    if ref is not None:
        for j, ((r0, _l0), (res, _log)) in enumerate(zip(ref, outs)):
            if [tuple(x) for x in r0] != [tuple(x) for x in res]:
                return (j, 'session %d of %d in one process: results differ from those obtained when the sessions run one after the other' % (j, len(outs)),
                        [list(x) for x in r0], [list(x) for x in res])
    return None

def sessions_sig(group, j, cuts):
    """a failure that session j shows alone too (same cuts) is that session's own (path_sig); one that needs the other
    sessions is covered by no open finding"""
    c = group['sessions'][j]
    stream, exp = path_expected(c)
    if path_verdict(exp, run_path(c, cuts[j])) is None: return None
    return path_sig(c, cuts[j])

def check_sessions_case(ctx, group, inters):
    H, G = _H()
    ss = group['sessions']
    pe = [path_expected(c) for c in ss]
    streams, exps = [p[0] for p in pe], [p[1] for p in pe]
    fs = [[None if f is None else G.filter_str(_ftup(f)) for f in c['filters']] for c in ss]
    common = set(x for x in fs[0] if x) & set(x for c in fs[1:] for x in c if x)
    ctx.hist('sessions_in_process', len(ss)); ctx.hist('sessions_ids', group.get('ids', '?'))
    for rel in group.get('relation', [])[1:]: ctx.hist('sessions_relation', rel)
    for c, f in zip(ss, fs):
        for d, x, fl, fm in zip(c['docs'], f, c['filters'], forms_of(c)):
            ctx.hist('sessions_request', 'no filter (%s)' % fm if x is None else '%s, %s, %s, base:%s' % (
                fm, 'filter used by another session too' if x in common else 'filter of this session only',
                'wrapper' if 'wrapper' in G.reasons(_tup(d), _ftup(fl)) else 'first child', '1.1' if base_of(c) == 11 else '1.0'))
    st, cu, od = sequential(group)
    ref = run_sessions(group, cu, od)
    runs = []
    n = 0
    for style, cuts, order in [(st, cu, od)] + list(inters):
        order = complete_order(order, [len(H.cuts_to_segments(b, c)) for b, c in zip(streams, cuts)])
        outs = ref if style == st else run_sessions(group, cuts, order)
        n += 1
        ctx.hist('sessions_interleaving', style)
        ctx.hist('sessions_reads_per_run', min(len(order) // 10 * 10, 100))
        runs.append(([list(x) for x in cuts], order, [log for _res, log in outs]))
        v = sessions_verdict(group, exps, None if style == st else ref, outs)
        if v:
            c = dict(group, cuts=[list(x) for x in cuts], order=list(order), style=style)
            ctx.fail(c, v[1] + ' [%s; cuts %s; order of reads %s]' % (style, cuts if len(order) < 40 else '...', order if len(order) < 40 else '...'),
                     sig=sessions_sig(group, v[0], cuts), expected=v[2], actual=v[3])
            if len(ctx.failures) > 20: break
    check_process_model(ctx, group, streams, runs)
    ctx.evaluations += n; ctx.traces += n
    ctx.count(dict(streams=[b.hex() for b in streams], filters=fs), nontrivial=True)
    ctx.evaluations -= 1
    ctx.hist('path_runs', 'runs of several sessions', n)

def load_corpus():
    out = []
    d = os.path.join(os.path.dirname(os.path.dirname(os.path.dirname(os.path.abspath(__file__)))), 'corpus', 'C18')
    for p in sorted(glob.glob(os.path.join(d, '*.json'))):
        out.append(json.load(open(p)))
    return out

def run(ctx):
    rng = ctx.rng
    thorough = ctx.tier == 'thorough'
    # corpus first
    corpus = load_corpus()
    hc = [c for c in corpus if c.get('kind') == 'handler']
    if hc: check_handler_cases(ctx, hc)
    for c in corpus:
        if c.get('kind') == 'path':
            check_path_case(ctx, c, [c.get('cuts', [])])
        if c.get('kind') == 'sessions':
            check_sessions_case(ctx, c, [(c.get('style', 'recorded'), c['cuts'], c['order'])])
    check_escaping(ctx)
    # (a) handler level
    n = 2500 if thorough else 400
    cases = [handler_case(rng, i) for i in range(n)]
    check_handler_cases(ctx, cases)
    check_spec_cases(ctx, cases)
    # (b) whole path
    ns = 80 if thorough else 30
    for k in range(ns):
        case = gen_stream(rng, n_replies=(1 if k % 3 else 2))
        L = len(stream_bytes(case))
        cutsets = [[]] + [[c] for c in range(1, L)]
        if thorough:
            cutsets.append('bytewise')
            for (a, b) in interesting_positions(case):
                lo, hi = max(1, a - 2), min(L - 1, b + 3)
                if hi - lo > 48: lo = hi - 48            # the last 48 positions of a long start tag
                cutsets += [list(p) for p in itertools.combinations(range(lo, hi + 1), 2)]
            for _ in range(40):
                cutsets.append(sorted(rng.sample(range(1, L), min(L - 1, rng.choice([3, 4, 6, 10])))))
        else:
            # a few double cuts round the first start tag end and each delimiter
            for (a, b) in interesting_positions(case)[1::2]:
                cutsets += [list(p) for p in itertools.combinations(range(max(1, b - 8), min(L - 1, b + 2) + 1), 2)]
        check_path_case(ctx, case, cutsets)
    # (c) histories: the replies of one session share element names across requests
    for k in range(300 if thorough else 60):
        case = gen_stream(rng, linked=True)
        L = len(stream_bytes(case))
        check_path_case(ctx, case, [[]] + [sorted(rng.sample(range(1, L), min(L - 1, 3))) for _ in range(2)])
        ctx.hist('path_linked', 'histories')
    # (e) filter forms x reply shapes: every way a caller can hand over the filter (or have none), on replies where the
    # filter root is the first child / below a wrapper, filters with children / a single leaf, one object for two requests
    for k in range(60 if thorough else 36):
        case = gen_stream(rng, n_replies=(2 if k % 3 == 0 else 1), leaf=(k % 2 == 0), p_filter=(1.0 if k % 3 else 0.7), twin=(k % 6 == 0))
        check_forms_case(ctx, case, rng)
    # (d) one reply of the stream is not well-formed
    for k in range(24 if thorough else 10):
        case = gen_stream(rng, n_replies=2 + k % 2)
        case['corrupt'] = k % len(case['docs'])
        if k % 2 == 0 and case['filters'][case['corrupt']] is not None:
            case['filters'][case['corrupt']] = None; case['forms'][case['corrupt']] = rng.choice(_H()[0].NOFILTER_FORMS)
        if k % 4 == 0: case['corrupt_kind'] = 'nons'
        L = len(stream_bytes(case))
        check_malformed_case(ctx, case, [[]] + [[c] for c in range(1, L, 1 if thorough else 3)])
    # (f) base:1.1: the same replies chunk-framed (RFC 6242), session negotiated to base:1.1
    import time; t11 = time.time()
    for k in range(60 if thorough else 30):
        case = gen_stream11(rng, k)
        check_path_case(ctx, case, cuts11(rng, case, thorough))
    #     ... every way of handing over the filters, on chunked streams
    for k in range(10 if thorough else 5):
        case = gen_stream11(rng, k)
        case['docs'], case['filters'], case['chunks'] = case['docs'][:2], case['filters'][:2], case['chunks'][:2]
        case['gaps'], case['decl'], case['chunking'] = case['gaps'][:2], case['decl'][:2], case['chunking'][:2]
        check_forms_case(ctx, case, rng)
    #     ... one reply of the stream not well-formed
    for k in range(20 if thorough else 8):
        case = gen_stream11(rng, k)
        case['corrupt'] = k % len(case['docs'])
        if k % 4 == 3: case['corrupt_kind'] = 'nons'
        for i in range(len(case['docs'])):              # the message changed: chunk sizes drawn again
            case['chunking'][i], case['chunks'][i] = gen_chunks(rng, msg_bytes11(case, i), case['chunking'][i])
        L = len(stream_bytes(case))
        check_malformed11_case(ctx, case, [[]] + [[c] for c in sorted(rng.sample(range(1, L), min(L - 1, 40 if thorough else 12)))] + ['bytewise'])
    ctx.extra['base11_family_wall_s'] = round(time.time() - t11, 1)
    # (g) several sessions in one process (same filters, same filter objects), their reads interleaved read by read
    tg = time.time()
    for k in range(100 if thorough else 40):
        group = gen_sessions(rng, k)
        check_sessions_case(ctx, group, gen_interleavings(rng, group, thorough))
    ctx.extra['sessions_family_wall_s'] = round(time.time() - tg, 1)
    if thorough:
        # all double cuts of two short streams (two adjacent replies, filter/no filter)
        for k in range(2):
            for _try in range(200):
                case = gen_stream(rng, n_replies=2)
                if len(stream_bytes(case)) < 270 and (case['filters'][0] is None) != (case['filters'][1] is None): break
            L = len(stream_bytes(case))
            check_path_case(ctx, case, [list(p) for p in itertools.combinations(range(1, L), 2)])
        ctx.exhaustive = False

# ------------------------------------------------------------------ search / reproduce / replay
def eval_case(case):
    """-> None if the property holds on this case, else dict(what, sig, expected, actual)."""
    H, G = _H()
    if case.get('kind') == 'sessions':
        exps = [path_expected(c)[1] for c in case['sessions']]
        st, cu, od = sequential(case)
        ref = run_sessions(case, cu, od)
        v = sessions_verdict(case, exps, None, ref) or sessions_verdict(case, exps, ref, run_sessions(case, case['cuts'], case['order']))
        if v: return dict(what=v[1], sig=sessions_sig(case, v[0], case['cuts']), expected=v[2], actual=v[3])
        return None
    if case.get('kind') == 'path':
        stream, exp = path_expected(case)
        v = path_verdict(exp, run_path(case, case.get('cuts', [])))
        if v: return dict(what=v[1], sig=path_sig(case, case.get('cuts', [])), expected=v[2], actual=v[3])
        return None
    xml, fstr, table, ev, out, buf = run_handler_case(case, chunk=case.get('chunk'))
    bad = handler_oracle(case, xml, fstr, out, buf)
    if bad:
        return dict(what=bad[0], sig=G.sig_of(_tup(case['doc']), _ftup(case['filter'])) if case['req'] == 'filter' else None,
                    expected=bad[1], actual=bad[2])
    for ch in (1, 7):
        _, _, _, _, out2, buf2 = run_handler_case(case, chunk=ch)
        if (out2, buf2) != (out, buf):
            return dict(what='handler output depends on how the bytes were fed to expat', sig=None,
                        expected=[out, buf.decode('utf-8', 'replace')], actual=[out2, buf2.decode('utf-8', 'replace')])
    return None

def search(ctx, seeds):
    from vlib import findings
    rng = ctx.rng
    def new(case):
        r = eval_case(case)
        if r and not findings.covered(ID, r.get('sig')):
            return dict(case=case, **r)
    for c in seeds:
        if c.get('kind') in ('handler', 'path', 'sessions'):
            f = new(c)
            if f: return f
    # whole path first (segmentation is where the property is most fragile), then handler level
    for k in range(25):
        case = gen_stream(rng, n_replies=1 + k % 2)
        L = len(stream_bytes(case))
        stream, exp = path_expected(case)
        cutsets = [[]] + [[c] for c in range(1, L)]
        for (a, b) in interesting_positions(case):
            cutsets += [list(p) for p in itertools.combinations(range(max(1, b - 9), min(L - 1, b + 2) + 1), 2)]
        for cuts in cutsets:
            v = path_verdict(exp, run_path(case, cuts))
            if v:
                sig = path_sig(case, cuts)
                if not findings.covered(ID, sig):
                    return dict(case=dict(case, cuts=cuts), what=v[1], sig=sig, expected=v[2], actual=v[3])
    for k in range(40):                      # several sessions in one process
        group = gen_sessions(rng, k)
        for style, cuts, order in gen_interleavings(rng, group, False):
            f = new(dict(group, cuts=[list(x) for x in cuts], order=list(order), style=style))
            if f: return f
    for k in range(18):                      # chunked framing
        case = gen_stream11(rng, k)
        stream, exp = path_expected(case)
        for cuts in cuts11(rng, case, False):
            v = path_verdict(exp, run_path(case, cuts))
            if v:
                sig = path_sig(case, cuts)
                if not findings.covered(ID, sig):
                    return dict(case=dict(case, cuts=cuts), what=v[1], sig=sig, expected=v[2], actual=v[3])
    for i in range(3000):
        f = new(handler_case(rng, i))
        if f: return f
    return None

def reproduce(finding):
    return eval_case(finding['witness']) is not None

def replay(doc):
    c = doc['case']
    r = eval_case(c)
    H, G = _H()
    if c.get('kind') == 'sessions':
        print('%d Junos sessions (use_filter on) in one process; message-ids %s' % (len(c['sessions']), c.get('ids')))
        for j, x in enumerate(c['sessions']):
            print('session %d stream :' % j, stream_bytes(x)); print('          filters:', [None if f is None else G.filter_str(_ftup(f)) for f in x['filters']])
            print('          handed over as:', forms_of(x), '(equal filters: the same object in every session)'); print('          cuts   :', c['cuts'][j], ' framing: base:1.%d' % (base_of(x) - 10))
        print('order of reads (session index per read):', c['order'], '(%s)' % c.get('style'))
    elif c.get('kind') == 'path':
        print('stream   :', stream_bytes(c)); print('filters  :', [None if f is None else G.filter_str(_ftup(f)) for f in c['filters']])
        print('handed over as / request without filter issued as (harness/saxpath.py FILTER_FORMS, NOFILTER_FORMS):', forms_of(c)); print('cuts     :', c.get('cuts'))
        if base_of(c) == 11: print('framing  : base:1.1, chunk sizes per message (the rest of a message is its last chunk):', c.get('chunks'))
    else:
        print('document :', G.ser(_tup(c['doc']))); print('filter   :', G.filter_str(_ftup(c['filter'])), '(handed over as %s)' % c.get('form', 'text')); print('request  :', c['req'])
    if r:
        print('what     :', r['what']); print('expected :', r['expected']); print('actual   :', r['actual'])
    else:
        print('property holds on this case now')
    return r is None
