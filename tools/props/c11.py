"""C11 — decided on the session LTS (coq/Model/SessionLTS.v, coq/Props/C11.v); tie = trace validation of real
Session.run / RPC / RPCReplyListener threads under the deterministic scheduler (tools/harness/sched.py, lts.py).
Real stack (tools/harness/c11_real.py): histories on the wire through the real parser and session read by read, live
UnixSocketSession threads over a socketpair, and the (block, timeout) space of Manager.take_notification."""
import os, json, glob
from harness import lts_check, c11_real
from vlib import paths
ID = 'C11'
RUNNER = 'LTS'
COQ_ROOTS = ['Props/C11.v', 'Props/C11_take.v', 'Props/C11_sax.v', 'Props/C11_connect.v', 'Props/E2E.v', 'GenProps/Session_consts.v']
RULE = ('A case is (scenario, schedule): client programs (sync/async requests, take_notification, await-disconnect), a scripted '
        'server (replies in any order, duplicates, unknown/missing ids, notifications, unknown messages, EOF/error) and the list of '
        'scheduler decisions at every synchronisation point (lock acquire, event set/wait, queue put/get, connected read, '
        'read/write/select, close). Small scenarios are enumerated depth-first with a pre-emption bound, larger ones are '
        'random. Distinct = distinct (scenario, decision list); non-trivial = at least one request was registered. '
        'Real stack, no scheduler (c11_real.py): (a) real_wire - a history (replies in any order, numbered notifications, sizes from '
        'minimal to 20 kB = several reads, ASCII / multi-byte text, XML declaration, 1.0 delimiters or 1.1 chunks of size 1..5000, '
        'all 14 profiles, requests made up front or as late as possible) as an octet stream handed to session.parser.parse read by '
        'read (4096-octet reads of server bursts cut near the end of every multi-read message so that its tail shares a read with '
        'the messages behind it - a deterministic family of 216 such cases plus generated ones; fixed sizes; random cuts; cuts '
        'around every terminator; one read); after EVERY read Manager.take_notification(block=False) is polled until None; oracle: '
        'taken == notifications whose terminator has been read (once, in order, text equal), a request is complete exactly when '
        'its reply has been read, with its own reply, no exception out of parse, no errback, still connected. (b) real_live - the '
        'UnixSocketSession thread over a socketpair after a real hello exchange, stream written in bursts with pauses, a blocking '
        'Manager.take_notification(True, t) consumer started before or after the traffic. (c) real_take - per profile the '
        '(block, timeout) space of Manager.take_notification: block in {True, False, 1, 0} x timeout in {None, 0, 0.0, 0.05-0.15, '
        '30} in positional / keyword / default forms, on an empty queue (None at once; None after t, not before, not later than '
        't + 1 s; untimed blocking take still waiting after 0.2 s and returning the notification sent then; long timeout with an '
        'arrival inside it) and on a filled queue (head at once for every combination, then empty). '
        'real_wire also runs the Junos profile in streaming-filter mode (use_filter=True, requests with and without filter_xml) and a '
        'deterministic family (headshare) in which the read that completes a multi-read message also carries the first e octets of the '
        'next one. (d) real_connect - the connect window: server hello + k notifications cut into reads that are readable before '
        '_post_connect begins / at any time / after the client hello / after _post_connect returned, real _post_connect (thread M), real '
        'Session.run (thread W) and a scripted server under the deterministic scheduler (run-to-completion, depth-first with a '
        'pre-emption bound, seeded random schedules); takes through Manager.take_notification after connect; oracle: every notification '
        'sent behind the hello is returned once, in order, intact; trace validated against Model/ConnectWindow.v. real_live cases with '
        'hello_with=j write the first j notifications in the same write as the server hello (free-running threads). '
        '(e) real_ops - operations issued through Manager while received notifications wait untaken in the queue: step lists '
        '(server burst of notifications / scripted replies taken in reads of a given size; take_notification(block=False) x j; '
        'Manager.<operation>(args) in async mode or, in its own thread, sync mode; drain) on the real Manager / Session / parser; '
        'the table of calls = create_subscription in every combination of filter (none, (subtree, x), (xpath, x), list, <filter> '
        'text) x stream_name (none, NETCONF, other) x (no times, start_time, start_time + stop_time) + positional forms, 21 standard '
        'operations (get, get_config, lock, unlock, edit_config, copy_config, delete_config, validate, commit, discard_changes, '
        'cancel_commit, get_schema, kill_session, dispatch, rpc) and the vendor operations of the profile; deterministic family: '
        'every profile x every call of the table, two or three calls per history (so second / third subscriptions), reply before / '
        'after / in the same read as further notifications / all replies at the end, both framings; plus generated step lists. '
        'Oracle: an independent FIFO (a notification enters when its last octet has been read, a take removes the head): every '
        'take returns the head or None, an operation changes nothing, every reply reaches its own operation, no exception, no '
        'errback, still connected, the final drain returns the rest once and in order.')
ASSUMES = ['CPython executes the code between two instrumented synchronisation points atomically with respect to the other managed threads (GIL + cooperative scheduler)',
           'uuid4 message-ids are unique (fresh-id oracle of the LTS; a trace violating it is rejected by the model)',
           'threading.Event/Lock/queue.Queue/selectors behave as the instrumented stand-ins (tools/harness/sched.py)']
TRUSTED = ['modelled, not verified: threading, queue, selectors, the in-memory transport; inbound framing is composed with the LTS (Props/E2E.v, byte-level replay of the recorded reads by tools/harness/e2e_check.py; the concrete classifier of message texts Model/Classify.v is a scanner, the theorems hold for every classifier), outbound framing is C02',
           'tools/harness/sched.py, lts.py, lts_check.py (scheduler, effect log -> label mapping, oracles)',
           'tools/harness/c11_real.py (stream construction with known terminator offsets, wall-clock bounds: at once < 0.5 s, a hang = 2 s)']

def _corpus():
    out = []
    for f in sorted(glob.glob(os.path.join(paths.CORPUS, ID, '*.json'))):
        d = json.load(open(f))
        d['spec']['clients'] = [[tuple(op) for op in ops] for ops in d['spec']['clients']]
        d['spec']['server'] = [tuple(a) for a in d['spec']['server']]
        out.append(d)
    return out

def run(ctx):
    q = ctx.tier == 'quick'
    c11_real.check(ctx)
    lts_check.check(ctx, ID, n_random=500 if q else 6000, dfs_bound=2 if q else 3, dfs_cap=350 if q else 6000, corpus=_corpus())

def search(ctx, seeds):
    return c11_real.search(ctx) or lts_check.search(ctx, ID, seeds)

def reproduce(finding):
    w = finding['witness']
    if str(w.get('check', '')).startswith('real_'):
        from harness import lts
        lts.uninstall()
        return c11_real.confirm(w, c11_real.run_case(w)) is not None
    w['spec']['clients'] = [[tuple(op) for op in ops] for ops in w['spec']['clients']]
    w['spec']['server'] = [tuple(a) for a in w['spec']['server']]
    sc = lts_check.run_case(w['spec'], decisions=list(w['decisions']), rng_after=False)
    return lts_check.ORACLES[ID](sc) is not None

def replay(doc):
    if str(doc['case'].get('check', '')).startswith('real_'):
        return c11_real.replay(doc)
    return lts_check.replay(doc, ID)
