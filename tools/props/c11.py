"""C11 — decided on the session LTS (coq/Model/SessionLTS.v, coq/Props/C11.v); tie = trace validation of real
Session.run / RPC / RPCReplyListener threads under the deterministic scheduler (tools/harness/sched.py, lts.py)."""
import os, json, glob
from harness import lts_check
from vlib import paths
ID = 'C11'
RUNNER = 'LTS'
COQ_ROOTS = ['Props/C11.v', 'Props/E2E.v', 'GenProps/Session_consts.v']
RULE = ('A case is (scenario, schedule): client programs (sync/async requests, take_notification, await-disconnect), a scripted '
        'server (replies in any order, duplicates, unknown/missing ids, notifications, unknown messages, EOF/error) and the list of '
        'scheduler decisions at every synchronisation point (lock acquire, event set/wait, queue put/get, connected read, '
        'read/write/select, close). Small scenarios are enumerated depth-first with a pre-emption bound, larger ones are '
        'random. Distinct = distinct (scenario, decision list); non-trivial = at least one request was registered.')
ASSUMES = ['CPython executes the code between two instrumented synchronisation points atomically with respect to the other managed threads (GIL + cooperative scheduler)',
           'uuid4 message-ids are unique (fresh-id oracle of the LTS; a trace violating it is rejected by the model)',
           'threading.Event/Lock/queue.Queue/selectors behave as the instrumented stand-ins (tools/harness/sched.py)']
TRUSTED = ['modelled, not verified: threading, queue, selectors, the in-memory transport; inbound framing is composed with the LTS (Props/E2E.v, byte-level replay of the recorded reads by tools/harness/e2e_check.py; the concrete classifier of message texts Model/Classify.v is a scanner, the theorems hold for every classifier), outbound framing is C02',
           'tools/harness/sched.py, lts.py, lts_check.py (scheduler, effect log -> label mapping, oracles)']

def _corpus():
    out = []
    for f in sorted(glob.glob(os.path.join(paths.CORPUS, ID, '*.json'))):
        d = json.load(open(f))
        d['spec']['clients'] = [[tuple(op) for op in ops] for ops in d['spec']['clients']]
        d['spec']['server'] = [tuple(a) for a in d['spec']['server']]
        out.append(d)
    return out

def run(ctx):
    q = ctx.tier == 'quick'
    lts_check.check(ctx, ID, n_random=500 if q else 6000, dfs_bound=2 if q else 3, dfs_cap=350 if q else 6000, corpus=_corpus())

def search(ctx, seeds):
    return lts_check.search(ctx, ID, seeds)

def reproduce(finding):
    w = finding['witness']
    w['spec']['clients'] = [[tuple(op) for op in ops] for ops in w['spec']['clients']]
    w['spec']['server'] = [tuple(a) for a in w['spec']['server']]
    sc = lts_check.run_case(w['spec'], decisions=list(w['decisions']), rng_after=False)
    return lts_check.ORACLES[ID](sc) is not None

def replay(doc):
    return lts_check.replay(doc, ID)
