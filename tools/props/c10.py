"""C10 — reply content reaches the caller unaltered (operations/rpc.py, retrieve.py, xml_.py NCElement,
devices/junos.py XSLT, alu.py, sros.py).  Model: coq/Model/ReplyView.v, NsStrip.v, ReplyLife.v (histories: the RPC object
between request() and the delivery of its reply); theorems: coq/Props/C10.v."""
import json, os, re, sys
from harness import xmlgen as X
from harness import fakesession as F

ID = 'C10'
COQ_ROOTS = ['Props/C10.v', 'GenProps/Reply_consts.v', 'GenProps/XmlHelpers_consts.v']
RULE = ('Generated <rpc-reply> documents (random binding of the base namespace, extra attributes incl. two attributes with one '
        'local name, nested namespaced content, Unicode text, CDATA, comments, PIs, mixed content, decoy and duplicate <data> '
        'children, <ok/>, 0-3 <rpc-error>) serialised by the harness and delivered through a fake Session to real '
        'Manager.get/get_config/get_schema/dispatch/rpc calls under default/junos/alu/sros, huge_tree on/off, raise mode '
        'NONE/ALL. A case = (profile, operation, flags, reply document); non-trivial = the reply has >= 3 elements. '
        'Thorough adds 11 MB text nodes and 300-deep trees with huge_tree on/off. '
        'Histories (round 4): 1-4 calls on ONE Manager (plus the vendor operations that force the flag: junos get_configuration(format=text), '
        'sros md_cli_raw_command), each asynchronous (request() returns the RPC object, the reply is dispatched later), synchronous answered inside '
        'send(), or synchronous waiting while another thread delivers; between request and delivery: manager.huge_tree changed, other calls '
        'issued, replies dispatched in any order, a stray second message repeating an answered id, the caller writing rpc.huge_tree; rpc.reply '
        'views read in random order, once or twice. Expected flag of a call = Manager flag when the call was made or forced by the operation, '
        'then the caller\'s own writes before delivery. Both tiers: 11 MB text / depth-300 replies delivered after request() returned for every '
        'flag-forcing operation and for plain operations whose Manager flag changes before the reply comes. '
        'Repeats (round 7): 3-6 calls of the SAME operation with the same 1-2 reply texts on ONE Manager / ONE device handler (any mix of the three '
        'modes, now and then another operation in between), for every path on which a profile does something to the reply: Junos get-schema with <data> '
        'in the base namespace / in no namespace / in the monitoring namespace, get/get-config/rpc/vendor operations through the junos, alu and sros reply '
        'transforms, the flag-forcing operations, 11 MB / depth-300 replies 2-4 times in a row. Besides the per-call oracle: everything the caller sees '
        'of the k-th result (message-id normalised) equals what it saw of the first call with the same operation, reply text and settings. '
        'Woken threads (round 8): in every history the event an RPC object is created with makes the delivering thread, once it has set the event, '
        'stand still until the thread it woke (the caller blocked in the synchronous call; a thread waiting on rpc.event of an asynchronous call that '
        'reads the reply views at once) has finished - so the woken thread always runs before anything the delivery does after the wake-up; '
        'dedicated histories of 1-3 such calls for every profile x path on which something is done to the reply at delivery (reply class, '
        'per-call huge-tree flag incl. 11 MB / depth-300 replies, Junos get-schema repair); oracle unchanged.')
ASSUMES = ['libxml2 parsing, libxslt execution and libxml2 resource limits are oracles (the XSLT is modelled by hand as three templates)',
           'the remove_blank_text parsers drop only white-space-only text nodes (checked on every Junos case); which of them are dropped is libxml2 heuristics and is not modelled',
           'parse_root (iterparse, first start event) in Session._dispatch_message takes no huge_tree flag; it stops at the root start tag and is not counted as a full-document parse site']
TRUSTED = ['modelled, not verified: libxml2/libxslt/lxml; expat as the independent reader']

BASE = 'urn:ietf:params:xml:ns:netconf:base:1.0'
NCM = 'urn:ietf:params:xml:ns:yang:ietf-netconf-monitoring'
B = X.B
PROFILES = ['default', 'junos', 'alu', 'sros']
PCODE = {'default': 0, 'junos': 1, 'alu': 2, 'sros': 3}
CCODE = {'dispatch': 0, 'rpc': 0, 'get': 1, 'get_config': 1, 'get_schema': 2,
         'get_configuration': 0, 'get_configuration_text': 0, 'md_cli_raw_command': 0}
# operations documented to switch huge-tree support on for their own call, whatever the Manager's setting
FORCED_OPS = ('get_schema', 'get_configuration_text', 'md_cli_raw_command')
OUTCODE = {'parse-error': 0, 'hook-error': 1, 'raised': 2, 'reply': 3, 'elem': 4}
SIG_F16 = 'junos_attr_localname_collision'


# ------------------------------------------------------------------ expected views (independent of ncclient)
def name_is(t, ns, local): return t[0] == 0 and t[1] == [[B(ns)] if ns else [], B(local)]

def exp_has_errors(root):
    if any(name_is(k, BASE, 'ok') for k in root[3]): return 0
    n = 0; stack = list(root[3])
    while stack:
        x = stack.pop()
        if x[0] == 0:
            if name_is(x, BASE, 'rpc-error'): n += 1
            stack.extend(x[3])
    return n

def exp_first_child(root, ns, local):
    for k in root[3]:
        if name_is(k, ns, local): return k
    return None

def lead_text(d):
    ks = X.canon(d)[3]
    return ks[0][1] if ks and ks[0][0] == 1 else None

def elements(t, out=None):
    out = [] if out is None else out
    if t[0] == 0:
        out.append(t)
        for k in t[3]: elements(k, out)
    return out

def cmp_view(t): return X.canon(t, erase_ns=True, drop_blank=True)


# ------------------------------------------------------------------ one case on the implementation
class Res:
    def __init__(self): self.fails, self.mcalls, self.hist = [], [], {}
    def fail(self, what, expected=None, actual=None, sig=None): self.fails.append((what, expected, actual, sig))

def evaluate(case):
    r = Res()
    try: _evaluate(case, r)
    except Exception as ex:
        import traceback
        r.fail('harness/implementation raised %s: %s' % (type(ex).__name__, traceback.format_exc()[-500:]), actual=type(ex).__name__)
    return r

def build_reply(case, mid):
    if 'big' in case:
        kind, n = case['big']
        if kind == 'text': inner = '<big>' + 'x' * n + '</big>'
        else: inner = '<d>' * n + 'deep' + '</d>' * n
        errs = ''.join('<rpc-error><error-severity>error</error-severity><error-message>e%d</error-message></rpc-error>' % i for i in range(case.get('errors', 0)))
        dn = ('<data xmlns="%s">' % case.get('data_ns', NCM)) if case['op'] == 'get_schema' and case.get('data_ns', NCM) != BASE else '<data>'
        if kind == 'text' and case['op'] == 'get_schema': return '<rpc-reply xmlns="%s" message-id="%s">%s%s%s</data></rpc-reply>' % (BASE, mid, errs, dn, 'x' * n)
        return '<rpc-reply xmlns="%s" message-id="%s" xmlns:a="urn:a">%s%s<a:top k="v">%s</a:top></data></rpc-reply>' % (BASE, mid, errs, dn, inner)
    return case['reply'].replace('MSGID', mid)

def invoke(m, op):
    """one Manager call; -> (outcome, object)"""
    from ncclient.operations.rpc import RPCError
    from ncclient.xml_ import NCElement
    from lxml import etree
    try:
        if op == 'get': res = m.get()
        elif op == 'get_config': res = m.get_config(source='running')
        elif op == 'get_schema': res = m.get_schema('mod')
        elif op == 'dispatch': res = m.dispatch(etree.Element('{urn:x}op'))
        elif op == 'rpc': res = m.rpc(etree.Element('op'))
        elif op == 'get_configuration': res = m.get_configuration()
        elif op == 'get_configuration_text': res = m.get_configuration(format='text')
        elif op == 'md_cli_raw_command': res = m.md_cli_raw_command('show version')
        else: raise ValueError('unknown operation %r' % op)
        return ('elem' if isinstance(res, NCElement) else 'reply'), res
    except RPCError as ex: return 'raised', ex
    except etree.XMLSyntaxError as ex: return 'parse-error', ex
    except AttributeError as ex: return 'hook-error', ex

def relabel(sites):
    """sites of ONE call / ONE read out of a longer ParseSites log: the first _get_parser use is the reply parse (0), later ones re-parses (1)"""
    out, seen = [], False
    for s, f in sites:
        if s in (0, 1):
            out.append((1 if seen else 0, f)); seen = True
        else: out.append((s, f))
    return out

def _evaluate(case, r):
    if case.get('kind') == 'hist': return _evaluate_hist(case, r)
    from ncclient import operations
    prof, op, huge, rmode = case['profile'], case['op'], case['huge'], case.get('raise_mode', 0)
    sent = {}
    def script(req, mid):
        sent['raw'] = build_reply(case, mid); return [sent['raw']]
    m, s = F.make_manager(prof, script)
    m.huge_tree = huge
    m.raise_mode = [operations.RaiseMode.NONE, operations.RaiseMode.ERRORS, operations.RaiseMode.ALL][rmode]
    forced = op in FORCED_OPS
    with F.ParseSites() as ps:
        out, res = invoke(m, op)
    raw = sent.get('raw')
    if raw is None:
        r.fail('request was not sent'); return
    def mreq(rk, exp): return [5, PCODE[prof], CCODE[op], int(huge), int(forced), rk, exp]
    judge(r, case, prof, op, huge or forced, rmode, raw, out, res, list(ps.log), mreq)

def exp_schema_child(exp, prof):
    """the <data> child a get-schema reply's text is taken from: the first one in the monitoring namespace; Junos devices that
    send it in the base / no namespace: the reply's single child called data (devices/junos.py fix_get_schema_reply)"""
    d = exp_first_child(exp, NCM, 'data')
    if d is None and prof == 'junos':
        ds = [k for k in exp[3] if k[0] == 0 and k[1][1] == b'data']
        if len(ds) == 1 and ds[0][1][0] in ([B(BASE)], []) and name_is(exp, BASE, 'rpc-reply'):
            d = ds[0]
    return d

def judge(r, case, prof, op, flag, rmode, raw, out, res, sites, mreq, mode='sync', tag=''):
    """the property on ONE call: `out`/`res` what the caller got (sync: returned / raised; async: rpc.reply read later),
    `sites` the full-document parses done for it, `flag` whether huge-tree support is enabled for this call,
    mreq(rk, exp) the model call predicting outcome and sites."""
    big = 'big' in case
    exp = X.indep_read(raw)                      # the independent reader's view of what the server sent
    if case.get('expected') is not None:
        want = X.canon(msgid_sub(case['expected'], raw))
        if X.canon(exp) != want:
            r.fail(tag + 'harness self-check: independent reader disagrees with the generator', expected=want, actual=X.canon(exp))
    nerr = exp_has_errors(exp)
    rk = 0 if (rmode == 0 or nerr == 0 or mode == 'async') else (1 if nerr == 1 else 2)
    r.hist['outcome'] = out; r.hist['errors'] = min(nerr, 3)
    # ---- flag plumbing: every full-document parse site used the call's flag
    wrong = [(site, f) for site, f in sites if f != flag]
    if wrong:
        r.fail(tag + 'a parse site on the call path ignored the call\'s huge_tree flag (%r, call flag %r)' % (wrong, flag), expected=flag, actual=wrong)
    if out == 'parse-error':
        if flag:
            r.fail(tag + 'reply did not parse although huge_tree is enabled for the call: %s' % str(res)[:120], expected='parsed', actual='XMLSyntaxError')
        else:
            r.hist['limits'] = 'rejected without huge_tree'
            if not big: r.fail(tag + 'well-formed reply rejected: %s' % str(res)[:120], expected='parsed', actual='XMLSyntaxError')
        return
    if big: r.hist['limits'] = 'parsed with huge_tree' if flag else 'parsed without huge_tree'
    # ---- model: outcome, parse sites, returned tree / data view
    if not big:
        r.mcalls.append((mreq(rk, exp), [OUTCODE[out], [(site, int(f)) for site, f in sites]], tag + 'request: outcome and parse sites', 'outcome'))
    if out == 'raised':
        if rk == 0: r.fail(tag + 'RPCError raised although the reply carries no error or raise mode is NONE', expected='object', actual='RPCError')
        return
    if out == 'hook-error':
        if not (op == 'get_schema' and nerr == 0 and exp_schema_child(exp, prof) is None):
            r.fail(tag + 'AttributeError from the parsing hook', expected='object', actual=str(res)[:100])
        return
    if rk != 0:
        r.fail(tag + 'reply with errors returned although raise mode ALL', expected='RPCError', actual=out); return
    # ---- raw text
    if out == 'reply':
        if res.xml != raw: r.fail(tag + 'RPCReply.xml differs from the message the server sent', expected=raw[:300], actual=res.xml[:300])
        if mode == 'async':
            if bool(res.ok) != (nerr == 0) or len(res.errors) != nerr:
                r.fail(tag + 'RPCReply.ok / errors do not match the reply\'s <ok/> and <rpc-error> elements', expected=nerr, actual=[res.ok, len(res.errors)])
        cls = CCODE[op]
        if cls == 1:
            d_exp = exp_first_child(exp, BASE, 'data') if nerr == 0 else None
            de = res.data_ele
            got = X.canon(X.lx_resolved(de)) if de is not None else None
            want = X.canon(d_exp) if d_exp is not None else None
            if got != want: r.fail(tag + 'data_ele is not the reply\'s first <data> child', expected=want, actual=got)
            try: dx = X.canon(X.indep_read(res.data_xml))
            except TypeError: dx = None
            if dx != want: r.fail(tag + 'data_xml does not read back as the reply\'s <data> child', expected=want, actual=dx)
            r.hist['data'] = 'present' if want is not None else 'absent'
            if not big: r.mcalls.append(([3, 1, exp], [1, want] if want is not None else [0], tag + 'data_of (get)', lambda v: [1, X.canon(v[1])] if v[0] == 1 else v))
        elif cls == 2:
            d_exp = exp_schema_child(exp, prof) if nerr == 0 else None
            want = lead_text(d_exp) if d_exp is not None else None
            got = res.data
            got = B(got) if got is not None else None
            if got != want: r.fail(tag + 'GetSchemaReply.data is not the text of the <data> child', expected=want, actual=got)
            if not big and (nerr or exp_first_child(exp, NCM, 'data') is not None):
                r.mcalls.append(([3, 2, exp], [2, [want] if want is not None else []] if not nerr else [0], tag + 'data_of (get-schema)', None))
            if not big and mode == 'async':
                r.mcalls.append((mreq(rk, exp), [0] if nerr else [2, [got] if got is not None else []], tag + 'hook (get-schema, read later)', lambda v: v[2][0]))
        return
    # ---- NCElement: re-read what the caller gets with the independent reader
    try: got = X.indep_read(res.data_xml)
    except Exception as ex:
        r.fail(tag + 'NCElement.data_xml unreadable: %s' % ex, actual=type(ex).__name__); return
    coll = X.has_local_collision(exp)
    if prof == 'sros':
        if X.canon(got) != X.canon(exp): r.fail(tag + 'SR OS pass-through altered the reply', expected=X.canon(exp), actual=X.canon(got))
    else:
        if cmp_view(got) != cmp_view(exp):
            r.fail(tag + 'transformed reply differs from the server\'s reply beyond namespaces and blank text', expected=cmp_view(exp), actual=cmp_view(got),
                   sig=SIG_F16 if (prof == 'junos' and coll) else None)
    r.hist['collision'] = 'yes' if coll else 'no'
    # navigation on the returned object
    q = case.get('query')
    els = elements(X.canon(got))
    if q is not None and len(els) > 1:
        tgt = els[1 + q % (len(els) - 1)]
        path = './/' + (('{%s}%s' % (tgt[1][0][0].decode(), tgt[1][1].decode())) if tgt[1][0] else tgt[1][1].decode())
        first = next(e for e in els[1:] if e[1] == tgt[1])
        f = res.find(path)
        if f is None or X.canon(X.lx_resolved(f)) != first:
            r.fail(tag + 'NCElement.find(%r) is not the first such element of data_xml' % path, expected=first, actual=None if f is None else X.canon(X.lx_resolved(f)))
        n_all = sum(1 for e in els[1:] if e[1] == tgt[1])
        if len(res.findall(path)) != n_all: r.fail(tag + 'NCElement.findall count', expected=n_all, actual=len(res.findall(path)))
        ft = res.findtext(path)
        wt = (first[3][0][1].decode() if first[3] and first[3][0][0] == 1 else '')
        if ft != wt: r.fail(tag + 'NCElement.findtext', expected=wt, actual=ft)
        xp = res.xpath('//*')
        if len(xp) != len(els): r.fail(tag + 'NCElement.xpath(//*) count', expected=len(els), actual=len(xp))
    # model of the transform
    if not big:
        if prof == 'junos':
            r.mcalls.append(([1, exp], X.canon(got, drop_blank=True), tag + 'junos_xslt vs NCElement document (modulo blank text)', lambda v: X.canon(v, drop_blank=True)))
        elif prof == 'alu':
            r.mcalls.append(([2, exp], X.canon(got), tag + 'alu vs NCElement document', lambda v: X.canon(v)))


# ------------------------------------------------------------------ histories: several requests in flight on one Manager
# case = {'kind': 'hist', 'profile', 'huge0', 'calls': [{'op', 'mode', 'raise_mode', 'reply' | 'big', 'expected', 'query'}], 'steps': [...]}
#   mode: 'async' (request() returns the RPC object, the reply comes later), 'sync' (the session answers inside send()),
#         'syncthread' (the caller waits in request() while another thread delivers)
#   steps: ['mgr_huge', b] | ['call', k] | ['deliver', k] | ['stray', k, j] (a second message with call k's id, carrying call j's document)
#          | ['rpc_huge', k, b] (the caller writes rpc.huge_tree of the asynchronous object) | ['read', k, order]
#   the 'deliver'/'stray' steps that directly follow a synchronous call up to its own delivery happen while that call waits.
READS = ['xml', 'ok', 'data', 'errors']

def observe(out, res, op, mid):
    """everything the caller can see of one result, message-id normalised: the k-th answer to the same question must equal the first"""
    def n(x): return x.replace(mid, 'MSGID') if isinstance(x, str) and mid else x
    def view(f):
        try: return f()
        except Exception as ex: return 'raises ' + type(ex).__name__
    if out == 'reply':
        o = ['reply', type(res).__name__, n(res.xml), view(lambda: bool(res.ok)), view(lambda: [n(str(e.message)) for e in res.errors])]
        cls = CCODE[op]
        if cls == 1:
            o.append(view(lambda: None if res.data_ele is None else X.canon(X.lx_resolved(res.data_ele))))
            o.append(view(lambda: n(res.data_xml)))
        elif cls == 2: o.append(view(lambda: res.data))
        return o
    if out == 'elem': return ['elem', view(lambda: n(res.data_xml)), view(lambda: len(res.xpath('//*')))]
    if out == 'raised': return ['raised', type(res).__name__, n(str(res))]
    return [out, type(res).__name__]

def short(o):
    if isinstance(o, (str, bytes)): return o if len(o) <= 400 else o[:400] + type(o)(b'...' if isinstance(o, bytes) else '...')
    if isinstance(o, (list, tuple)): return [short(x) for x in o]
    return o

def _evaluate_hist(case, r):
    import threading
    from ncclient import operations
    from ncclient.operations.rpc import RPCReplyListener
    from ncclient.operations.errors import OperationError
    from lxml import etree
    prof, calls, steps = case['profile'], case['calls'], case['steps']
    st = [dict(mid=None, rpc=None, raw=None, flag=None, delivered=False, n_read=0) for _ in calls]
    plan = {'now': None, 'inline': [], 'sent': threading.Event()}
    events = [[1, 0]]                       # model events; the Manager starts synchronous
    tokens = []                             # raw documents by delivery number (the model only carries the number)
    def raw_of(k, j=None):
        sub = calls[k if j is None else j]
        return build_reply(sub, st[k]['mid'])
    def dispatch(step):
        k = step[1]
        raw = raw_of(k, step[2] if step[0] == 'stray' else None)
        tokens.append(raw); events.append([4, k + 1, B(str(len(tokens) - 1))])
        if step[0] == 'deliver' and not st[k]['delivered']:
            st[k]['raw'] = raw; st[k]['delivered'] = True
        try: s._dispatch_message(raw)
        except OperationError: pass           # an id that is not (any more) awaited: reported to the transport, nothing for the caller
    def script(req, mid):
        k = plan['now']; st[k]['mid'] = mid
        for step in plan['inline']: dispatch(step)
        plan['sent'].set()
        return []
    m, s = F.make_manager(prof, script)
    m.huge_tree = case['huge0']
    mgr_huge = case['huge0']
    RM = [operations.RaiseMode.NONE, operations.RaiseMode.ERRORS, operations.RaiseMode.ALL]
    results = {}
    firsts = {}                             # (operation, reply text, flag, raise mode, sync/async) -> [first such call, what its caller saw, count]
    def same_as_first(k, out, res, kind):
        # nothing a profile does to a reply (repair of the parsing hook, reply transform, per-call huge-tree support) depends on how
        # many replies this Manager / device handler has served before: equal questions, equal reply text => equal results
        c = calls[k]
        key = json.dumps([c['op'], c.get('reply'), c.get('big'), c.get('data_ns'), c.get('errors'), bool(st[k]['flag']),
                          c.get('raise_mode', 0) if kind == 'sync' else 0, kind])
        obs = observe(out, res, c['op'], st[k]['mid'])
        if key not in firsts:
            firsts[key] = [k, obs, 1]; return
        f = firsts[key]; f[2] += 1
        if obs != f[1]:
            r.fail('call %d (%s %s, repeat %d): the result differs from that of call %d - the same operation answered with the same reply text under '
                   'the same settings earlier on this Manager' % (k, c['mode'], c['op'], f[2], f[0]), expected=short(f[1]), actual=short(obs))
    # ---- the race between the delivering thread and the thread woken by the reply, made deterministic (round 8): the event an RPC object is
    # created with is an Event whose set() - called by ANOTHER thread while the harness knows a thread waiting on it - does not return before
    # that thread has finished with the reply.  Whatever the delivering thread does to the reply object AFTER waking the waiter thus comes too
    # late, every time; a delivery that wakes the waiter last loses nothing.  (module-level name rebound in the harness, no source hook)
    import ncclient.operations.rpc as rpc_mod
    race = {'worker': None, 'done': None, 'engaged': 0}
    class RaceEvent(threading.Event):
        def __init__(self_):
            threading.Event.__init__(self_); self_.maker = threading.current_thread(); self_.watchers = []
        def set(self_):
            threading.Event.set(self_)
            me = threading.current_thread()
            if race['worker'] is not None and self_.maker is race['worker'] and me is not race['worker']:
                race['engaged'] += 1; race['done'].wait(5)
            for th_, done_ in self_.watchers:
                if me is not th_:
                    race['engaged'] += 1; done_.wait(5)
    def do_read(ps, step, waited=False):
        k = step[1]; c = calls[k]; rpc = st[k]['rpc']
        if rpc is None or not (st[k]['delivered'] or waited): return
        reply = rpc.reply
        if reply is None:
            r.fail('call %d: no reply on the RPC object after %s' % (k, 'its event was set' if waited else 'delivery')); return
        n0 = len(ps.log)
        out, res = 'reply', reply
        try:
            for v in step[2]:
                name = READS[v % len(READS)]
                if name == 'data': name = {1: 'data_ele', 2: 'data'}.get(CCODE[c['op']], 'ok')
                getattr(reply, name)
            reply.parse()                                  # reading .xml alone does not parse
        except etree.XMLSyntaxError as ex: out, res = 'parse-error', ex
        except AttributeError as ex: out, res = 'hook-error', ex
        sites = relabel(ps.log[n0:])
        first_read = st[k]['n_read'] == 0; st[k]['n_read'] += 1
        flag = st[k]['flag']
        def mreq(rk, exp, c=c, flag=flag): return [10, PCODE[prof], CCODE[c['op']], int(flag), exp]
        jr = r if first_read else Res()
        judge(jr, c, prof, c['op'], flag, 0, st[k]['raw'], out, res, sites, mreq, mode='async',
              tag='call %d (async %s, read %d): ' % (k, c['op'], st[k]['n_read']))
        if jr is not r: r.fails.extend(jr.fails)
        if first_read: same_as_first(k, out, res, 'async')
        st[k]['seen'] = (type(reply).__name__, reply.xml, sites[0][1] if sites else st[k].get('seen', (0, 0, None))[2])
    def run_steps(ps):
        nonlocal mgr_huge
        i = 0
        while i < len(steps):
            step = steps[i]; i += 1
            kind = step[0]
            if kind == 'mgr_huge':
                m.huge_tree = mgr_huge = step[1]; events.append([0, int(step[1])])
            elif kind == 'call':
                k = step[1]; c = calls[k]; op, mode = c['op'], c['mode']
                forced = op in FORCED_OPS
                st[k]['flag'] = mgr_huge or forced
                st[k]['events_at'] = None
                m.async_mode = mode == 'async'
                m.raise_mode = RM[c.get('raise_mode', 0)]
                events.append([1, int(mode == 'async')])
                plan['now'] = k; plan['inline'] = []; plan['sent'].clear()
                if mode == 'async':
                    events.append([2, k + 1, CCODE[op], int(forced)])
                    out, res = invoke(m, op)
                    if not isinstance(res, operations.RPC):
                        r.fail('call %d: asynchronous request did not return the RPC object' % k, expected='RPC', actual=out); return
                    st[k]['rpc'] = res
                    if res.reply is not None or res.event.is_set():
                        r.fail('call %d: a reply is present before the server answered' % k, expected=None, actual=str(res.reply)[:100])
                    continue
                # synchronous: the deliveries up to its own happen while it waits
                j = i
                while j < len(steps) and steps[j][0] in ('deliver', 'stray') and not (steps[j][0] == 'deliver' and steps[j][1] == k): j += 1
                if j >= len(steps) or steps[j][0] not in ('deliver', 'stray'):
                    r.fail('harness: synchronous call %d is not followed by its delivery' % k); return
                during = steps[i:j + 1]; i = j + 1
                n0 = len(ps.log)
                events.append([2, k + 1, CCODE[op], int(forced)])
                if mode == 'sync':
                    plan['inline'] = during
                    out, res = invoke(m, op)
                else:
                    box = {}; done = threading.Event(); e0 = race['engaged']
                    def worker(done=done):
                        try: box['r'] = invoke(m, op)
                        except BaseException as ex: box['x'] = ex
                        finally: done.set()
                    th = threading.Thread(target=worker); race['worker'], race['done'] = th, done; th.start()
                    try:
                        if not plan['sent'].wait(10):
                            r.fail('call %d: request was not sent' % k); return
                        for d in during: dispatch(d)        # the caller is woken in here and runs to its end before the delivery returns
                        th.join(20)
                    finally: race['worker'] = None
                    if th.is_alive():
                        r.fail('call %d: the waiting caller did not return after its reply was delivered' % k); return
                    if race['engaged'] == e0:
                        r.fail('harness: call %d: the event of the waiting RPC object was not seen being set by the delivering thread' % k); return
                    if 'x' in box: raise box['x']
                    out, res = box['r']
                sites = relabel(ps.log[n0:])
                evs = [list(e) for e in events]
                def mreq(rk, exp, evs=evs, k=k): return [11, int(case['huge0']), 0, evs, k + 1, PCODE[prof], rk, exp]
                results[k] = (out, res)
                judge(r, c, prof, op, st[k]['flag'], c.get('raise_mode', 0), st[k]['raw'], out, res, sites, mreq, mode=mode, tag='call %d (%s %s): ' % (k, mode, op))
                same_as_first(k, out, res, 'sync')
            elif kind in ('deliver', 'stray'):
                k = step[1]
                if st[k]['mid'] is None:
                    r.fail('harness: delivery for call %d before the call' % k); return
                first = kind == 'deliver' and not st[k]['delivered']
                rpc = st[k]['rpc']
                nxt = steps[i] if i < len(steps) else None
                if first and rpc is not None and calls[k].get('waiter') and nxt and nxt[0] == 'read' and nxt[1] == k:
                    # a thread of the caller waits on rpc.event and reads the reply as soon as it is woken (the read step that follows)
                    wbox = {}; wdone = threading.Event(); e0 = race['engaged']
                    def watcher(rpc=rpc, nxt=nxt, wdone=wdone, wbox=wbox, k=k):
                        try:
                            if rpc.event.wait(10): do_read(ps, nxt, waited=True)
                            else: r.fail('call %d: the thread waiting on rpc.event was not woken by the delivery' % k)
                        except BaseException as ex: wbox['x'] = ex
                        finally: wdone.set()
                    wt = threading.Thread(target=watcher)
                    if isinstance(rpc.event, RaceEvent): rpc.event.watchers.append((wt, wdone))
                    st[k]['watched'] = i
                    wt.start(); dispatch(step); wt.join(20)
                    if wt.is_alive():
                        r.fail('call %d: the thread waiting on rpc.event did not finish' % k); return
                    if 'x' in wbox: raise wbox['x']
                    if race['engaged'] == e0:
                        r.fail('harness: call %d: the event of the RPC object was not seen being set by the delivering thread' % k); return
                    r.hist['woken thread reads the reply'] = 'async'
                else:
                    dispatch(step)
                if first and rpc is not None and (rpc.reply is None or not rpc.event.is_set()):
                    r.fail('call %d: the reply was dispatched but did not reach the RPC object' % k, expected='reply', actual=None)
            elif kind == 'rpc_huge':
                k = step[1]
                if st[k]['rpc'] is None: continue
                st[k]['rpc'].huge_tree = step[2]; events.append([3, k + 1, int(step[2])])
                if not st[k]['delivered']: st[k]['flag'] = step[2]
            elif kind == 'read':
                if st[step[1]].get('watched') == i - 1: continue          # done by the thread that waited on rpc.event
                do_read(ps, step)
            else:
                r.fail('harness: unknown step %r' % (step,)); return
        return 'ok'
    real_event = getattr(rpc_mod, 'Event', None)
    if real_event is not None: rpc_mod.Event = RaceEvent
    try:
        with F.ParseSites() as ps:
            if run_steps(ps) != 'ok': return
    finally:
        if real_event is not None: rpc_mod.Event = real_event
    # ---- the whole history against the model: per call class, flag, registration, the reply object (class, text, flag it was parsed with)
    lst = s.get_listener_instance(RPCReplyListener)
    table = getattr(lst, '_id2rpc', None)
    impl, mask = [], []
    CLSNAME = {'RPCReply': 0, 'GetReply': 1, 'GetSchemaReply': 2}
    tokidx = {}
    for n, raw in enumerate(tokens): tokidx.setdefault(raw, n)
    order = [e[1] - 1 for e in events if e[0] == 2]
    for k in order:
        c = calls[k]; rpc = st[k]['rpc']
        if rpc is None:
            impl.append([k + 1, None, None, None, None, None])                  # synchronous: the caller never holds the RPC object
            continue
        rep = None
        if rpc.reply is not None:
            seen = st[k].get('seen')
            rep = [[CLSNAME.get(type(rpc.reply).__name__, 9), rpc.reply.xml, None if not seen or seen[2] is None else int(seen[2])]]
        impl.append([k + 1, CLSNAME.get(rpc.REPLY_CLS.__name__, 9), int(bool(rpc.huge_tree)), int(bool(rpc.is_async)),
                     None if table is None else int(rpc.id in table), [] if rep is None else rep])
    def post(v, impl=impl, tokens=tokens):
        out = []
        for mv, iv in zip(v, impl):
            mv = list(mv)
            if len(mv) == 6 and mv[5]:
                cls_, tok, fl = mv[5][0]
                mv[5] = [[cls_, tokens[int(tok.decode())], fl]]
            # fields the caller cannot observe are taken from the model
            for x in range(min(len(mv), len(iv))):
                if iv[x] is None: iv[x] = mv[x]
            if len(mv) == 6 and mv[5] and iv[5] and iv[5][0][2] is None: iv[5][0][2] = mv[5][0][2]
            out.append(mv)
        return out
    if True:
        r.mcalls.append(([9, int(case['huge0']), 0, events], impl, 'history: RPC objects and their replies at the end', post))
    r.hist['hist calls'] = len(order)
    r.hist['same call repeated on one Manager'] = max([f[2] for f in firsts.values()] or [0])
    r.hist['deliveries that woke a waiting thread (which ran to its end before the delivery returned)'] = min(race['engaged'], 4)
    r.hist['hist modes'] = '+'.join(sorted(set(c['mode'] for c in calls)))


def gen_hist(rng, g, prof, ncalls=None, pick=None, modes=None, raise_modes=None, waiters=0):
    ncalls = ncalls or rng.choice([1, 2, 2, 3, 3, 4])
    calls, steps = [], []
    issued, pending, unread, asyncs, answered = 0, [], [], [], []
    def new_call():
        if pick is not None: op, reply, exp = pick()
        else:
            op = rng.choice(OPS[prof])
            try: reply, exp = gen_reply(rng, g, op)
            except Exception: reply, exp = R('<data/>'), None
        c = {'op': op, 'mode': rng.choice(modes or ['async', 'async', 'async', 'sync', 'syncthread']), 'raise_mode': rng.choice(raise_modes or [0, 0, 2]),
             'reply': reply, 'expected': exp, 'query': rng.randint(0, 50)}
        if waiters and c['mode'] == 'async' and rng.random() < waiters: c['waiter'] = True
        calls.append(c); return len(calls) - 1
    def deliver(k):
        pending.remove(k); steps.append(['deliver', k]); unread.append(k); answered.append(k)
    while issued < ncalls or pending or unread:
        acts = []                                               # applicable actions, weighted
        if issued < ncalls: acts.append(('call', 5.0))
        if pending: acts.append(('deliver', 4.0))
        if unread: acts.append(('read', 4.0))
        if issued < ncalls or pending: acts.append(('mgr_huge', 1.5))
        if [k for k in asyncs if k in pending or k in unread]: acts.append(('rpc_huge', 0.7))
        if answered: acts.append(('stray', 0.5))
        x = rng.random() * sum(w for _, w in acts)
        for act, w in acts:
            x -= w
            if x < 0: break
        if act == 'mgr_huge': steps.append(['mgr_huge', rng.random() < 0.5])
        elif act == 'call':
            k = new_call(); issued += 1
            steps.append(['call', k])
            if calls[k]['mode'] == 'async':
                pending.append(k); asyncs.append(k)
            else:
                for p in [p for p in list(pending) if rng.random() < 0.5]: deliver(p)
                if answered and rng.random() < 0.1: steps.append(['stray', rng.choice(answered), k])
                steps.append(['deliver', k]); answered.append(k)
        elif act == 'deliver':
            k = rng.choice(pending); deliver(k)
            if calls[k].get('waiter'): steps.append(['read', k, [rng.randrange(4) for _ in range(rng.randint(1, 3))]])
        elif act == 'rpc_huge': steps.append(['rpc_huge', rng.choice([k for k in asyncs if k in pending or k in unread]), rng.random() < 0.5])
        elif act == 'stray': steps.append(['stray', rng.choice(answered), rng.randrange(len(calls))])
        elif act == 'read':
            k = rng.choice(unread)
            steps.append(['read', k, [rng.randrange(4) for _ in range(rng.randint(1, 3))]])
            if rng.random() < 0.85: unread.remove(k)
    return {'kind': 'hist', 'profile': prof, 'huge0': rng.random() < 0.3, 'calls': calls, 'steps': steps}

def hist_cases(rng, tier):
    n = 250 if tier == 'quick' else 2500
    g = X.DocGen(rng, max_depth=3, max_kids=3, same_local_attrs=0.04)
    return [gen_hist(rng, g, prof) for _ in range(n) for prof in PROFILES]

# repeats (round 7): the SAME operation several times on ONE Manager / ONE device handler, for every path on which the profile does something to
# the reply: the Junos get-schema repair (<data> in the base namespace / in no namespace), the reply transforms (junos XSLT, alu, sros), the
# operations that enable huge-tree support for their own call.  (operation, namespace of the get-schema <data>)
REPEAT_PATHS = {
    'default': [('get_schema', NCM), ('get', None), ('get_config', None), ('dispatch', None)],
    'junos': [('get_schema', BASE), ('get_schema', ''), ('get_schema', NCM), ('get', None), ('get_config', None), ('rpc', None),
              ('get_configuration', None), ('get_configuration_text', None)],
    'alu': [('get_schema', NCM), ('get', None), ('get_config', None), ('dispatch', None)],
    'sros': [('get_schema', NCM), ('get', None), ('get_config', None), ('dispatch', None), ('md_cli_raw_command', None)],
}

def gen_repeat_hist(rng, g, prof, path):
    op, ns = path
    def doc(o, ns_=None):
        for _ in range(5):
            try: return (o,) + gen_reply(rng, g, o, schema_ns=ns_)
            except Exception: continue
        return (o, R('<data/>'), None)
    docs = [doc(op, ns) for _ in range(rng.choice([1, 1, 2]))]
    def pick():
        if rng.random() < 0.12: return doc(rng.choice(OPS[prof]))           # something else in between
        return rng.choice(docs)
    modes = rng.choice([None, None, ['async'], ['sync'], ['syncthread'], ['sync', 'syncthread']])
    rms = rng.choice([None, [0], [0], [2]])
    return gen_hist(rng, g, prof, ncalls=rng.choice([3, 3, 4, 5, 6]), pick=pick, modes=modes, raise_modes=rms)

def repeat_hist_cases(rng, tier):
    n = 10 if tier == 'quick' else 100
    g = X.DocGen(rng, max_depth=3, max_kids=3, same_local_attrs=0.04)
    return [gen_repeat_hist(rng, g, prof, path) for _ in range(n) for prof in PROFILES for path in REPEAT_PATHS[prof]]

# woken threads (round 8): every path on which something is done to the reply object at delivery (its class, the call's huge-tree flag, the
# profile's repair of the parsing hook), with a thread of the caller woken by the delivery: blocked in the synchronous call while another
# thread delivers, or waiting on rpc.event of an asynchronous call and reading the reply at once
def race_hist_cases(rng, tier):
    n = 2 if tier == 'quick' else 20
    g = X.DocGen(rng, max_depth=3, max_kids=3, same_local_attrs=0.04)
    out = []
    for _ in range(n):
        for prof in PROFILES:
            for op, ns in REPEAT_PATHS[prof]:
                def pick(op=op, ns=ns):
                    for _ in range(5):
                        try: return (op,) + gen_reply(rng, g, op, schema_ns=ns)
                        except Exception: continue
                    return (op, R('<data/>'), None)
                out.append(gen_hist(rng, g, prof, ncalls=rng.choice([1, 2, 3]), pick=pick, modes=['syncthread', 'async'], waiters=1.0))
    return out

def big_hist_cases(tier):
    """replies at libxml2's limits delivered after request() returned / while the caller waits: every operation that enables huge-tree
    support by itself, and plain operations under a Manager setting that changes before the reply comes"""
    out = []
    T = ['text', 11 * 1024 * 1024]; D = ['depth', 300]
    def h(prof, huge0, op, mode, big, pre=(), mid=(), extra=None):
        calls = [{'op': op, 'mode': mode, 'raise_mode': 0, 'big': big}]
        steps = [list(x) for x in pre] + [['call', 0]] + [list(x) for x in mid] + [['deliver', 0]]
        if extra:
            calls.append({'op': extra, 'mode': 'async', 'raise_mode': 0, 'reply': R('<data/>'), 'query': 0})
            steps = steps[:-1] + [['call', 1], ['deliver', 1]] + steps[-1:]
        if mode == 'async': steps.append(['read', 0, [2, 0]])
        if extra: steps.append(['read', 1, [0]])
        return {'kind': 'hist', 'profile': prof, 'huge0': huge0, 'calls': calls, 'steps': steps}
    forced = [(p, 'get_schema') for p in PROFILES] + [('junos', 'get_configuration_text'), ('sros', 'md_cli_raw_command')]
    for prof, op in forced:
        out.append(h(prof, False, op, 'async', T))
        if tier == 'thorough' or prof in ('default', 'junos'):
            out.append(h(prof, False, op, 'syncthread', T))
            out.append(h(prof, False, op, 'async', D, extra='get'))
    for prof in (PROFILES if tier == 'thorough' else ['default', 'alu']):
        out.append(h(prof, True, 'get', 'async', T, mid=[['mgr_huge', False]]))                  # enabled when the call was made
        out.append(h(prof, False, 'get', 'async', T, pre=[['mgr_huge', True]], mid=[['mgr_huge', False]], extra='get_schema'))
        out.append(h(prof, False, 'get', 'async', D, mid=[['mgr_huge', True]]))                 # not enabled for this call: libxml2 may refuse
        out.append(h(prof, False, 'get_config', 'async', T, mid=[['rpc_huge', 0, True]]))        # the caller enables it on the object
    # the same reply at libxml2's limits several times on one Manager: huge-tree support forced by the operation / enabled on the Manager,
    # and the Junos get-schema repair, serve every call and not only the first
    def again(prof, huge0, op, modes, big, **kw):
        calls = [dict({'op': op, 'mode': md, 'raise_mode': 0, 'big': big}, **kw) for md in modes]
        steps = []
        for k, md in enumerate(modes): steps += [['call', k], ['deliver', k]] + ([['read', k, [2, 0]]] if md == 'async' else [])
        return {'kind': 'hist', 'profile': prof, 'huge0': huge0, 'calls': calls, 'steps': steps}
    out.append(again('junos', False, 'get_schema', ['sync', 'async', 'sync'], T, data_ns=BASE))
    out.append(again('junos', False, 'get_schema', ['async', 'async', 'syncthread'], T, data_ns=''))
    out.append(again('junos', False, 'get_configuration_text', ['sync', 'sync'], T))
    out.append(again('sros', False, 'md_cli_raw_command', ['sync', 'async'], T))
    out.append(again('default', False, 'get_schema', ['sync', 'sync', 'async'], T))
    out.append(again('junos', True, 'get', ['sync', 'sync', 'sync'], D))
    out.append(again('alu', True, 'get', ['sync', 'sync'], T))
    # a thread waiting on rpc.event reads the reply the moment it is woken: the call's huge-tree support and the Junos repair are in place by then
    out.append(again('junos', False, 'get_schema', ['async'], T, data_ns=BASE, waiter=True))
    out.append(again('sros', False, 'md_cli_raw_command', ['async', 'syncthread'], D, waiter=True))
    if tier == 'thorough':
        for prof, op in forced:
            for big in (T, D): out.append(again(prof, False, op, ['async', 'async'], big, waiter=True))
        for prof, op in forced:
            for big in (T, D): out.append(again(prof, False, op, ['sync', 'async', 'syncthread', 'sync'], big))
        for prof in PROFILES:
            for big in (T, D): out.append(again(prof, True, OPS[prof][3], ['sync', 'async', 'sync'], big))
        out.append(again('junos', False, 'get_schema', ['sync', 'sync', 'sync'], D, data_ns=BASE))
    return out


def msgid_sub(t, raw):
    m = re.search(r'message-id=["\'](urn:uuid:[0-9a-f-]+)["\']', raw)
    mid = B(m.group(1)) if m else b'MSGID'
    def go(x):
        if x[0] != 0: return x
        return [0, x[1], [[a[0], mid if a[1] == b'MSGID' else a[1]] for a in x[2]], [go(k) for k in x[3]]]
    return go(t)


# ------------------------------------------------------------------ generator
def scope_of(sd):
    sc = {}
    for p, u in sd['decls']: sc[p] = u
    return sc

def gen_reply(rng, g, op, schema_ns=None):
    sd, exp = g.element(None, 1, local='rpc-reply', force_ns=BASE)
    sd['attrs'] = [a for a in sd['attrs'] if a[1] != 'message-id']
    exp[2] = [a for a in exp[2] if not (a[0] == [[], b'message-id'])]
    pos = rng.randint(0, len(sd['attrs']))
    sd['attrs'].insert(pos, (None, 'message-id', 'MSGID')); exp[2].insert(pos, [[[], b'message-id'], b'MSGID'])
    sc = scope_of(sd)
    def insert(child):
        csd, cx = child
        # position between nodes, never splitting the pairing of sdoc kids and expected kids
        i = rng.randint(0, len(sd['kids']))
        sd['kids'].insert(i, csd); exp[3].insert(i, cx)
    r = rng.random()
    if op == 'get_schema':
        variants = [NCM] * 14 + [BASE, '']
        ns = rng.choice(variants) if schema_ns is None else schema_ns
        dsd, dx = g.element(sc, g.max_depth, local='data', force_ns=ns)   # leaf: no element children
        body = rng.choice(['module m { }', 'module <m> & "q" {\n\tleaf x;\r\n}', X.gen_text(rng, 8, 0.05), ''])
        if body:
            dsd['kids'] = [{'k': 't', 's': body, 'cdata': ']]>' not in body and '\r' not in body and rng.random() < 0.3}]; dx[3] = [[1, B(body)]]
            if rng.random() < 0.15:
                dsd['kids'].append({'k': 'c', 's': 'c'}); dx[3].append([2, b'c'])
                dsd['kids'].append({'k': 't', 's': 'tail', 'cdata': False}); dx[3].append([1, b'tail'])
        if rng.random() < 0.96: insert((dsd, dx))
    else:
        if r < 0.85:
            if rng.random() < 0.2: insert(g.element(sc, 2, local='data', force_ns=rng.choice(['urn:u', ''])))   # decoy
            insert(g.element(sc, 1, local='data', force_ns=BASE))
            if rng.random() < 0.1: insert(g.element(sc, 2, local='data', force_ns=BASE))
    if rng.random() < 0.08: insert(g.element(sc, g.max_depth, local='ok', force_ns=BASE))
    if rng.random() < 0.2:
        for _ in range(rng.choice([1, 1, 2, 3])):
            nested = rng.random() < 0.4                      # found by './/rpc-error'
            host = sc
            if nested:
                wsd, wx = g.element(sc, g.max_depth, local='wrap')
                host = {**sc, **scope_of(wsd)}
            esd, ex = g.element(host, g.max_depth, local='rpc-error', force_ns=BASE)
            msd, mx = g.element({**host, **scope_of(esd)}, g.max_depth, local='error-message', force_ns=BASE)
            msd['kids'] = [{'k': 't', 's': 'boom %d' % rng.randint(0, 999), 'cdata': False}]; mx[3] = [[1, B(msd['kids'][0]['s'])]]
            esd['kids'] = [msd]; ex[3] = [mx]
            if nested:
                wsd['kids'] = [esd]; wx[3] = [ex]; insert((wsd, wx))
            else:
                insert((esd, ex))
    pro = rng.choice(['', '', '<?xml version="1.0" encoding="UTF-8"?>', '<?xml version="1.0" encoding="UTF-8"?>\n', '<!--hello-->'])
    return pro + X.serialise(sd, rng) + rng.choice(['', '', '\n']), exp

OPS = {'default': ['get', 'get_config', 'get_schema', 'dispatch'], 'junos': ['get', 'get_config', 'get_schema', 'rpc', 'get_configuration', 'get_configuration_text'],
       'alu': ['get', 'get_config', 'get_schema', 'dispatch'], 'sros': ['get', 'get_config', 'get_schema', 'dispatch', 'md_cli_raw_command']}

def cases_for(rng, tier):
    n = 1000 if tier == "quick" else 5000
    g = X.DocGen(rng, max_depth=4, max_kids=3, same_local_attrs=0.04)
    out = []
    for i in range(n):
        for prof in PROFILES:
            ops = OPS[prof]
            for op in ([ops[i % 2], ops[2 + i % (len(ops) - 2)]] if tier == 'quick' else ops):
                try:
                    reply, exp = gen_reply(rng, g, op)
                except Exception:
                    continue
                out.append({'profile': prof, 'op': op, 'huge': rng.random() < 0.3, 'raise_mode': rng.choice([0, 0, 2]),
                            'reply': reply, 'expected': exp, 'query': rng.randint(0, 50)})
    return out

def big_cases():
    out = []
    for prof in PROFILES:
        for huge in (False, True):
            for kind, n in (('text', 11 * 1024 * 1024), ('depth', 300)):
                for op in ('get', OPS[prof][3], 'get_schema') + tuple(o for o in OPS[prof] if o in FORCED_OPS and o != 'get_schema'):
                    out.append({'profile': prof, 'op': op, 'huge': huge, 'raise_mode': 2, 'big': [kind, n]})
            out.append({'profile': prof, 'op': 'get', 'huge': huge, 'raise_mode': 2, 'big': ['text', 11 * 1024 * 1024], 'errors': 2})
            out.append({'profile': prof, 'op': 'get', 'huge': huge, 'raise_mode': 2, 'big': ['depth', 300], 'errors': 2})
    return out

R = lambda body, attrs='': '<rpc-reply xmlns="%s" message-id="MSGID"%s>%s</rpc-reply>' % (BASE, attrs, body)
PINNED = [
    {'profile': 'junos', 'op': 'get', 'huge': False, 'reply': R('<data xmlns:a="urn:a" xmlns:b="urn:b" a:x="1" b:x="2"/>'), 'query': 0},       # F16
    {'profile': 'alu', 'op': 'get', 'huge': False, 'reply': R('<data><?pi x?><a xmlns="urn:u" p:k="v" xmlns:p="urn:p"/> </data>'), 'query': 0},
    {'profile': 'default', 'op': 'get', 'huge': False, 'reply': R('<x:data xmlns:x="urn:u"/><data>first</data>trailing<data>second</data>'), 'query': 0},
    {'profile': 'default', 'op': 'get', 'huge': True, 'raise_mode': 2, 'reply': R('<rpc-error><error-message>a</error-message></rpc-error><rpc-error><error-message>b</error-message></rpc-error><data/>'), 'query': 0},
    {'profile': 'default', 'op': 'get', 'huge': False, 'reply': R('<ok/><rpc-error><error-message>a</error-message></rpc-error><data>kept</data>'), 'query': 0},
    {'profile': 'default', 'op': 'get_schema', 'huge': False, 'reply': R('<data xmlns="%s">module &lt;m&gt; {\r\n}<!--c-->rest</data>' % NCM), 'query': 0},
    {'profile': 'sros', 'op': 'get_config', 'huge': False, 'reply': R('<data> <a xmlns="urn:u">\t<b/>x</a><!--c--></data>'), 'query': 1},
    {'profile': 'junos', 'op': 'rpc', 'huge': True, 'reply': R('<a:out xmlns:a="urn:a" a:k="v"> <a:line>1</a:line>\n<a:line> </a:line>mixed<!--c--><?pi d?></a:out>'), 'query': 1},
]

def H(prof, huge0, calls, steps): return {'kind': 'hist', 'profile': prof, 'huge0': huge0, 'calls': calls, 'steps': steps}
def C(op, mode, body, rm=0): return {'op': op, 'mode': mode, 'raise_mode': rm, 'reply': R(body), 'query': 0}
SCH = '<data xmlns="%s">module m { }</data>' % NCM
PINNED_HIST = [
    # replies in the reverse order of the requests, the Manager's flag changed in between
    H('default', False, [C('get_schema', 'async', SCH), C('get', 'async', '<data><a xmlns="urn:a"/></data>')],
      [['call', 0], ['mgr_huge', True], ['call', 1], ['mgr_huge', False], ['deliver', 1], ['deliver', 0], ['read', 0, [2]], ['read', 1, [0, 2]]]),
    # a synchronous call answered after an older asynchronous one, by another thread
    H('junos', True, [C('get_configuration_text', 'async', '<configuration-text xmlns="urn:j">x</configuration-text>'), C('get', 'syncthread', '<data><b/></data>')],
      [['call', 0], ['mgr_huge', False], ['call', 1], ['deliver', 0], ['deliver', 1], ['read', 0, [1]]]),
    # Junos device answering get-schema in the base namespace, read after request() returned
    H('junos', False, [C('get_schema', 'async', '<data>module j { }</data>')], [['call', 0], ['deliver', 0], ['read', 0, [2]], ['read', 0, [0, 2]]]),
    # a second message repeating an answered id does not replace the reply
    H('sros', False, [C('md_cli_raw_command', 'async', '<results xmlns="urn:s">one</results>'), C('get', 'async', '<data>two</data>')],
      [['call', 0], ['call', 1], ['deliver', 0], ['stray', 0, 1], ['deliver', 1], ['read', 0, [0, 1]], ['read', 1, [2]]]),
    # the same question several times on one Manager / one device handler (round 7): Junos get-schema answered in the base namespace and in
    # no namespace (the profile's repair serves every reply), replies through each profile's transform
    H('junos', False, [C('get_schema', 'sync', '<data>module j { }</data>')] * 3, [['call', 0], ['deliver', 0], ['call', 1], ['deliver', 1], ['call', 2], ['deliver', 2]]),
    H('junos', False, [C('get_schema', 'async', '<data xmlns="">module &lt;j&gt; { }</data>'), C('get', 'sync', '<data><a xmlns="urn:a" k="v">t</a></data>'),
                       C('get_schema', 'async', '<data xmlns="">module &lt;j&gt; { }</data>'), C('get', 'sync', '<data><a xmlns="urn:a" k="v">t</a></data>'),
                       C('get_schema', 'syncthread', '<data xmlns="">module &lt;j&gt; { }</data>')],
      [['call', 0], ['call', 1], ['deliver', 1], ['deliver', 0], ['read', 0, [2]], ['call', 2], ['deliver', 2], ['read', 2, [2, 0]], ['call', 3], ['deliver', 3], ['call', 4], ['deliver', 4]]),
    H('alu', False, [C('get', 'sync', '<data xmlns:p="urn:p"><p:a p:k="v"><b xmlns="urn:b"/>x</p:a></data>')] * 3, [['call', 0], ['deliver', 0], ['call', 1], ['deliver', 1], ['call', 2], ['deliver', 2]]),
    H('sros', True, [C('md_cli_raw_command', 'sync', '<results xmlns="urn:s"><l>1</l> </results>')] * 3, [['call', 0], ['deliver', 0], ['call', 1], ['deliver', 1], ['call', 2], ['deliver', 2]]),
    # threads woken by the delivery (round 8): the caller blocked in get_schema / a thread waiting on rpc.event finds the reply complete
    H('junos', False, [C('get_schema', 'syncthread', '<data>module j { }</data>')], [['call', 0], ['deliver', 0]]),
    H('junos', False, [dict(C('get_schema', 'async', '<data xmlns="">module j { }</data>'), waiter=True), dict(C('get', 'async', '<data><a xmlns="urn:a"/></data>'), waiter=True)],
      [['call', 0], ['call', 1], ['deliver', 1], ['read', 1, [2, 0]], ['deliver', 0], ['read', 0, [2]]]),
    # the caller switches huge-tree support on the asynchronous object itself
    H('alu', False, [C('get_config', 'async', '<data><c/></data>')], [['call', 0], ['rpc_huge', 0, True], ['deliver', 0], ['rpc_huge', 0, False], ['read', 0, [2]]]),
]

def nontrivial(case):
    if case.get('kind') == 'hist': return any(nontrivial(c) for c in case['calls'])
    return 'big' in case or case['reply'].count('<') >= 5

def jsonable(c):
    c = dict(c); c.pop('expected', None)
    if 'calls' in c: c['calls'] = [jsonable(x) for x in c['calls']]
    return c

def brief(jc):
    if 'calls' in jc: return dict(jc, calls=[brief(c) for c in jc['calls']])
    return {k: (v if k != 'reply' else v[:300]) for k, v in jc.items()}

def run(ctx):
    sys.setrecursionlimit(20000)
    cases = []
    cdir = os.path.join(os.path.dirname(os.path.dirname(os.path.dirname(os.path.abspath(__file__)))), 'corpus', 'C10')
    if os.path.isdir(cdir):
        for f in sorted(os.listdir(cdir)):
            if f.endswith('.json'): cases.append(json.load(open(os.path.join(cdir, f)))['case'])
    cases += [dict(c) for c in PINNED]
    cases += [json.loads(json.dumps(c)) for c in PINNED_HIST]
    cases += cases_for(ctx.rng, ctx.tier)
    cases += hist_cases(ctx.rng, ctx.tier)
    cases += repeat_hist_cases(ctx.rng, ctx.tier)
    cases += big_hist_cases(ctx.tier)
    cases += race_hist_cases(ctx.rng, ctx.tier)
    if ctx.tier == 'thorough': cases += big_cases()
    pending = []
    for case in cases:
        r = evaluate(case)
        jc = jsonable(case)
        ctx.count(jc, nontrivial=nontrivial(case))
        ctx.hist('profile', case['profile'])
        if case.get('kind') == 'hist':
            ctx.hist('kind', 'history')
            for c in case['calls']:
                ctx.hist('op', c['op']); ctx.hist('mode', c['mode'] + (' + thread waiting on rpc.event' if c.get('waiter') and c['mode'] == 'async' else ''))
                if 'big' in c: ctx.hist('big', '%s %s %s' % (c['big'][0], c['mode'], c['op']))
            for st in case['steps']: ctx.hist('step', st[0])
        else:
            ctx.hist('kind', 'single call'); ctx.hist('mode', 'sync')
            ctx.hist('op', case['op']); ctx.hist('huge_tree', case['huge'])
            if 'big' in case: ctx.hist('big', '%s huge=%s' % (case['big'][0], case['huge']))
        for k, v in r.hist.items(): ctx.hist(k, v)
        if ctx.evaluations % 401 == 1: ctx.sample({'case': brief(jc), 'oracle_failures': len(r.fails)})
        for what, exp, act, sig in r.fails: ctx.fail(jc, what, sig=sig, expected=exp, actual=act)
        for call, impl, what, post in r.mcalls: pending.append((jc, call, impl, what, post))
    if ctx.model and pending:
        outs = ctx.model.batch([p[1] for p in pending])
        for (jc, call, impl, what, post), mo in zip(pending, outs):
            if isinstance(mo, str):
                ctx.disagree(jc, mo, impl, 'model runner error: ' + what); continue
            if post == 'outcome':
                if call[0] == 11: mo = mo[0] if mo else [None, []]
                mo = [mo[0], [tuple(x) for x in mo[1]]]; impl = [impl[0], list(impl[1])]
            elif post is not None: mo = post(mo)
            if mo != impl: ctx.disagree(jc, mo, impl, what, theorem='C10_*')
        ctx.extra['model_calls'] = len(pending)


def search(ctx, seeds):
    import random
    rng = random.Random(ctx.seed + 1)
    tries = list(seeds) + [json.loads(json.dumps(c)) for c in PINNED_HIST] + big_hist_cases('quick') + race_hist_cases(rng, 'quick') + repeat_hist_cases(rng, 'quick') + hist_cases(rng, 'quick') + [jsonable(c) for c in cases_for(rng, 'quick')]
    from vlib import findings
    for case in tries:
        r = evaluate(case)
        for what, exp, act, sig in r.fails:
            if not findings.covered(ID, sig):
                return dict(case=jsonable(case), what=what, expected=exp, actual=act, sig=sig)
    return None

def reproduce(finding):
    return any(sig == finding.get('sig') for _, _, _, sig in evaluate(finding['witness']).fails)

def replay(doc):
    c = doc['case']
    r = evaluate(c)
    print('case     :', json.dumps(brief(c), ensure_ascii=False)[:6000])
    for what, exp, act, sig in r.fails:
        print('failure  :', what, '(sig %s)' % sig if sig else ''); print('expected :', repr(exp)[:1500]); print('actual   :', repr(act)[:1500])
    if not r.fails: print('property holds on this case now')
    return not r.fails
