"""C10 — reply content reaches the caller unaltered (operations/rpc.py, retrieve.py, xml_.py NCElement,
devices/junos.py XSLT, alu.py, sros.py).  Model: coq/Model/ReplyView.v, NsStrip.v; theorems: coq/Props/C10.v."""
import json, os, re, sys
from harness import xmlgen as X
from harness import fakesession as F

ID = 'C10'
COQ_ROOTS = ['Props/C10.v', 'GenProps/Reply_consts.v', 'GenProps/XmlHelpers_consts.v']
RULE = ('Generated <rpc-reply> documents (random binding of the base namespace, extra attributes incl. two attributes with one '
        'local name, nested namespaced content, Unicode text, CDATA, comments, PIs, mixed content, decoy and duplicate <data> '
        'children, <ok/>, 0-3 <rpc-error>) serialised by the harness and delivered through a fake Session to real '
        'Manager.get/get_config/get_schema/dispatch/rpc calls under default/junos/alu/sros, huge_tree on/off, raise mode '
        'NONE/ALL. A case = (profile, operation, flags, reply document); non-trivial = the reply has >= 3 elements. '
        'Thorough adds 11 MB text nodes and 300-deep trees with huge_tree on/off.')
ASSUMES = ['libxml2 parsing, libxslt execution and libxml2 resource limits are oracles (the XSLT is modelled by hand as three templates)',
           'the remove_blank_text parsers drop only white-space-only text nodes (checked on every Junos case); which of them are dropped is libxml2 heuristics and is not modelled',
           'parse_root (iterparse, first start event) in Session._dispatch_message takes no huge_tree flag; it stops at the root start tag and is not counted as a full-document parse site']
TRUSTED = ['modelled, not verified: libxml2/libxslt/lxml; expat as the independent reader']

BASE = 'urn:ietf:params:xml:ns:netconf:base:1.0'
NCM = 'urn:ietf:params:xml:ns:yang:ietf-netconf-monitoring'
B = X.B
PROFILES = ['default', 'junos', 'alu', 'sros']
PCODE = {'default': 0, 'junos': 1, 'alu': 2, 'sros': 3}
CCODE = {'dispatch': 0, 'rpc': 0, 'get': 1, 'get_config': 1, 'get_schema': 2}
SIG_F16 = 'junos_attr_localname_collision'


# ------------------------------------------------------------------ expected views (independent of ncclient)
def name_is(t, ns, local): return t[0] == 0 and t[1] == [[B(ns)] if ns else [], B(local)]

def exp_has_errors(root):
    if any(name_is(k, BASE, 'ok') for k in root[3]): return 0
    n = 0; stack = list(root[3])
    while stack:
        x = stack.pop()
        if x[0] == 0:
            if name_is(x, BASE, 'rpc-error'): n += 1
            stack.extend(x[3])
    return n

def exp_first_child(root, ns, local):
    for k in root[3]:
        if name_is(k, ns, local): return k
    return None

def lead_text(d):
    ks = X.canon(d)[3]
    return ks[0][1] if ks and ks[0][0] == 1 else None

def elements(t, out=None):
    out = [] if out is None else out
    if t[0] == 0:
        out.append(t)
        for k in t[3]: elements(k, out)
    return out

def cmp_view(t): return X.canon(t, erase_ns=True, drop_blank=True)


# ------------------------------------------------------------------ one case on the implementation
class Res:
    def __init__(self): self.fails, self.mcalls, self.hist = [], [], {}
    def fail(self, what, expected=None, actual=None, sig=None): self.fails.append((what, expected, actual, sig))

def evaluate(case):
    r = Res()
    try: _evaluate(case, r)
    except Exception as ex:
        import traceback
        r.fail('harness/implementation raised %s: %s' % (type(ex).__name__, traceback.format_exc()[-500:]), actual=type(ex).__name__)
    return r

def build_reply(case, mid):
    if 'big' in case:
        kind, n = case['big']
        if kind == 'text': inner = '<big>' + 'x' * n + '</big>'
        else: inner = '<d>' * n + 'deep' + '</d>' * n
        errs = ''.join('<rpc-error><error-severity>error</error-severity><error-message>e%d</error-message></rpc-error>' % i for i in range(case.get('errors', 0)))
        dn = ('<data xmlns="%s">' % NCM) if case['op'] == 'get_schema' else '<data>'
        if kind == 'text' and case['op'] == 'get_schema': return '<rpc-reply xmlns="%s" message-id="%s">%s%s%s</data></rpc-reply>' % (BASE, mid, errs, dn, 'x' * n)
        return '<rpc-reply xmlns="%s" message-id="%s" xmlns:a="urn:a">%s%s<a:top k="v">%s</a:top></data></rpc-reply>' % (BASE, mid, errs, dn, inner)
    return case['reply'].replace('MSGID', mid)

def _evaluate(case, r):
    from ncclient import xml_, operations
    from ncclient.operations.rpc import RPCReply, RPCError
    from ncclient.xml_ import NCElement
    from lxml import etree
    prof, op, huge, rmode = case['profile'], case['op'], case['huge'], case.get('raise_mode', 0)
    sent = {}
    def script(req, mid):
        sent['raw'] = build_reply(case, mid); return [sent['raw']]
    m, s = F.make_manager(prof, script)
    m.huge_tree = huge
    m.raise_mode = [operations.RaiseMode.NONE, operations.RaiseMode.ERRORS, operations.RaiseMode.ALL][rmode]
    forced = op == 'get_schema'
    flag = huge or forced
    with F.ParseSites() as ps:
        try:
            if op == 'get': res = m.get()
            elif op == 'get_config': res = m.get_config(source='running')
            elif op == 'get_schema': res = m.get_schema('mod')
            elif op == 'dispatch': res = m.dispatch(etree.Element('{urn:x}op'))
            elif op == 'rpc': res = m.rpc(etree.Element('op'))
            out = 'elem' if isinstance(res, NCElement) else 'reply'
        except RPCError as ex: res, out = ex, 'raised'
        except etree.XMLSyntaxError as ex: res, out = ex, 'parse-error'
        except AttributeError as ex: res, out = ex, 'hook-error'
    raw = sent.get('raw')
    if raw is None:
        r.fail('request was not sent'); return
    big = 'big' in case
    exp = X.indep_read(raw)                      # the independent reader's view of what the server sent
    if case.get('expected') is not None:
        want = X.canon(msgid_sub(case['expected'], raw))
        if X.canon(exp) != want:
            r.fail('harness self-check: independent reader disagrees with the generator', expected=want, actual=X.canon(exp))
    nerr = exp_has_errors(exp)
    rk = 0 if (rmode == 0 or nerr == 0) else (1 if nerr == 1 else 2)
    r.hist['outcome'] = out; r.hist['errors'] = min(nerr, 3)
    # ---- flag plumbing: every full-document parse site used the call's flag
    wrong = [(site, f) for site, f in ps.log if f != flag]
    if wrong:
        r.fail('a parse site on the call path ignored the call\'s huge_tree flag (%r, call flag %r)' % (wrong, flag), expected=flag, actual=wrong)
    if out == 'parse-error':
        if flag:
            r.fail('reply did not parse although huge_tree is enabled for the call: %s' % str(res)[:120], expected='parsed', actual='XMLSyntaxError')
        else:
            r.hist['limits'] = 'rejected without huge_tree'
            if not big: r.fail('well-formed reply rejected: %s' % str(res)[:120], expected='parsed', actual='XMLSyntaxError')
        return
    if big: r.hist['limits'] = 'parsed with huge_tree' if flag else 'parsed without huge_tree'
    # ---- model: outcome, parse sites, returned tree / data view
    if not big:
        def post(v):
            return [v[0], [tuple(x) for x in v[1]]]
        r.mcalls.append(([5, PCODE[prof], CCODE[op], int(huge), int(forced), rk, exp], [{'parse-error': 0, 'hook-error': 1, 'raised': 2, 'reply': 3, 'elem': 4}[out],
                         [(site, int(f)) for site, f in ps.log]], 'request: outcome and parse sites', post))
    if out == 'raised':
        if rk == 0: r.fail('RPCError raised although the reply carries no error or raise mode is NONE', expected='object', actual='RPCError')
        return
    if out == 'hook-error':
        if not (op == 'get_schema' and nerr == 0 and exp_first_child(exp, NCM, 'data') is None):
            r.fail('AttributeError from the parsing hook', expected='object', actual=str(res)[:100])
        return
    if rk != 0:
        r.fail('reply with errors returned although raise mode ALL', expected='RPCError', actual=out); return
    reply = res if out == 'reply' else None
    # ---- raw text
    if out == 'reply':
        if res.xml != raw: r.fail('RPCReply.xml differs from the message the server sent', expected=raw[:300], actual=res.xml[:300])
        cls = CCODE[op]
        if cls == 1:
            d_exp = exp_first_child(exp, BASE, 'data') if nerr == 0 else None
            de = res.data_ele
            got = X.canon(X.lx_resolved(de)) if de is not None else None
            want = X.canon(d_exp) if d_exp is not None else None
            if got != want: r.fail('data_ele is not the reply\'s first <data> child', expected=want, actual=got)
            try: dx = X.canon(X.indep_read(res.data_xml))
            except TypeError: dx = None
            if dx != want: r.fail('data_xml does not read back as the reply\'s <data> child', expected=want, actual=dx)
            r.hist['data'] = 'present' if want is not None else 'absent'
            if not big: r.mcalls.append(([3, 1, exp], [1, want] if want is not None else [0], 'data_of (get)', lambda v: [1, X.canon(v[1])] if v[0] == 1 else v))
        elif cls == 2:
            d_exp = exp_first_child(exp, NCM, 'data') if nerr == 0 else None
            want = lead_text(d_exp) if d_exp is not None else None
            got = res.data
            got = B(got) if got is not None else None
            if got != want: r.fail('GetSchemaReply.data is not the text of the <data> child', expected=want, actual=got)
            if not big and (nerr or d_exp is not None):
                r.mcalls.append(([3, 2, exp], [2, [want] if want is not None else []] if not nerr else [0], 'data_of (get-schema)', None))
        return
    # ---- NCElement: re-read what the caller gets with the independent reader
    try: got = X.indep_read(res.data_xml)
    except Exception as ex:
        r.fail('NCElement.data_xml unreadable: %s' % ex, actual=type(ex).__name__); return
    coll = X.has_local_collision(exp)
    if prof == 'sros':
        if X.canon(got) != X.canon(exp): r.fail('SR OS pass-through altered the reply', expected=X.canon(exp), actual=X.canon(got))
    else:
        if cmp_view(got) != cmp_view(exp):
            r.fail('transformed reply differs from the server\'s reply beyond namespaces and blank text', expected=cmp_view(exp), actual=cmp_view(got),
                   sig=SIG_F16 if (prof == 'junos' and coll) else None)
    r.hist['collision'] = 'yes' if coll else 'no'
    # navigation on the returned object
    q = case.get('query')
    els = elements(X.canon(got))
    if q is not None and len(els) > 1:
        tgt = els[1 + q % (len(els) - 1)]
        path = './/' + (('{%s}%s' % (tgt[1][0][0].decode(), tgt[1][1].decode())) if tgt[1][0] else tgt[1][1].decode())
        first = next(e for e in els[1:] if e[1] == tgt[1])
        f = res.find(path)
        if f is None or X.canon(X.lx_resolved(f)) != first:
            r.fail('NCElement.find(%r) is not the first such element of data_xml' % path, expected=first, actual=None if f is None else X.canon(X.lx_resolved(f)))
        n_all = sum(1 for e in els[1:] if e[1] == tgt[1])
        if len(res.findall(path)) != n_all: r.fail('NCElement.findall count', expected=n_all, actual=len(res.findall(path)))
        ft = res.findtext(path)
        wt = (first[3][0][1].decode() if first[3] and first[3][0][0] == 1 else '')
        if ft != wt: r.fail('NCElement.findtext', expected=wt, actual=ft)
        xp = res.xpath('//*')
        if len(xp) != len(els): r.fail('NCElement.xpath(//*) count', expected=len(els), actual=len(xp))
    # model of the transform
    if not big:
        if prof == 'junos':
            r.mcalls.append(([1, exp], X.canon(got, drop_blank=True), 'junos_xslt vs NCElement document (modulo blank text)', lambda v: X.canon(v, drop_blank=True)))
        elif prof == 'alu':
            r.mcalls.append(([2, exp], X.canon(got), 'alu vs NCElement document', lambda v: X.canon(v)))


def msgid_sub(t, raw):
    m = re.search(r'message-id=["\'](urn:uuid:[0-9a-f-]+)["\']', raw)
    mid = B(m.group(1)) if m else b'MSGID'
    def go(x):
        if x[0] != 0: return x
        return [0, x[1], [[a[0], mid if a[1] == b'MSGID' else a[1]] for a in x[2]], [go(k) for k in x[3]]]
    return go(t)


# ------------------------------------------------------------------ generator
def scope_of(sd):
    sc = {}
    for p, u in sd['decls']: sc[p] = u
    return sc

def gen_reply(rng, g, op):
    sd, exp = g.element(None, 1, local='rpc-reply', force_ns=BASE)
    sd['attrs'] = [a for a in sd['attrs'] if a[1] != 'message-id']
    exp[2] = [a for a in exp[2] if not (a[0] == [[], b'message-id'])]
    pos = rng.randint(0, len(sd['attrs']))
    sd['attrs'].insert(pos, (None, 'message-id', 'MSGID')); exp[2].insert(pos, [[[], b'message-id'], b'MSGID'])
    sc = scope_of(sd)
    def insert(child):
        csd, cx = child
        # position between nodes, never splitting the pairing of sdoc kids and expected kids
        i = rng.randint(0, len(sd['kids']))
        sd['kids'].insert(i, csd); exp[3].insert(i, cx)
    r = rng.random()
    if op == 'get_schema':
        variants = [NCM] * 14 + [BASE, '']
        ns = rng.choice(variants)
        dsd, dx = g.element(sc, g.max_depth, local='data', force_ns=ns)   # leaf: no element children
        body = rng.choice(['module m { }', 'module <m> & "q" {\n\tleaf x;\r\n}', X.gen_text(rng, 8, 0.05), ''])
        if body:
            dsd['kids'] = [{'k': 't', 's': body, 'cdata': ']]>' not in body and '\r' not in body and rng.random() < 0.3}]; dx[3] = [[1, B(body)]]
            if rng.random() < 0.15:
                dsd['kids'].append({'k': 'c', 's': 'c'}); dx[3].append([2, b'c'])
                dsd['kids'].append({'k': 't', 's': 'tail', 'cdata': False}); dx[3].append([1, b'tail'])
        if rng.random() < 0.96: insert((dsd, dx))
    else:
        if r < 0.85:
            if rng.random() < 0.2: insert(g.element(sc, 2, local='data', force_ns=rng.choice(['urn:u', ''])))   # decoy
            insert(g.element(sc, 1, local='data', force_ns=BASE))
            if rng.random() < 0.1: insert(g.element(sc, 2, local='data', force_ns=BASE))
    if rng.random() < 0.08: insert(g.element(sc, g.max_depth, local='ok', force_ns=BASE))
    if rng.random() < 0.2:
        for _ in range(rng.choice([1, 1, 2, 3])):
            nested = rng.random() < 0.4                      # found by './/rpc-error'
            host = sc
            if nested:
                wsd, wx = g.element(sc, g.max_depth, local='wrap')
                host = {**sc, **scope_of(wsd)}
            esd, ex = g.element(host, g.max_depth, local='rpc-error', force_ns=BASE)
            msd, mx = g.element({**host, **scope_of(esd)}, g.max_depth, local='error-message', force_ns=BASE)
            msd['kids'] = [{'k': 't', 's': 'boom %d' % rng.randint(0, 999), 'cdata': False}]; mx[3] = [[1, B(msd['kids'][0]['s'])]]
            esd['kids'] = [msd]; ex[3] = [mx]
            if nested:
                wsd['kids'] = [esd]; wx[3] = [ex]; insert((wsd, wx))
            else:
                insert((esd, ex))
    pro = rng.choice(['', '', '<?xml version="1.0" encoding="UTF-8"?>', '<?xml version="1.0" encoding="UTF-8"?>\n', '<!--hello-->'])
    return pro + X.serialise(sd, rng) + rng.choice(['', '', '\n']), exp

OPS = {'default': ['get', 'get_config', 'get_schema', 'dispatch'], 'junos': ['get', 'get_config', 'get_schema', 'rpc'],
       'alu': ['get', 'get_config', 'get_schema', 'dispatch'], 'sros': ['get', 'get_config', 'get_schema', 'dispatch']}

def cases_for(rng, tier):
    n = 1000 if tier == "quick" else 5000
    g = X.DocGen(rng, max_depth=4, max_kids=3, same_local_attrs=0.04)
    out = []
    for i in range(n):
        for prof in PROFILES:
            ops = OPS[prof]
            for op in ([ops[i % 2], ops[2 + i % 2]] if tier == 'quick' else ops):
                try:
                    reply, exp = gen_reply(rng, g, op)
                except Exception:
                    continue
                out.append({'profile': prof, 'op': op, 'huge': rng.random() < 0.3, 'raise_mode': rng.choice([0, 0, 2]),
                            'reply': reply, 'expected': exp, 'query': rng.randint(0, 50)})
    return out

def big_cases():
    out = []
    for prof in PROFILES:
        for huge in (False, True):
            for kind, n in (('text', 11 * 1024 * 1024), ('depth', 300)):
                for op in ('get', OPS[prof][3], 'get_schema'):
                    out.append({'profile': prof, 'op': op, 'huge': huge, 'raise_mode': 2, 'big': [kind, n]})
            out.append({'profile': prof, 'op': 'get', 'huge': huge, 'raise_mode': 2, 'big': ['text', 11 * 1024 * 1024], 'errors': 2})
            out.append({'profile': prof, 'op': 'get', 'huge': huge, 'raise_mode': 2, 'big': ['depth', 300], 'errors': 2})
    return out

R = lambda body, attrs='': '<rpc-reply xmlns="%s" message-id="MSGID"%s>%s</rpc-reply>' % (BASE, attrs, body)
PINNED = [
    {'profile': 'junos', 'op': 'get', 'huge': False, 'reply': R('<data xmlns:a="urn:a" xmlns:b="urn:b" a:x="1" b:x="2"/>'), 'query': 0},       # F16
    {'profile': 'alu', 'op': 'get', 'huge': False, 'reply': R('<data><?pi x?><a xmlns="urn:u" p:k="v" xmlns:p="urn:p"/> </data>'), 'query': 0},
    {'profile': 'default', 'op': 'get', 'huge': False, 'reply': R('<x:data xmlns:x="urn:u"/><data>first</data>trailing<data>second</data>'), 'query': 0},
    {'profile': 'default', 'op': 'get', 'huge': True, 'raise_mode': 2, 'reply': R('<rpc-error><error-message>a</error-message></rpc-error><rpc-error><error-message>b</error-message></rpc-error><data/>'), 'query': 0},
    {'profile': 'default', 'op': 'get', 'huge': False, 'reply': R('<ok/><rpc-error><error-message>a</error-message></rpc-error><data>kept</data>'), 'query': 0},
    {'profile': 'default', 'op': 'get_schema', 'huge': False, 'reply': R('<data xmlns="%s">module &lt;m&gt; {\r\n}<!--c-->rest</data>' % NCM), 'query': 0},
    {'profile': 'sros', 'op': 'get_config', 'huge': False, 'reply': R('<data> <a xmlns="urn:u">\t<b/>x</a><!--c--></data>'), 'query': 1},
    {'profile': 'junos', 'op': 'rpc', 'huge': True, 'reply': R('<a:out xmlns:a="urn:a" a:k="v"> <a:line>1</a:line>\n<a:line> </a:line>mixed<!--c--><?pi d?></a:out>'), 'query': 1},
]

def nontrivial(case):
    return 'big' in case or case['reply'].count('<') >= 5

def jsonable(c):
    c = dict(c); c.pop('expected', None); return c

def run(ctx):
    sys.setrecursionlimit(20000)
    cases = []
    cdir = os.path.join(os.path.dirname(os.path.dirname(os.path.dirname(os.path.abspath(__file__)))), 'corpus', 'C10')
    if os.path.isdir(cdir):
        for f in sorted(os.listdir(cdir)):
            if f.endswith('.json'): cases.append(json.load(open(os.path.join(cdir, f)))['case'])
    cases += [dict(c) for c in PINNED]
    cases += cases_for(ctx.rng, ctx.tier)
    if ctx.tier == 'thorough': cases += big_cases()
    pending = []
    for case in cases:
        r = evaluate(case)
        jc = jsonable(case)
        ctx.count(jc, nontrivial=nontrivial(case))
        ctx.hist('profile', case['profile']); ctx.hist('op', case['op']); ctx.hist('huge_tree', case['huge'])
        if 'big' in case: ctx.hist('big', '%s huge=%s' % (case['big'][0], case['huge']))
        for k, v in r.hist.items(): ctx.hist(k, v)
        if ctx.evaluations % 401 == 1: ctx.sample({'case': {k: (v if k != 'reply' else v[:300]) for k, v in jc.items()}, 'oracle_failures': len(r.fails)})
        for what, exp, act, sig in r.fails: ctx.fail(jc, what, sig=sig, expected=exp, actual=act)
        for call, impl, what, post in r.mcalls: pending.append((jc, call, impl, what, post))
    if ctx.model and pending:
        outs = ctx.model.batch([p[1] for p in pending])
        for (jc, call, impl, what, post), mo in zip(pending, outs):
            if isinstance(mo, str):
                ctx.disagree(jc, mo, impl, 'model runner error: ' + what); continue
            if call[0] == 5: mo = [mo[0], [tuple(x) for x in mo[1]]]; impl = [impl[0], list(impl[1])]
            elif post is not None: mo = post(mo)
            if mo != impl: ctx.disagree(jc, mo, impl, what, theorem='C10_*')
        ctx.extra['model_calls'] = len(pending)


def search(ctx, seeds):
    import random
    tries = list(seeds) + [jsonable(c) for c in cases_for(random.Random(ctx.seed + 1), 'quick')]
    from vlib import findings
    for case in tries:
        r = evaluate(case)
        for what, exp, act, sig in r.fails:
            if not findings.covered(ID, sig):
                return dict(case=jsonable(case), what=what, expected=exp, actual=act, sig=sig)
    return None

def reproduce(finding):
    return any(sig == finding.get('sig') for _, _, _, sig in evaluate(finding['witness']).fails)

def replay(doc):
    c = doc['case']
    r = evaluate(c)
    print('case     :', json.dumps({k: (v if k != 'reply' else v[:1500]) for k, v in c.items()}, ensure_ascii=False))
    for what, exp, act, sig in r.fails:
        print('failure  :', what, '(sig %s)' % sig if sig else ''); print('expected :', repr(exp)[:1500]); print('actual   :', repr(act)[:1500])
    if not r.fails: print('property holds on this case now')
    return not r.fails
