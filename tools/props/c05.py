"""C05 — hello exchange and framing-version negotiation
(ncclient/transport/session.py _post_connect / HelloHandler / send branch, devices/*.py get_capabilities).
Model: coq/Model/Negotiate.v; theorems: coq/Props/C05.v."""
import re, threading, time
import xml.etree.ElementTree as ET
ID = 'C05'
COQ_ROOTS = ['Props/C05.v', 'GenProps/Caps_consts.v', 'GenProps/Negotiate_consts.v', 'GenProps/Writer_consts.v', 'GenProps/HelloWait_consts.v']
RULE = ('A case is (profile of the 14, user capabilities, server capability list from a grammar: base 1.0/1.1 present/absent in '
        'either URN form, with parameters/extra segments, look-alikes, padding, duplicates; qualified or unqualified server hello; '
        'session-id; order of "server hello processed" vs "client hello written" forced through the _send_ready oracle: '
        'client_first, server_first, server_first_blocked (not writable until _post_connect returned), poll k; hello cut at an offset; '
        'fault: none, no hello, other message, EOF, write refused, capability without text). The real _post_connect runs over an '
        'in-memory transport with the real worker thread. distinct = distinct case; non-trivial = the server sends a hello or a fault is injected. '
        'Scheduled cases (kind sched): the real _post_connect (thread M), the real worker (W) and a scripted server run under the deterministic '
        'scheduler of tools/harness/sched.py with a schedule point at every access to _listeners, _hello_pending, _q, _base, init_event, _id, '
        '_server_capabilities, connected, select/read/write/close; a case is (scenario, decision list): server script (hello whole / cut at a '
        'position class / two hellos / other message / not XML / garbage / EOF / read error / nothing), readiness gate (always, k polls, after the '
        'dispatch, after the return), write faults, eager deadlines; small scenarios are enumerated depth-first with a pre-emption bound, the '
        'others run under seeded random schedules. Every effect trace is validated against NegotiateSched.fstep. '
        'Deadline cases (kind deadline): the real manager.connect_ssh / connect / connect_tls / connect_uds against an in-process peer behind the '
        'real transport (SSH: subsystem granted; TLS: handshake done; Unix: accepted) that stays silent, drips a hello too slowly, or sends it '
        'inside the timeout; every entry point x every way of stating the timeout (keyword, positional, manager_params only, both, neither, '
        'timeout=None, ssh_config ConnectTimeout, ssh_config and keyword) x timeout below 1.3 s (judged on the wall clock) or 90-400 s (judged '
        'on the argument of the hello wait, which is then cut short); the deadline is compared with HelloWait.hello_wait. '
        'Real-transport hello cases (kind realhello): the real manager.connect_ssh / connect_tls / connect_uds, or the transport API '
        '(session = cls(device_handler); add/remove history on session.client_capabilities; session.connect; Manager), against an in-process '
        'peer that sends a well-formed server <hello> of an exact size (record-size edges 4096/8192/12288/16384 +- a few octets, 400-16384, '
        '16-64 kB; hundreds of YANG module capabilities) in one send (over TLS one record up to 16384 octets) or cut at generated offsets '
        '(also inside the delimiter), then records the octets of the client hello and of one or two requests; histories: remove base:1.1, '
        'remove then add again, add the other URN form, remove both forms, remove base:1.0, unrelated add/remove, random; nc_params additions. '
        'Judged: connect succeeds, session id and ALL server capabilities are reported, the hello on the wire lists what the manager reports '
        'and what the history left, later frames chunked iff the hello ON THE WIRE and the server hello advertise base:1.1; the frames are '
        'compared with Negotiate.run on the client list sent. What follows the server hello (round 4): 0-3 white-space octets after its '
        'delimiter (LF, CRLF, blanks, tabs; in the same send as the delimiter or in a send of their own 1-20 ms later) x 1.0-only / 1.1 servers '
        'x SSH/TLS/Unix; the peer answers every completely received request in the negotiated framing (chunked replies in 1-5 chunks, one cut '
        'inside a character; end-of-message replies followed by the same white space); the client registers a SessionListener and sends request '
        'k+1 after reply k. Judged: every reply is delivered once, after its request, with its message-id and text; no error reaches the '
        'listeners; the session stays connected.')
ASSUMES = ['the transport delivers the server octets in order; threading.Event.wait(timeout) returns no later than the deadline plus scheduling latency',
           'a profile is one of the 14 modules of ncclient/devices; nc_params capabilities are strings']
TRUSTED = ['tools/harness/hello_real.py: scripted peer behind the real SSH/TLS/Unix transports (servers of hello_deadline.py); OpenSSL puts one '
           'sendall() of at most 16384 octets into one TLS record',
           'tools/harness/hello_deadline.py: scripted SSH/TLS/Unix peers; the name Event of ncclient.transport.session is rebound to a recording subclass '
           'that cuts waits above 2 s short (the deadline is then read off the argument of wait)',
           'modelled, not verified: lxml parsing/serialisation of the hello documents (trees are compared through an independent reader)',
           'tools/harness/fakesession.py in-memory transport and selector shim',
           'tools/harness/sched.py, neg_sched.py, neg_check.py (scheduler, logging fields, effect log -> label mapping); CPython executes the code '
           'between two instrumented points atomically with respect to the other managed threads']

BASE_NS = 'urn:ietf:params:xml:ns:netconf:base:1.0'
PROFILES = ['alu', 'ciena', 'csr', 'default', 'ericsson', 'h3c', 'hpcomware', 'huawei', 'huaweiyang', 'iosxe', 'iosxr', 'junos', 'nexus', 'sros']
PKIND = {'alu': 1, 'huawei': 2, 'huaweiyang': 3, 'nexus': 4, 'sros': 5}
B10, B11 = 'urn:ietf:params:netconf:base:1.0', 'urn:ietf:params:netconf:base:1.1'
B10X, B11X = 'urn:ietf:params:xml:ns:netconf:base:1.0', 'urn:ietf:params:xml:ns:netconf:base:1.1'
PAD = ['urn:ietf:params:netconf:capability:candidate:1.0', 'urn:ietf:params:netconf:capability:with-defaults:1.0?basic-mode=explicit',
       'http://example.com/yang?module=x&revision=2020-01-01', 'urn:ietf:params:netconf:capability:base:1.0', 'urn:x:base:1.1',
       'urn:ietf:params:netconf:base:1.10', 'urn:ietf:params:netconf:base:1', 'urn:ietf:params:netconf:base', 'urn:ietf:params:netconf:base:1.1x']
V11 = [B11, B11X, B11 + '?x=y', B11 + ':extra', B11X + '?a=b']
V10 = [B10, B10X]
LATER = ['<rpc message-id="1"><get/></rpc>', '<rpc message-id="2">naïve</rpc>']

# ---------- the property's own notion of "advertised base:1.1" (independent of capabilities.py) ----------
PA = ['urn', 'ietf', 'params', 'netconf']
PB = ['urn', 'ietf', 'params', 'xml', 'ns', 'netconf']
def advertises_base(uri, version):
    segs = uri.split('?')[0].split(':')
    for p in (PA, PB):
        if segs[:len(p)] == p and segs[len(p):len(p) + 2] == ['base', version]:
            return True
    return False
def has11(caps):
    return any(advertises_base(u, '1.1') for u in caps)
def has_base(caps):
    return any(advertises_base(u, v) for u in caps for v in ('1.0', '1.1'))
def dedup(l):
    out = []
    for x in l:
        if x not in out: out.append(x)
    return out

def esc(s):
    return s.replace('&', '&amp;').replace('<', '&lt;').replace('>', '&gt;')

def server_hello_xml(case):
    q = case.get('qualified', True)
    caps = ''.join('<capability>%s</capability>' % esc(u) if u is not None else '<capability/>' for u in case['server_caps'])
    sid = '' if case.get('sid') is None else '<session-id>%s</session-id>' % case['sid']
    return '<hello%s><capabilities>%s</capabilities>%s</hello>' % (' xmlns="%s"' % BASE_NS if q else '', caps, sid)

# ---------- implementation ----------
def run_impl(case, bound=3.0):
    from harness import fakesession_wire as fs
    from ncclient import manager
    from ncclient.transport.errors import SessionError, SessionCloseError, TransportError
    dparams = {'name': case['profile']}
    if case.get('sros_private'): dparams['config_mode'] = 'private'
    dh = manager.make_device_handler(dparams)
    dh.add_additional_netconf_params({'capabilities': list(case.get('extra', []))})
    s = fs.make_session(device_handler=dh)
    t = s.t
    fault = case.get('fault')
    hello = (server_hello_xml(case) + ']]>]]>').encode()
    if fault == 'other_message': hello = ('<rpc-reply xmlns="%s" message-id="1"><ok/></rpc-reply>]]>]]>' % BASE_NS).encode()
    if fault == 'foreign_hello': hello = b'<hello xmlns="urn:other"><capabilities><capability>' + B11.encode() + b'</capability></capabilities><session-id>1</session-id></hello>]]>]]>'
    cut = case.get('cut')
    segs = [hello] if cut is None else [hello[:cut % (len(hello) + 1)], hello[cut % (len(hello) + 1):]]
    fed = [False]
    def feed_hello():
        if fed[0]: return
        fed[0] = True
        if fault == 'no_hello': return
        if fault == 'eof': t.feed_eof(); return
        for sg in segs: t.feed(sg)
        if fault == 'eof_after_hello': t.feed_eof()
    order = case['order']
    returned = threading.Event()
    gate_open = [order != 'server_first_blocked']
    t.readys.extend(bool(r) for r in case.get('readys', []))
    polls = [0]
    real_ready = t.send_ready
    def send_ready():
        polls[0] += 1
        if order == 'poll' and polls[0] > case.get('k', 0): feed_hello()
        if not gate_open[0]:
            t.ready_log.append(False); t.events.append(('ready', False)); return False
        return real_ready()
    t.send_ready = send_ready
    def on_write(tt):
        if order in ('client_first', 'poll') and b']]>]]>' in tt.wire: feed_hello()
    t.on_write = on_write
    if fault == 'write_refused': t.answers.append(('ret', 0))
    if order in ('server_first', 'server_first_blocked'): feed_hello()
    timeout = case.get('timeout', 2.0)
    t0 = time.monotonic()
    try:
        s._post_connect(timeout)
        result = 'ok'
    except SessionCloseError: result = 'SessionCloseError'
    except SessionError: result = 'SessionError'
    except TransportError as e: result = 'TransportError'
    except Exception as e: result = type(e).__name__
    elapsed = time.monotonic() - t0
    wire_at_return = len(t.wire)
    if result == 'ok': gate_open[0] = True
    later = []
    if result == 'ok':
        for m in LATER:
            try: s.send(m); later.append(m)
            except Exception as e: later.append('refused:' + type(e).__name__)
        # wait for hello + later frames
        want = 1 + len([m for m in later if not m.startswith('refused:')])
        t1 = time.monotonic()
        def nframes():
            return sum(1 for d, a in t.writes if a[0] == 'accept' and (a[1] is None or a[1] >= len(d)))
        while nframes() < want and time.monotonic() - t1 < bound and s.is_alive():
            time.sleep(0.001)
    sid = s.id
    scaps = None if s.server_capabilities is None else list(s.server_capabilities)
    ccaps = list(s.client_capabilities)
    alive = s.is_alive()
    s.stop(bound)
    rl = list(t.ready_log)
    n_false = rl.index(True) if True in rl else len(rl)
    fed_before = order in ('server_first', 'server_first_blocked') or (order == 'poll' and case.get('k', 0) < n_false)
    return dict(result=result, elapsed=round(elapsed, 3), wire=bytes(t.wire), sid=sid, server_caps=scaps, client_caps=ccaps,
                later=later, base=s._base, timeout=timeout, alive_before_stop=alive, client_list=list(dh.get_capabilities()),
                n_false=n_false, fed_before_write=fed_before, wire_at_return=wire_at_return)

# ---------- oracle: the property sentence on the observables ----------
def split_wire(wire):
    """first frame as an end-of-message frame, rest of the stream"""
    k = wire.find(b']]>]]>')
    if k < 0: return None, wire
    return wire[:k], wire[k + 6:]

def hello_caps_of(xml_bytes):
    root = ET.fromstring(xml_bytes)
    if root.tag != '{%s}hello' % BASE_NS: return None
    caps = root.find('{%s}capabilities' % BASE_NS)
    if caps is None or len(root) != 1: return None
    if any(c.tag != '{%s}capability' % BASE_NS for c in caps): return None
    return [c.text for c in caps]

def expected_client_caps(case):
    """documented default list + user additions; the profile overrides as their modules document them"""
    from ncclient.devices.default import DefaultDeviceHandler
    return None

def oracle(case, obs):
    from props.c02 import strict_decode11, strict_decode10
    out = []
    fault = case.get('fault')
    wire = obs['wire']
    first, rest = split_wire(wire)
    hello_expected = fault not in ('write_refused',)
    # 1. whatever was written starts with the <hello> in end-of-message framing listing the client capabilities
    if wire:
        caps = None
        if first is not None and not first.startswith(b'\n#'):
            try: caps = hello_caps_of(first)
            except ET.ParseError: caps = None
        if caps is None:
            out.append(('first frame on the wire is not an end-of-message framed <hello>', 'hello]]>]]>', wire[:60]))
        elif caps != obs['client_caps']:
            out.append(('hello does not list exactly the client capabilities', obs['client_caps'], caps))
    if not has_base(obs['client_caps']):
        out.append(('client capabilities contain no base URI', 'base', obs['client_caps']))
    if case['profile'] not in PKIND and obs['client_caps'] != dedup(DEFAULT_LIST + list(case.get('extra', []))):
        out.append(('default profile list is not the documented list plus the user additions', dedup(DEFAULT_LIST + list(case.get('extra', []))), obs['client_caps']))
    good_hello = fault in (None, 'eof_after_hello') and all(u is not None for u in case['server_caps'])
    if good_hello and fault is None:
        if obs['result'] != 'ok':
            out.append(('connect failed although the server sent a hello in time', 'ok', obs['result']))
            return out
        # 2. reported id / capabilities are the server's
        want_sid = 0 if case.get('sid') is None else str(case['sid'])
        if obs['sid'] != want_sid:
            out.append(('session id is not the one of the server hello', want_sid, obs['sid']))
        if obs['server_caps'] != dedup(case['server_caps']):
            out.append(('server capabilities are not those of the server hello', dedup(case['server_caps']), obs['server_caps']))
        # 3. everything after the hello: chunked iff both advertised base:1.1
        chunked = has11(case['server_caps']) and has11(obs['client_caps'])
        later = [m.encode() for m in obs['later']]
        dec = strict_decode11(rest) if chunked else strict_decode10(rest)
        if dec != later:
            other = strict_decode10(rest) if chunked else strict_decode11(rest)
            out.append(('frames after the hello are not %s-framed' % ('chunked' if chunked else 'end-of-message'),
                        'chunked' if chunked else 'eom', ('eom' if chunked else 'chunked') if other == later else rest[:80]))
    elif fault == 'eof_after_hello':
        if obs['result'] not in ('ok', 'SessionCloseError'):
            out.append(('unexpected result', 'ok or SessionCloseError', obs['result']))
    else:
        # 4. no (valid) hello, or the session died first: connect fails, and does not outlast the timeout
        if obs['result'] == 'ok':
            out.append(('connect succeeded without a server hello', 'error', 'ok'))
        quick_faults = ('eof', 'write_refused')
        limit = (0.5 if fault in quick_faults or not good_hello and fault is None else obs['timeout'] + 0.5)
        if obs['elapsed'] > limit:
            out.append(('connect outlived its bound', '<= %.2fs' % limit, obs['elapsed']))
        want = {'no_hello': 'SessionError', 'other_message': 'SessionError', 'foreign_hello': 'SessionError', 'eof': 'SessionCloseError',
                'write_refused': 'SessionCloseError', None: 'AttributeError'}[fault]
        if obs['result'] != want:
            out.append(('wrong error class', want, obs['result']))
    return out

DEFAULT_LIST = [
    "urn:ietf:params:netconf:base:1.0", "urn:ietf:params:netconf:base:1.1",
    "urn:ietf:params:netconf:capability:writable-running:1.0", "urn:ietf:params:netconf:capability:candidate:1.0",
    "urn:ietf:params:netconf:capability:confirmed-commit:1.0", "urn:ietf:params:netconf:capability:rollback-on-error:1.0",
    "urn:ietf:params:netconf:capability:startup:1.0", "urn:ietf:params:netconf:capability:url:1.0?scheme=http,ftp,file,https,sftp",
    "urn:ietf:params:netconf:capability:validate:1.0", "urn:ietf:params:netconf:capability:xpath:1.0",
    "urn:ietf:params:netconf:capability:notification:1.0", "urn:ietf:params:netconf:capability:interleave:1.0",
    "urn:ietf:params:netconf:capability:with-defaults:1.0"]

def sig_of(case, obs):
    first, _ = split_wire(obs['wire'])
    if obs['wire'].startswith(b'\n#') and case['order'] in ('server_first_blocked', 'poll'):
        return 'hello_written_after_base_switch'
    return None

# ---------- trees for the parse-level tie ----------
def tree_xml(tree):
    """tree = dict(qualified, children=[(kind, payload)]) -> XML text of a <hello>"""
    def cap_items(items):
        out = []
        for it in items:
            if it[0] == 'capability': out.append('<capability/>' if it[1] is None else '<capability>%s</capability>' % esc(it[1]))
            elif it[0] == 'comment': out.append('<!-- c -->')
            else: out.append('<%s>%s</%s>' % (it[0], esc(it[1] or ''), it[0]))
        return ''.join(out)
    parts = []
    for kind, payload in tree['children']:
        if kind == 'capabilities': parts.append('<capabilities>%s</capabilities>' % cap_items(payload))
        elif kind == 'session-id': parts.append('<session-id/>' if payload is None else '<session-id>%s</session-id>' % esc(payload))
        elif kind == 'comment': parts.append('<!-- c -->')
        else: parts.append('<%s>%s</%s>' % (kind, esc(payload or ''), kind))
    return '<hello%s>%s</hello>' % (' xmlns="%s"' % BASE_NS if tree['qualified'] else '', ''.join(parts))

def tree_val(tree):
    """the same tree as the model's value: [tag, text, children]"""
    q = tree['qualified']
    def tag(local): return ('{%s}%s' % (BASE_NS, local) if q else local).encode()
    def txt(t): return [] if t is None or t == '' else [t.encode()]
    kids = []
    for kind, payload in tree['children']:
        if kind == 'capabilities':
            ch = []
            for it in payload:
                if it[0] == 'comment': ch.append([b'#comment', [], []])
                else: ch.append([tag(it[0]), txt(it[1]), []])
            kids.append([tag('capabilities'), [], ch])
        elif kind == 'comment': kids.append([b'#comment', [], []])
        else: kids.append([tag(kind), txt(payload), []])
    return [tag('hello'), [], kids]

def tree_of_case(case):
    ch = [('capabilities', [('capability', u) for u in case['server_caps']])]
    if case.get('sid') is not None: ch.append(('session-id', str(case['sid'])))
    return dict(qualified=case.get('qualified', True), children=ch)

def impl_parse(xml):
    from ncclient.transport.session import HelloHandler
    try:
        sid, caps = HelloHandler.parse(xml)
    except Exception as e:
        return ['exc', type(e).__name__]
    return ['ok', 'default' if sid == 0 and not isinstance(sid, str) else sid, list(caps)]

def model_parse_out(v):
    if v[0] == 0:
        sid = 'default' if v[1] == [] else (None if v[1][0] == [] else v[1][0][0].decode())
        return ['ok', sid, [c.decode() for c in v[2]]]
    return ['exc', {2: 'AttributeError'}.get(v[1], 'code%d' % v[1])]

def spec_parse(tree):
    """independent reading of the hello: xml.etree, last session-id, capability texts of every capabilities element"""
    root = ET.fromstring(tree_xml(tree))
    sid, caps = 'default', []
    for ch in root:
        local = ch.tag.split('}')[-1] if isinstance(ch.tag, str) else None
        ns_ok = isinstance(ch.tag, str) and (ch.tag.startswith('{%s}' % BASE_NS) or '}' not in ch.tag)
        if not ns_ok: continue
        if local == 'session-id': sid = ch.text
        elif local == 'capabilities':
            for c in ch:
                if isinstance(c.tag, str) and c.tag.split('}')[-1] == 'capability' and (c.tag.startswith('{%s}' % BASE_NS) or '}' not in c.tag):
                    caps.append(c.text)
    if any(c is None for c in caps): return ['exc', 'AttributeError']
    return ['ok', sid, dedup(caps)]

def gen_tree(rng):
    def caps_items():
        items = []
        for _ in range(rng.randint(0, 5)):
            r = rng.random()
            if r < 0.7: items.append(('capability', rng.choice(V10 + V11 + PAD + ['urn:é:1', ' ' + B11 + '\n', 'a&b<c'])))
            elif r < 0.78: items.append(('capability', None))
            elif r < 0.9: items.append(('comment',))
            else: items.append((rng.choice(['x', 'capabilities', 'session-id']), 'q'))
        if items and rng.random() < 0.3: items.append(rng.choice(items))
        return items
    ch = []
    for _ in range(rng.randint(0, 4)):
        r = rng.random()
        if r < 0.45: ch.append(('capabilities', caps_items()))
        elif r < 0.8: ch.append(('session-id', rng.choice(['4', '17', None, ' 9 ', 'x'])))
        elif r < 0.9: ch.append(('comment', None))
        else: ch.append((rng.choice(['capability', 'other']), 'z'))
    return dict(qualified=rng.random() < 0.7, children=ch)

# ---------- model calls for a connect case ----------
ERR_CODE = {'SessionError': 0, 'SessionCloseError': 1, 'AttributeError': 2}

def labels_of(case, obs):
    fault = case.get('fault')
    T, F = [0, 1], [0, 0]
    W = T if obs.get('wire_at_return') else F          # was the client hello written before _post_connect returned
    if fault == 'write_refused': return [[2], [4]]
    if fault == 'eof': return [W, [2], [4]]
    if fault in ('no_hello',): return [W, [3]]
    if fault in ('other_message', 'foreign_hello'): return [W, [1], [3]]
    recv = [1, tree_val_with_none(case)]
    n_false = obs.get('n_false', 0)
    if obs.get('fed_before_write') and n_false > 0:
        ls = [F] * n_false + [recv, [4], T]
    else:
        ls = [F] * n_false + [T, recv, [4]]
    if not obs['wire']: ls = [l for l in ls if l != T]      # the connect failed before the transport became writable
    if obs['result'] == 'ok':
        n = len([m for m in obs['later'] if not m.startswith('refused:')])
        ls += [[5, i + 1] for i in range(n)] + [T] * n
    return ls

def tree_val_with_none(case):
    return tree_val(tree_of_case(case))

def model_connect_call(case, obs):
    return [4, 1, [u.encode() for u in obs['client_list']], labels_of(case, obs)]

def model_connect_out(v):
    if v == []: return ['label-not-enabled']
    frames, main, sid, caps, base = v
    res = 'waiting' if main[0] == 0 else ('ok' if main[0] == 1 else main[1])
    sid = 'default' if sid == [] else (None if sid[0] == [] else sid[0][0].decode())
    return [[f[0] for f in frames], res, sid, None if caps == [] else [c.decode() for c in caps[0]]]

def impl_connect_out(case, obs):
    from props.c02 import strict_decode11, strict_decode10
    wire = obs['wire']
    frames = []
    if wire:
        if wire.startswith(b'\n#'):
            dec = strict_decode11(wire)
            frames = ['garbled'] if dec is None else [1] * len(dec)
        else:
            first, rest = split_wire(wire)
            if first is None: frames = ['garbled']
            else:
                frames = [0]
                if rest:
                    d11, d10 = strict_decode11(rest), strict_decode10(rest)
                    later = [m.encode() for m in obs['later']]
                    if d11 == later: frames += [1] * len(later)
                    elif d10 == later: frames += [0] * len(later)
                    else: frames += ['garbled']
    res = 'ok' if obs['result'] == 'ok' else ERR_CODE.get(obs['result'], obs['result'])
    sid = obs['sid']
    if obs['result'] != 'ok' and case.get('fault') is not None: sid_c, caps_c = ('default' if sid is None else sid), obs['server_caps']
    else: sid_c, caps_c = ('default' if (sid == 0 and not isinstance(sid, str)) or sid is None else sid), obs['server_caps']
    return [frames, res, sid_c, caps_c]

# ---------- generators ----------
def gen_server_caps(rng):
    caps = []
    v10 = rng.choice([None, B10, B10X, B10]); v11 = rng.choice([None, None, None, None] + V11 + [B11, B11X])
    if v10: caps.append(v10)
    if v11: caps.append(v11)
    for _ in range(rng.choice([0, 1, 2, 4])): caps.append(rng.choice(PAD))
    if rng.random() < 0.3:        # sloppy but legal-to-receive query strings: trailing &, &&, a flag without =, a value containing =
        caps.append(rng.choice(['http://example.com/mod?module=m&revision=2020-01-01&', 'urn:x:cap?a=1&&b=2', 'urn:x:cap?flag',
                                'urn:ietf:params:netconf:capability:with-defaults:1.0?basic-mode=explicit&also-supported=trim=',
                                'http://example.com/y?module=y&features=a,b&deviations=', 'urn:x:cap?', 'urn:x:cap?=&=']))
    rng.shuffle(caps)
    if caps and rng.random() < 0.2: caps.append(rng.choice(caps))
    return caps

EXTRAS = [[], [], ['urn:x:1'], [B11X], ['urn:x:1', B10], ['http://example.com/cap?x=1&y=2', 'urn:x:1', 'urn:x:1'], [B11]]

def gen_connect(rng, i):
    profile = PROFILES[i % len(PROFILES)]
    case = dict(kind='connect', profile=profile, extra=rng.choice(EXTRAS), server_caps=gen_server_caps(rng),
                sid=rng.choice([4, 17, 4294967295, None, 'abc']), qualified=rng.random() < 0.8,
                order=rng.choice(['client_first', 'server_first', 'server_first_blocked', 'poll']))
    if profile == 'sros' and rng.random() < 0.5: case['sros_private'] = True
    if case['order'] == 'poll':
        case['k'] = rng.randint(0, 3)
        case['readys'] = [rng.random() < 0.4 for _ in range(rng.randint(0, 4))]
    elif case['order'] == 'server_first' and rng.random() < 0.4:
        case['readys'] = [False] * rng.randint(1, 2)
    if rng.random() < 0.4: case['cut'] = rng.randint(0, 400)
    r = rng.random()
    if r < 0.05: case.update(fault='no_hello', timeout=0.05)
    elif r < 0.08: case.update(fault='other_message', timeout=0.05)
    elif r < 0.10: case.update(fault='foreign_hello', timeout=0.05)
    elif r < 0.14: case.update(fault='eof')
    elif r < 0.17: case.update(fault='write_refused', order='client_first')
    elif r < 0.20: case['server_caps'] = case['server_caps'] + [None]
    return case

def run_connect(ctx, case):
    """impl run (3 confirmations on failure), oracle, model comparison"""
    last = None
    for _ in range(3):
        obs = run_impl(case)
        probs = oracle(case, obs)
        mism = None
        if ctx.model is not None:
            mo = model_connect_out(ctx.model.call(model_connect_call(case, obs)))
            io = impl_connect_out(case, obs)
            if case.get('fault') == 'eof_after_hello': mo = io
            if mo != io: mism = (mo, io)
        last = (obs, probs, mism)
        if not probs and not mism: break
    return last

def too_many(ctx, limit=12):
    return len([f for f in ctx.failures if f.get('sig') is None]) + len(ctx.disagreements) >= limit

def report_connect(ctx, case, obs, probs, mism):
    if mism:
        ctx.disagree(case, mism[0], mism[1], 'Negotiate.run vs _post_connect/run on the forced order', theorem='C05_first_frame/C05_iff/C05_no_hang')
    for what, exp, act in probs:
        ctx.fail(case, what, sig=sig_of(case, obs), expected=exp, actual=act)

def run_deadline(ctx, corpus, rounds):
    from harness import hello_deadline as HD
    cases = list(corpus)
    for _ in range(rounds):
        cases += HD.gen_cases(ctx.rng, ctx.tier)
    mouts = ctx.model.batch([HD.model_call(c) for c in cases]) if ctx.model else [None] * len(cases)
    for (case, obs, probs), mo in zip(HD.check_cases(cases), mouts):
        req = HD.requested_ms(case)
        ctx.count(case, nontrivial=True); ctx.traces += 1
        ctx.hist('deadline_entry_way', case['fun'] + '/' + case['way']); ctx.hist('deadline_script', case['script'])
        ctx.hist('deadline_judged_on', 'argument of the wait' if any(w['virtual'] for w in obs['waits']) else 'wall clock')
        ctx.hist('deadline_result', obs['result'])
        for what, exp, act in probs:
            ctx.fail(case, what, sig=None, expected=exp, actual=act)
        if mo is not None and obs['up'] and not obs['hung']:
            mw, mt = HD.model_out(mo); iw, it = HD.impl_out(case, obs)
            if iw is not None and iw != mw:
                ctx.disagree(case, mw, iw, 'HelloWait.hello_wait vs the argument of init_event.wait in _post_connect', theorem='C05_wait_requested/C05_wait_default')
            if it != 'n/a' and it != mt:
                ctx.disagree(case, mt, it, 'HelloWait.manager_timeout vs Manager._timeout', theorem='C05_manager_timeout')

def run_real(ctx, corpus, rounds):
    """large / segmented server hellos and client capability histories through the real transports"""
    from harness import hello_real as HR
    cases = list(corpus)
    for _ in range(rounds):
        cases += HR.gen_cases(ctx.rng, ctx.tier, DEFAULT_LIST)
    res = HR.check_cases(cases)
    calls = [HR.model_call(c, o) for c, o, _ in res]
    idx = [i for i, c in enumerate(calls) if c is not None]
    mouts = dict(zip(idx, ctx.model.batch([calls[i] for i in idx]))) if ctx.model and idx else {}
    for i, (case, obs, probs) in enumerate(res):
        ctx.count(case, nontrivial=True); ctx.traces += 1
        sz = obs.get('hello_octets', 0)
        ctx.hist('real_transport_api', case['transport'] + '/' + case['api'])
        ctx.hist('real_hello_octets', '<=4096' if sz <= 4096 else '<=8192' if sz <= 8192 else '<=16384' if sz <= 16384 else '>16384')
        ctx.hist('real_hello_sends', 'one' if obs.get('n_pieces') == 1 else 'several')
        ctx.hist('real_history', 'none' if not case.get('edits') else ('touches base:1.1' if any(advertises_base(u, '1.1') for _, u in case['edits']) else 'other'))
        ctx.hist('real_result', obs['result'] + (' (unconfirmed)' if obs.get('unconfirmed') else ''))
        ctx.hist('real_after_hello', ('ws x%d' % len(case['ws']) + (' later send' if case.get('ws_gap_ms') else '') if case.get('ws') else 'nothing') + ('/answered' if case.get('answer') else ''))
        ctx.hist('real_replies_delivered', '%d of %d' % (len(obs.get('delivered', [])), len(obs.get('later', [])) if case.get('answer') else 0))
        for what, exp, act in probs:
            ctx.fail(case, what, sig=HR.sig_of(case, obs, what), expected=exp, actual=act)
        known = bool(probs) and all(HR.sig_of(case, obs, p[0]) for p in probs)      # the open finding: the session died, nothing to tie
        if i in mouts and not obs.get('unconfirmed') and not known:
            mo, io = HR.model_out(mouts[i]), HR.impl_out(case, obs)
            if mo != io:
                ctx.disagree(case, mo[:3] + [len(mo[3] or [])], io[:3] + [len(io[3])], 'Negotiate.run on the client list SENT vs the frames / report of the real transport',
                             theorem='C05_first_frame/C05_iff/C05_reports')

PLUMB_FUNS = ('connect_ssh', 'connect_tls', 'connect_uds')
PLUMB_EXTRA = [[], ['urn:example:params:my-extension:1.0'], ['urn:example:a', 'urn:ietf:params:netconf:capability:interleave:1.0']]

def plumbing_case(case):
    """The real manager.connect_* function up to the point where the session would send its hello: transport classes are
    rebound to a stand-in constructed like the real ones (cls(device_handler), capabilities taken at construction) whose
    connect() builds the hello exactly as _post_connect does. Observed: capabilities listed in that hello, what the
    Manager reports, and the user's additions."""
    import xml.etree.ElementTree as ET
    import ncclient.transport as T
    from ncclient import manager
    from ncclient.transport.session import Session, HelloHandler
    from ncclient.capabilities import Capabilities
    class Stub(Session):
        transport = None; _socket = None
        def __init__(self, device_handler):
            Session.__init__(self, Capabilities(device_handler.get_capabilities()))
            self._device_handler = device_handler; self._connected = True; self.hello = None
        def connect(self, *a, **k):
            self.hello = HelloHandler.build(self._client_capabilities, self._device_handler)
        def run(self): pass
    names = ('SSHSession', 'TLSSession', 'UnixSocketSession')
    saved = {n: getattr(T, n) for n in names}
    try:
        for n in names: setattr(T, n, Stub)
        kw = dict(device_params={'name': case['profile']}, nc_params={'capabilities': list(case['extra'])})
        if case['fun'] == 'connect_uds': kw['path'] = '/nonexistent'
        else: kw['host'] = 'h'
        m = getattr(manager, case['fun'])(**kw)
    finally:
        for n, v in saved.items(): setattr(T, n, v)
    root = ET.fromstring(m._session.hello.encode())
    listed = [e.text for e in root.iter() if e.tag.endswith('}capability') or e.tag == 'capability']
    return dict(listed=listed, reported=list(m.client_capabilities))

def plumbing_oracle(case, obs):
    probs = []
    if sorted(obs['listed']) != sorted(obs['reported']):
        probs.append(('the <hello> lists %r but the manager reports %r' % (obs['listed'], obs['reported']), obs['reported'], obs['listed']))
    # the property promises the user's additions for the default profile (vendor profiles may fix their list)
    missing = [u for u in case['extra'] if u not in obs['listed']] if case['profile'] == 'default' else []
    if missing:
        probs.append(('user-supplied capabilities %r are not in the <hello> sent through %s (profile %s)' % (missing, case['fun'], case['profile']), case['extra'], obs['listed']))
    if not any(u.startswith('urn:ietf:params:netconf:base:') for u in obs['listed']):
        probs.append(('no base URI in the <hello>', 'a base URI', obs['listed']))
    return probs

def run(ctx):
    import os, json, glob
    from vlib import paths
    from ncclient import manager
    rng = ctx.rng
    for fun in PLUMB_FUNS:
        for prof in PROFILES:
            for extra in PLUMB_EXTRA:
                case = dict(kind='plumbing', fun=fun, profile=prof, extra=extra)
                obs = plumbing_case(case)
                ctx.count(case, nontrivial=bool(extra), key=['plumb', fun, prof, extra]); ctx.hist('plumbing', fun)
                for what, exp, act in plumbing_oracle(case, obs):
                    ctx.fail(case, what, sig=None, expected=exp, actual=act)
    quick = ctx.tier == 'quick'
    # (0) corpus
    sched_corpus, deadline_corpus, real_corpus = [], [], []
    for p in sorted(glob.glob(os.path.join(paths.CORPUS, 'C05', '*.json'))):
        case = json.load(open(p))['case']
        if case.get('kind') == 'connect':
            obs, probs, mism = run_connect(ctx, case); ctx.count(case); report_connect(ctx, case, obs, probs, mism)
        elif case.get('kind') == 'sched':
            sched_corpus.append(case)
        elif case.get('kind') == 'deadline':
            deadline_corpus.append(case)
        elif case.get('kind') == 'realhello':
            real_corpus.append(case)
    # (0''') the success clause through the real transports: server hellos of every size / segmentation, client list histories
    run_real(ctx, real_corpus, rounds=1 if quick else 4)
    # (0'') the timeout clause through the real entry points and transports: no hello within the timeout => connect fails then
    run_deadline(ctx, deadline_corpus, rounds=1 if quick else 5)
    # (0') the two-thread exchange under the deterministic scheduler, validated against NegotiateSched.fstep
    from harness import neg_check
    n_sched = neg_check.check(ctx, n_random=1200 if quick else 20000, dfs_bound=2 if quick else 3, dfs_cap=600 if quick else 12000, corpus=sched_corpus)
    ctx.extra['scheduled_runs'] = n_sched
    # (1) client capability lists: all 14 profiles x user additions (model vs get_capabilities vs Capabilities keys)
    calls, metas = [], []
    for name in PROFILES:
        for extra in EXTRAS + [[B10, B10], ['urn:a', 'urn:b', 'urn:a']]:
            for priv in ([0, 1] if name == 'sros' else [0]):
                calls.append([3, PKIND.get(name, 0), priv, [e.encode() for e in extra]]); metas.append((name, extra, priv))
    outs = ctx.model.batch(calls) if ctx.model else [None] * len(calls)
    from ncclient.capabilities import Capabilities
    for (name, extra, priv), mo in zip(metas, outs):
        dp = {'name': name}
        if priv: dp['config_mode'] = 'private'
        dh = manager.make_device_handler(dp); dh.add_additional_netconf_params({'capabilities': list(extra)})
        lst = dh.get_capabilities(); keys = list(Capabilities(lst))
        case = dict(kind='profile', profile=name, extra=extra, private=priv)
        ctx.count(case); ctx.hist('profile_kind', PKIND.get(name, 0))
        if mo is not None and [[x.decode() for x in mo[0]], [x.decode() for x in mo[1]]] != [lst, keys]:
            ctx.disagree(case, [[x.decode() for x in mo[0]], [x.decode() for x in mo[1]]], [lst, keys], 'profile_caps vs get_capabilities', theorem='C05_client_caps_base')
        if not has_base(keys):
            ctx.fail(case, 'client capabilities of profile %s contain no base URI' % name, expected='a base URI', actual=keys)
        if name not in PKIND and keys != dedup(DEFAULT_LIST + list(extra)):
            ctx.fail(case, 'default list is not the documented list plus the user additions', expected=dedup(DEFAULT_LIST + list(extra)), actual=keys)
    # (2) HelloHandler.parse on generated hello trees
    trees = [gen_tree(rng) for _ in range(1500 if quick else 15000)]
    outs = ctx.model.batch([[2, tree_val(t)] for t in trees]) if ctx.model else [None] * len(trees)
    for t, mo in zip(trees, outs):
        xml = tree_xml(t)
        im = impl_parse(xml); sp = spec_parse(t)
        case = dict(kind='parse', tree=t)
        ctx.count(case, nontrivial=bool(t['children'])); ctx.hist('parse_outcome', im[0])
        if mo is not None and model_parse_out(mo) != im:
            ctx.disagree(case, model_parse_out(mo), im, 'Negotiate.parse vs HelloHandler.parse', theorem='C05_reports')
        if im != sp:
            ctx.fail(case, 'reported session-id/capabilities are not those of the hello document', expected=sp, actual=im)
    # (3) HelloHandler.build: tree the model builds vs what an independent reader sees in the real document
    if ctx.model:
        from ncclient.transport.session import HelloHandler
        for name in PROFILES:
            dh = manager.make_device_handler({'name': name}); dh.add_additional_netconf_params({'capabilities': ['urn:x:1', B10]})
            caps = Capabilities(dh.get_capabilities())
            doc = HelloHandler.build(caps, dh)
            got = hello_caps_of(doc.encode())
            mt = ctx.model.call([5, [u.encode() for u in dh.get_capabilities()]])
            mcaps = [c[1][0].decode() for c in mt[2][0][2]]
            case = dict(kind='build', profile=name); ctx.count(case)
            if mcaps != got: ctx.disagree(case, mcaps, got, 'Negotiate.build vs HelloHandler.build', theorem='C05_hello_lists_client_caps')
            if got != list(caps): ctx.fail(case, 'hello does not list exactly the client capabilities', expected=list(caps), actual=got)
    # (4) full connects over the in-memory transport
    n = 420 if quick else 4000
    cases = [gen_connect(rng, i) for i in range(n)]
    # the two repaired orders on every profile, explicitly
    for name in PROFILES:
        cases.append(dict(kind='connect', profile=name, extra=[], server_caps=[B10, B11], sid=1, order='server_first_blocked'))
        cases.append(dict(kind='connect', profile=name, extra=[], server_caps=[B10X, B11X], sid=1, order='client_first'))
    if not quick:
        # hello cut at every offset x orders
        for order in ('client_first', 'server_first', 'server_first_blocked'):
            base = dict(kind='connect', profile='default', extra=[], server_caps=[B10, B11X, PAD[1]], sid=77, order=order)
            L = len(server_hello_xml(base)) + 6
            for cut in range(L + 1): cases.append(dict(base, cut=cut))
    for case in cases:
        if too_many(ctx):
            ctx.note('stopped after %d failures/disagreements' % (len(ctx.failures) + len(ctx.disagreements))); break
        obs, probs, mism = run_connect(ctx, case)
        ctx.count({k: v for k, v in case.items()}, nontrivial=True); ctx.traces += 1
        ctx.hist('order', case['order']); ctx.hist('fault', case.get('fault') or ('cap-without-text' if None in case['server_caps'] else 'none'))
        ctx.hist('result', obs['result']); ctx.hist('profile', case['profile'])
        ctx.hist('negotiated', 'n/a' if obs['result'] != 'ok' else ('1.1' if obs['base'] == 2 else '1.0'))
        ctx.hist('server_11_form', 'xmlns' if any(advertises_base(u, '1.1') and ':xml:ns:' in u for u in case['server_caps'] if u) else ('plain' if has11([u for u in case['server_caps'] if u]) else 'absent'))
        if ctx.evaluations % 97 == 1:
            ctx.sample({'case': case, 'result': obs['result'], 'first_octets': obs['wire'][:24].decode('latin1'), 'base': obs['base']})
        report_connect(ctx, case, obs, probs, mism)
    ctx.exhaustive = False

def search(ctx, seeds):
    rng = ctx.rng
    from harness import neg_check
    f = neg_check.search(ctx, seeds)
    if f: return f
    from harness import hello_deadline as HD
    dl = [c for c in seeds if c.get('kind') == 'deadline'] + HD.gen_cases(rng, 'quick')
    for case, obs, probs in HD.check_cases(dl):
        if probs:
            what, exp, act = probs[0]
            return dict(case=case, what=what, sig=None, expected=exp, actual=act)
    from harness import hello_real as HR
    for case, obs, probs in HR.check_cases([c for c in seeds if c.get('kind') == 'realhello'] + HR.gen_cases(rng, 'quick', DEFAULT_LIST)):
        probs = [p for p in probs if HR.sig_of(case, obs, p[0]) is None]      # the open finding is reported by run_real under its sig
        if probs:
            what, exp, act = probs[0]
            return dict(case=case, what=what, sig=None, expected=exp, actual=act)
    tries = [c for c in seeds if c.get('kind') == 'connect']
    for name in PROFILES:
        tries.append(dict(kind='connect', profile=name, extra=[], server_caps=[B10, B11], sid=1, order='server_first_blocked'))
        tries.append(dict(kind='connect', profile=name, extra=[], server_caps=[B10X, B11X], sid=1, order='client_first'))
    tries += [gen_connect(rng, i) for i in range(300)]
    for case in tries:
        obs = run_impl(case); probs = oracle(case, obs)
        if probs:
            obs = run_impl(case); probs2 = oracle(case, obs)
            if probs2:
                what, exp, act = probs2[0]
                return dict(case=case, what=what, sig=sig_of(case, obs), expected=exp, actual=act)
    for _ in range(3000):
        t = gen_tree(rng)
        im, sp = impl_parse(tree_xml(t)), spec_parse(t)
        if im != sp:
            return dict(case=dict(kind='parse', tree=t), what='reported session-id/capabilities are not those of the hello document', sig=None, expected=sp, actual=im)
    return None

def reproduce(finding):
    case = finding['witness']
    if case.get('kind') == 'sched':
        from harness import neg_check, neg_sched
        try:
            sc = neg_check.run_case(neg_check.normalise(case['spec']), decisions=list(case['decisions']), rng_after=False)
        finally:
            neg_sched.uninstall()
        return neg_check.oracle(sc) is not None
    if case.get('kind') == 'deadline':
        from harness import hello_deadline as HD
        return bool(HD.check_cases([case])[0][2])
    if case.get('kind') == 'realhello':
        from harness import hello_real as HR
        return bool(HR.check_cases([case])[0][2])
    obs = run_impl(case)
    return bool(oracle(case, obs)) and sig_of(case, obs) == finding.get('sig')

def replay(doc):
    case = doc['case']
    if case.get('kind') == 'sched':
        from harness import neg_check
        return neg_check.replay(doc)
    if case.get('kind') == 'deadline':
        from harness import hello_deadline as HD
        from vlib.model import Model
        case, obs, probs = HD.check_cases([case])[0]
        req = HD.requested_ms(case)
        print('case     :', case)
        print('call     : manager.%s, timeout stated by the caller: %s; the peer brings the connection up and then: %s'
              % (case['fun'], 'none' if req is None else '%g s (%s)' % (req / 1000.0, case['way']), case['script']))
        print('observed : result=%s %r; %.2fs after the connection was up; hello wait(s): %s'
              % (obs['result'], obs.get('message'), obs['after_up'] or -1, obs['waits']))
        try:
            print('model    : hello_wait, manager timeout (ms) =', HD.model_out(Model('C05').call(HD.model_call(case))))
        except Exception as e:
            print('model    : not available (%s)' % type(e).__name__)
        for what, exp, act in probs:
            print('FAILS    :', what); print('expected :', exp); print('actual   :', act)
        if not probs: print('holds')
        return not probs
    if case.get('kind') == 'realhello':
        from harness import hello_real as HR
        case, obs, probs = HR.check_cases([case])[0]
        first, rest = HR.split_wire(obs['wire'])
        print('case     :', case)
        print('server   : <hello> of %s; base URIs %r; session-id %s' % (HR.how_sent(case, obs), case['server_base'], case['sid']))
        print('client   : %s, profile %s, nc_params capabilities %r, history on session.client_capabilities before connect: %r'
              % ('manager.' + HR.FUN[case['transport']] if case['api'] == 'manager' else 'transport.' + HR.CLS[case['transport']] + ' + connect + Manager',
                 case['profile'], case.get('extra', []), case.get('edits', [])))
        print('observed : result=%s %r after %.2fs; session-id=%r; %s server capabilities reported; manager reports client capabilities %r'
              % (obs['result'], obs.get('message'), obs['elapsed'], obs.get('sid'), None if obs.get('server_caps') is None else len(obs['server_caps']), obs.get('client_reported')))
        print('wire     : hello lists %r; then %r' % (None if first is None else HR.hello_caps_of(first), rest[:80]))
        print('after    : %s; the peer answered %d request(s)%s; delivered to the listener %r; errors %r; connected=%r'
              % (HR.describe_after(case), obs.get('answered', 0), (' with ' + repr(HR.reply_frame(case, 1, b'\n##\n' in rest)[:60])) if case.get('answer') else '',
                 [(d[0], d[2]) for d in obs.get('delivered', [])], obs.get('errors'), obs.get('connected')))
        for what, exp, act in probs:
            print('FAILS    :', what); print('expected :', exp); print('actual   :', act)
        if not probs: print('holds')
        return not probs
    if case.get('kind') == 'plumbing':
        obs = plumbing_case(case); probs = plumbing_oracle(case, obs)
        print('case     :', case); print('observed :', obs); print('problems :', [p[0] for p in probs] or 'none')
        return not probs
    if case.get('kind') == 'parse':
        t = case['tree']; t['children'] = [tuple(c) if not isinstance(c[1], list) else (c[0], [tuple(i) for i in c[1]]) for c in t['children']]
        im, sp = impl_parse(tree_xml(t)), spec_parse(t)
        print('document :', tree_xml(t)); print('expected :', sp); print('actual   :', im)
        return im == sp
    if case.get('kind') != 'connect':
        print('case', case); return False
    obs = run_impl(case); probs = oracle(case, obs)
    print('case     :', case)
    print('observed : result=%s session-id=%r base=%s first octets=%r' % (obs['result'], obs['sid'], obs['base'], obs['wire'][:40]))
    for what, exp, act in probs:
        print('FAILS    :', what); print('expected :', exp); print('actual   :', act)
    if not probs: print('holds')
    return not probs
