"""C05 — hello exchange and framing-version negotiation
(ncclient/transport/session.py _post_connect / HelloHandler / send branch, devices/*.py get_capabilities).
Model: coq/Model/Negotiate.v; theorems: coq/Props/C05.v."""
import re, threading, time
import xml.etree.ElementTree as ET
ID = 'C05'
COQ_ROOTS = ['Props/C05.v']
RULE = ('A case is (profile of the 14, user capabilities, server capability list from a grammar: base 1.0/1.1 present/absent in '
        'either URN form, with parameters/extra segments, look-alikes, padding, duplicates; qualified or unqualified server hello; '
        'session-id; order of "server hello processed" vs "client hello written" forced through the _send_ready oracle: '
        'client_first, server_first, server_first_blocked (not writable until _post_connect returned), poll k; hello cut at an offset; '
        'fault: none, no hello, other message, EOF, write refused, capability without text). The real _post_connect runs over an '
        'in-memory transport with the real worker thread. distinct = distinct case; non-trivial = the server sends a hello or a fault is injected.')
ASSUMES = ['the transport delivers the server octets in order; threading.Event.wait(timeout) returns no later than the deadline plus scheduling latency',
           'a profile is one of the 14 modules of ncclient/devices; nc_params capabilities are strings']
TRUSTED = ['modelled, not verified: lxml parsing/serialisation of the hello documents (trees are compared through an independent reader)',
           'tools/harness/fakesession.py in-memory transport and selector shim']

BASE_NS = 'urn:ietf:params:xml:ns:netconf:base:1.0'
PROFILES = ['alu', 'ciena', 'csr', 'default', 'ericsson', 'h3c', 'hpcomware', 'huawei', 'huaweiyang', 'iosxe', 'iosxr', 'junos', 'nexus', 'sros']
PKIND = {'alu': 1, 'huawei': 2, 'huaweiyang': 3, 'nexus': 4, 'sros': 5}
B10, B11 = 'urn:ietf:params:netconf:base:1.0', 'urn:ietf:params:netconf:base:1.1'
B10X, B11X = 'urn:ietf:params:xml:ns:netconf:base:1.0', 'urn:ietf:params:xml:ns:netconf:base:1.1'
PAD = ['urn:ietf:params:netconf:capability:candidate:1.0', 'urn:ietf:params:netconf:capability:with-defaults:1.0?basic-mode=explicit',
       'http://example.com/yang?module=x&revision=2020-01-01', 'urn:ietf:params:netconf:capability:base:1.0', 'urn:x:base:1.1',
       'urn:ietf:params:netconf:base:1.10', 'urn:ietf:params:netconf:base:1', 'urn:ietf:params:netconf:base', 'urn:ietf:params:netconf:base:1.1x']
V11 = [B11, B11X, B11 + '?x=y', B11 + ':extra', B11X + '?a=b']
V10 = [B10, B10X]
LATER = ['<rpc message-id="1"><get/></rpc>', '<rpc message-id="2">naïve</rpc>']

# ---------- the property's own notion of "advertised base:1.1" (independent of capabilities.py) ----------
PA = ['urn', 'ietf', 'params', 'netconf']
PB = ['urn', 'ietf', 'params', 'xml', 'ns', 'netconf']
def advertises_base(uri, version):
    segs = uri.split('?')[0].split(':')
    for p in (PA, PB):
        if segs[:len(p)] == p and segs[len(p):len(p) + 2] == ['base', version]:
            return True
    return False
def has11(caps):
    return any(advertises_base(u, '1.1') for u in caps)
def has_base(caps):
    return any(advertises_base(u, v) for u in caps for v in ('1.0', '1.1'))
def dedup(l):
    out = []
    for x in l:
        if x not in out: out.append(x)
    return out

def esc(s):
    return s.replace('&', '&amp;').replace('<', '&lt;').replace('>', '&gt;')

def server_hello_xml(case):
    q = case.get('qualified', True)
    caps = ''.join('<capability>%s</capability>' % esc(u) if u is not None else '<capability/>' for u in case['server_caps'])
    sid = '' if case.get('sid') is None else '<session-id>%s</session-id>' % case['sid']
    return '<hello%s><capabilities>%s</capabilities>%s</hello>' % (' xmlns="%s"' % BASE_NS if q else '', caps, sid)

# ---------- implementation ----------
def run_impl(case, bound=3.0):
    from harness import fakesession as fs
    from ncclient import manager
    from ncclient.transport.errors import SessionError, SessionCloseError, TransportError
    dparams = {'name': case['profile']}
    if case.get('sros_private'): dparams['config_mode'] = 'private'
    dh = manager.make_device_handler(dparams)
    dh.add_additional_netconf_params({'capabilities': list(case.get('extra', []))})
    s = fs.make_session(device_handler=dh)
    t = s.t
    fault = case.get('fault')
    hello = (server_hello_xml(case) + ']]>]]>').encode()
    if fault == 'other_message': hello = ('<rpc-reply xmlns="%s" message-id="1"><ok/></rpc-reply>]]>]]>' % BASE_NS).encode()
    if fault == 'foreign_hello': hello = b'<hello xmlns="urn:other"><capabilities><capability>' + B11.encode() + b'</capability></capabilities><session-id>1</session-id></hello>]]>]]>'
    cut = case.get('cut')
    segs = [hello] if cut is None else [hello[:cut % (len(hello) + 1)], hello[cut % (len(hello) + 1):]]
    fed = [False]
    def feed_hello():
        if fed[0]: return
        fed[0] = True
        if fault == 'no_hello': return
        if fault == 'eof': t.feed_eof(); return
        for sg in segs: t.feed(sg)
        if fault == 'eof_after_hello': t.feed_eof()
    order = case['order']
    returned = threading.Event()
    gate_open = [order != 'server_first_blocked']
    t.readys.extend(bool(r) for r in case.get('readys', []))
    polls = [0]
    real_ready = t.send_ready
    def send_ready():
        polls[0] += 1
        if order == 'poll' and polls[0] > case.get('k', 0): feed_hello()
        if not gate_open[0]:
            t.ready_log.append(False); t.events.append(('ready', False)); return False
        return real_ready()
    t.send_ready = send_ready
    def on_write(tt):
        if order == 'client_first' and b']]>]]>' in tt.wire: feed_hello()
    t.on_write = on_write
    if fault == 'write_refused': t.answers.append(('ret', 0))
    if order in ('server_first', 'server_first_blocked'): feed_hello()
    timeout = case.get('timeout', 2.0)
    t0 = time.monotonic()
    try:
        s._post_connect(timeout)
        result = 'ok'
    except SessionCloseError: result = 'SessionCloseError'
    except SessionError: result = 'SessionError'
    except TransportError as e: result = 'TransportError'
    except Exception as e: result = type(e).__name__
    elapsed = time.monotonic() - t0
    gate_open[0] = True
    later = []
    if result == 'ok':
        for m in LATER:
            try: s.send(m); later.append(m)
            except Exception as e: later.append('refused:' + type(e).__name__)
        # wait for hello + later frames
        want = 1 + len([m for m in later if not m.startswith('refused:')])
        t1 = time.monotonic()
        def nframes():
            return sum(1 for d, a in t.writes if a[0] == 'accept' and (a[1] is None or a[1] >= len(d)))
        while nframes() < want and time.monotonic() - t1 < bound and s.is_alive():
            time.sleep(0.001)
    sid = s.id
    scaps = None if s.server_capabilities is None else list(s.server_capabilities)
    ccaps = list(s.client_capabilities)
    alive = s.is_alive()
    s.stop(bound)
    return dict(result=result, elapsed=round(elapsed, 3), wire=bytes(t.wire), sid=sid, server_caps=scaps, client_caps=ccaps,
                later=later, base=s._base, timeout=timeout, alive_before_stop=alive)

# ---------- oracle: the property sentence on the observables ----------
def split_wire(wire):
    """first frame as an end-of-message frame, rest of the stream"""
    k = wire.find(b']]>]]>')
    if k < 0: return None, wire
    return wire[:k], wire[k + 6:]

def hello_caps_of(xml_bytes):
    root = ET.fromstring(xml_bytes)
    if root.tag != '{%s}hello' % BASE_NS: return None
    caps = root.find('{%s}capabilities' % BASE_NS)
    if caps is None or len(root) != 1: return None
    if any(c.tag != '{%s}capability' % BASE_NS for c in caps): return None
    return [c.text for c in caps]

def expected_client_caps(case):
    """documented default list + user additions; the profile overrides as their modules document them"""
    from ncclient.devices.default import DefaultDeviceHandler
    return None

def oracle(case, obs):
    from props.c02 import strict_decode11, strict_decode10
    out = []
    fault = case.get('fault')
    wire = obs['wire']
    first, rest = split_wire(wire)
    hello_expected = fault not in ('write_refused',)
    # 1. whatever was written starts with the <hello> in end-of-message framing listing the client capabilities
    if wire:
        caps = None
        if first is not None and not first.startswith(b'\n#'):
            try: caps = hello_caps_of(first)
            except ET.ParseError: caps = None
        if caps is None:
            out.append(('first frame on the wire is not an end-of-message framed <hello>', 'hello]]>]]>', wire[:60]))
        elif caps != obs['client_caps']:
            out.append(('hello does not list exactly the client capabilities', obs['client_caps'], caps))
    if not has_base(obs['client_caps']):
        out.append(('client capabilities contain no base URI', 'base', obs['client_caps']))
    if case['profile'] not in PKIND and obs['client_caps'] != dedup(DEFAULT_LIST + list(case.get('extra', []))):
        out.append(('default profile list is not the documented list plus the user additions', dedup(DEFAULT_LIST + list(case.get('extra', []))), obs['client_caps']))
    good_hello = fault in (None, 'eof_after_hello') and all(u is not None for u in case['server_caps'])
    if good_hello and fault is None:
        if obs['result'] != 'ok':
            out.append(('connect failed although the server sent a hello in time', 'ok', obs['result']))
            return out
        # 2. reported id / capabilities are the server's
        want_sid = 0 if case.get('sid') is None else str(case['sid'])
        if obs['sid'] != want_sid:
            out.append(('session id is not the one of the server hello', want_sid, obs['sid']))
        if obs['server_caps'] != dedup(case['server_caps']):
            out.append(('server capabilities are not those of the server hello', dedup(case['server_caps']), obs['server_caps']))
        # 3. everything after the hello: chunked iff both advertised base:1.1
        chunked = has11(case['server_caps']) and has11(obs['client_caps'])
        later = [m.encode() for m in obs['later']]
        dec = strict_decode11(rest) if chunked else strict_decode10(rest)
        if dec != later:
            other = strict_decode10(rest) if chunked else strict_decode11(rest)
            out.append(('frames after the hello are not %s-framed' % ('chunked' if chunked else 'end-of-message'),
                        'chunked' if chunked else 'eom', ('eom' if chunked else 'chunked') if other == later else rest[:80]))
    elif fault == 'eof_after_hello':
        if obs['result'] not in ('ok', 'SessionCloseError'):
            out.append(('unexpected result', 'ok or SessionCloseError', obs['result']))
    else:
        # 4. no (valid) hello, or the session died first: connect fails, and does not outlast the timeout
        if obs['result'] == 'ok':
            out.append(('connect succeeded without a server hello', 'error', 'ok'))
        quick_faults = ('eof', 'write_refused')
        limit = (0.5 if fault in quick_faults or not good_hello and fault is None else obs['timeout'] + 0.5)
        if obs['elapsed'] > limit:
            out.append(('connect outlived its bound', '<= %.2fs' % limit, obs['elapsed']))
        want = {'no_hello': 'SessionError', 'other_message': 'SessionError', 'foreign_hello': 'SessionError', 'eof': 'SessionCloseError',
                'write_refused': 'SessionCloseError', None: 'AttributeError'}[fault]
        if obs['result'] != want:
            out.append(('wrong error class', want, obs['result']))
    return out

DEFAULT_LIST = [
    "urn:ietf:params:netconf:base:1.0", "urn:ietf:params:netconf:base:1.1",
    "urn:ietf:params:netconf:capability:writable-running:1.0", "urn:ietf:params:netconf:capability:candidate:1.0",
    "urn:ietf:params:netconf:capability:confirmed-commit:1.0", "urn:ietf:params:netconf:capability:rollback-on-error:1.0",
    "urn:ietf:params:netconf:capability:startup:1.0", "urn:ietf:params:netconf:capability:url:1.0?scheme=http,ftp,file,https,sftp",
    "urn:ietf:params:netconf:capability:validate:1.0", "urn:ietf:params:netconf:capability:xpath:1.0",
    "urn:ietf:params:netconf:capability:notification:1.0", "urn:ietf:params:netconf:capability:interleave:1.0",
    "urn:ietf:params:netconf:capability:with-defaults:1.0"]

def sig_of(case, obs):
    first, _ = split_wire(obs['wire'])
    if obs['wire'].startswith(b'\n#') and case['order'] in ('server_first_blocked', 'poll'):
        return 'hello_written_after_base_switch'
    return None
